"""C09 — every command acts only with the credential it requires.

Decides (G + guard predicates + who-may-write): the credential class of every dispatcher arm
(administrator guard for the administrative / cluster commands, including their replication-table
emission; secure-key guard with the PermissionKind the statement names for data commands; a
selected database for the rest), the behaviour of each guard function, and that the session's
database selection and administrator flag are written only after validation.
Does NOT decide the credential x command x permission-list matrix as behaviour.
"""
import json
from nl import core
from nl.core import origins, callee, callee_decl, is_log, bool_switches, reachable_without, const_str, enum_switches
from nl.model import short
from props.C08 import keydesc, is_admin_flag

RULES = {
    'C09.a': 'credential class per arm: administrative/cluster variants have every effect under the admin '
             'guard (or the secure-key guard with a constant $$ key); data variants under the secure-key guard '
             'with the PermissionKind the statement names; Keys/UnWatch/UnWatchAll/Arbiter under a '
             'selected-database guard; unknown variants under admin or secure-key guard',
    'C09.a.reply': 'a variant whose replication-table arm emits a message replies with success only through '
                   'its guard (the reply is the guard call\'s result or a locally built error)',
    'C09.b': 'guard predicates: admin guard invokes the closure only when the flag loads true; the permission '
             'guard only for an existing database and (no key or has_permission); the database guard only with a '
             'selected database; has_permission requires the kind and a matching pattern',
    'C09.c': 'SelectedDatabase.{name,user_name} are written only in the UseDb arm after the token check succeeded; '
             'Client.auth is set true only after both credential comparisons or on a node-link client created locally',
    'C09.e': 'no argument of a client command can carry a line break into the line-based node-to-node stream (whose reader runs every '
             'line with administrator rights): every String field a parser puts into a Request comes from text that passed a '
             'line-break-removing call, in the parser or in Request::parse before the parsers are dispatched',
    'C09.f': 'a permission statement grants only the key patterns written in it: the parser of a statement builds the pattern list from the '
             'statement\'s own text, no literal pattern is injected (a statement with no patterns must not turn into "every key": a removed '
             'permission list reads back as such a statement)',
    'C09.d': 'credentials are not carried over: a transport that accepts requests in a loop creates a fresh Client inside that '
             'loop; has_permission reads the permission list from Database.map on every call',
    'C09.g': 'permission patterns are matched by the selector table x* -> prefix, *x -> suffix, otherwise contains (C01.c pattern-table): a wider matcher widens every grant',
    'C09.h': 'a refusal tells the client nothing it could not read: where a transport or handler takes a Response::VersionError apart, '
             'no text it builds in that arm takes the stored entry (`old_value`) or the refused change as an argument — a write needs only '
             '`w`, so the reply to a refused set-safe would hand the stored value to a user whose list has no `r`',
    'C09.i': 'a guard that does not let the command through answers with an Error: the only Response a guard function builds itself is '
             'Response::Error (its success is whatever the guarded closure returned) — the replication table decides from the kind of the '
             'Response alone, so a refusal answered as Ok is replicated and executed on the other nodes as administrator',
}

ADMIN = {'CreateDb', 'Snapshot', 'CreateUser', 'SetPermissions', 'Join', 'Leave', 'SetPrimary', 'SetScoundary',
         'Election', 'ElectionWin', 'ElectionActive', 'ReplicateSet', 'ReplicateRemove', 'ReplicateIncrement',
         'ReplicateSnapshot', 'ReplicateJoin', 'ReplicateLeave', 'ReplicateSince', 'Acknowledge', 'ClusterState',
         'MetricsState', 'Debug'}
DATA = {'Get': 'Read', 'GetSafe': 'Read', 'Watch': 'Read', 'Set': 'Write', 'Resolve': 'Write',
        'Increment': 'Increment', 'Remove': 'Remove'}
DBSEL = {'Keys', 'UnWatch', 'UnWatchAll', 'Arbiter'}
SPECIAL = {'Auth', 'UseDb', 'ReplicateRequest'}

IGNORED_KINDS = {'lock', 'atomic-read'}


def eff_label(ex, kind, info):
    if kind == 'send':
        return 'send[%s]' % ','.join(sorted(info['chan']))
    if kind == 'atomic-write':
        return 'atomic-write[%s]' % ','.join(sorted(info['ids']))
    if kind in ('guarded-replace', 'store'):
        return '%s[%s]' % (kind, ','.join(sorted(l for l, _ in info.get('locks', ()))) or ','.join(sorted(info.get('target', ()))))
    if 'locks' in info:
        return '%s[%s]' % (kind, ','.join(sorted(l for l, _ in info['locks'])))
    return kind


def is_shared(kind, info):
    """does the effect touch state shared beyond the function's own locals?"""
    if kind in IGNORED_KINDS:
        return False
    if kind == 'send':
        return True
    if kind == 'atomic-write':
        return True
    if kind == 'store':
        return bool(info.get('locks'))
    if 'locks' in info:
        return bool(info['locks'])
    return True


def run(ck, m):
    _run(ck, m)
    matcher_chosen_per_pattern(ck, m)
    framing_rule(ck, m)
    # the permission list is matched against the key the guard is CALLED with: an effect on another key (a second key taken from the
    # same argument, a key derived from it) was never matched against any pattern — C08.a's key binding, repeated
    from nl import alias as _alias9
    from props import C08 as _C08
    ck.rule('C09.k', 'every keyed effect of a data command is on the key its access check was made for (C08.a, repeated): the secure-key / '
                     'permission guard is called with the key operand that the guarded effect uses — an effect on a second key cut out of the same '
                     'argument is covered by no permission pattern')
    _alias9.repeat(ck, m, 'C08', ('C08.a',), 'C09.k', floor=40, runner=_C08._run,
                   key_filter=lambda k: any(x in k for x in (':map-read', ':map-write', ':watch-write', ':watch-read', ':map-bulk-read')))
    permission_parser_rule(ck, m)
    refusal_reply_rule(ck, m)
    guards_refuse_with_an_error(ck, m)
    # a grant `prefix*` / `*suffix` is matched by the same selector and matchers the key listing uses: their table is C01.c's, its
    # verdict is repeated here because a matcher that accepts more (a key shorter than the prefix) widens every grant
    from nl import report
    from props import C01
    ck.rule('C09.g', 'permission patterns are matched by the selector table x* -> prefix, *x -> suffix, otherwise contains (C01.c '
                     'pattern-table): a wider matcher widens every grant')
    tmp = report.Check('C01', 'quick', 0)
    try:
        C01.run(tmp, m)
    except Exception as e:      # fail closed
        ck.undecided('C09.g', 'pattern-selector', 'table', 'C01.c could not be evaluated: %s' % e)
    n_ = 0
    for o in tmp.obs:
        if o['rule'] == 'C01.c' and (o['key'].endswith(':pattern-table') or 'pattern-selector' in o['key']):
            n_ += 1
            ck.ob('C09.g', o['key'].split(':')[1], 'pattern-table', o['verdict'] == 'discharged', o['what'], o['loc'], verdict=o['verdict'])
    ck.floor('C09.g', n_, 1, 'pattern selector tables')


def _run(ck, m):
    for k, v in RULES.items():
        ck.rule(k, v)
    ex = m.explorer()
    prefix = m.secure_prefix()
    disp, sw = m.dispatcher()
    n = 0
    for variant in m.variants():
        if variant not in sw[1]:
            continue
        effs, raw = m.arm_effects(variant)
        seen = set()
        for ev, kind, info in effs:
            if not is_shared(kind, info):
                continue
            if m.in_guard(ev.guards):
                continue
            label = eff_label(ex, kind, info)
            fn = short(ev.frame.body.id)
            ok, why = judge(m, ex, prefix, variant, ev, kind, info)
            inst = '%s:%s' % (variant, label)
            if (fn, inst, ok) in seen:
                continue
            seen.add((fn, inst, ok))
            n += 1
            ck.ob('C09.a', fn, inst, ok, 'arm %s: %s in %s — %s (via %s)' % (variant, label, fn, why, ev.chain_str()), ev.loc())
        # indirect calls that could not be resolved must not hide effects
        for ev in raw:
            if ev.kind in ('indirect', 'bound') and not m.in_guard(ev.guards):
                if ev.kind == 'indirect' and ev.frame.body.locals[0] == 'bool':
                    continue   # pattern matcher fn pointers (pure string predicates)
                ck.ob('C09.a', short(ev.frame.body.id), '%s:unresolved-%s' % (variant, ev.kind), m.has_admin(ev.guards),
                      'arm %s: call that could not be resolved outside the admin guard' % variant, ev.loc(),
                      verdict=None if m.has_admin(ev.guards) else 'inconclusive')
    ck.floor('C09.a', n, 150, 'effects classified across the dispatcher arms')
    replies(ck, m)
    predicates(ck, m)
    writers(ck, m)
    fresh_credentials(ck, m)


def judge(m, ex, prefix, variant, ev, kind, info):
    g = ev.guards
    if m.has_admin(g):
        return True, 'admin guard'
    safe = m.entries(g, 'safe')
    if variant in ADMIN:
        if safe and m.key_is_constant_secure(safe[-1][2], prefix):
            return True, 'secure-key guard with a constant %s key (administrators only)' % prefix
        return False, 'administrative/cluster command acts outside the admin guard'
    if variant in DATA:
        want = DATA[variant]
        if safe:
            got = m.enum_const(safe[-1][3])
            if got == {want}:
                return True, 'secure-key guard with PermissionKind::%s' % want
            return False, 'secure-key guard asks for %s, the command needs %s' % (sorted(got), want)
        return False, 'data command acts without the secure-key / permission guard (needs %s)' % want
    if variant in DBSEL:
        if any(x[0] in ('db', 'dbname', 'dbname_perm', 'safe') for x in g):
            return True, 'selected-database guard'
        return False, 'acts without a selected-database guard'
    if variant == 'Auth':
        # the only effects allowed: the flag store (C09.c) and the constant reply
        if kind == 'atomic-write' and info['ids'] == {'Client.auth'}:
            return True, 'administrator flag store (ordering checked by C09.c)'
        if kind == 'send' and info['chan'] == {'client'}:
            return True, 'reply to the requester'
        return False, 'unexpected effect in the Auth arm'
    if variant == 'UseDb':
        if kind in ('guarded-replace', 'store') and {l for l, _ in info.get('locks', ())} <= {'SelectedDatabase.name', 'SelectedDatabase.user_name'}:
            return True, 'selection write (ordering checked by C09.c)'
        # everything else must be dominated by a successful token check
        b = ev.frame.body
        d, sw = m.dispatcher()
        chain0 = ev.chain[0] if ev.chain else None
        top_bi = first_block_in(m, ev)
        if top_bi is not None and after_token_check(m, d, top_bi):
            return True, 'after a successful token check'
        if kind in ('dbs-read', 'map-read'):
            return True, 'credential lookup'
        return False, 'effect in the UseDb arm not dominated by a successful token check'
    if variant == 'ReplicateRequest':
        if kind == 'send' and info['chan'] == {'client'}:
            return True, 'acknowledgement to the sender'
        return False, 'unexpected effect in the rp wrapper'
    # unknown / unlisted variant (a command added after this table was written)
    if safe:
        return True, 'secure-key guard'
    # a read-only command on the selected database: reply to the requester and scans behind the listing's secure-key filter,
    # under the selected-database guard (the discipline of `keys`)
    if any(x[0] in ('db', 'dbname', 'dbname_perm') for x in g):
        if kind == 'send' and info.get('chan') == {'client'}:
            return True, 'reply to the requester under the selected-database guard'
        if kind == 'map-bulk-read':
            from props import C08
            if ev.frame.body.id in C08.filtered_scanners(m, prefix):
                okf, whyf = C08.scanner_flag_ok(m, ex, ev)
                if okf:
                    return True, 'scan behind the secure-key filter under the selected-database guard (%s)' % whyf
    return False, 'unlisted variant acts outside the admin / secure-key guard'


def fresh_credentials(ck, m):
    P = m.prog
    from props.C07 import natural_loops
    pr = m.reentry_names()
    n = 0
    for b in P.user_bodies():
        if b.id.startswith(('nundb::client::', 'nundb::command_line::')):
            continue
        accepts = [bi for bi, t in b.calls() if callee_decl(t) in ('tiny_http::Server::recv', 'std::net::TcpListener::accept')]
        if not accepts:
            continue
        news = [bi for bi, t in b.calls() if 'bo::Client::new_empty' in callee(t)]
        loops = natural_loops(b)
        for a in accepts:
            inloops = [body for h, body in loops if a in body]
            if not inloops:
                continue
            n += 1
            body = min(inloops, key=len)
            ok = bool(news) and all(x in body for x in news)
            ck.ob('C09.d', short(b.id), 'fresh-client-per-request', ok,
                  'the Client of a request is created inside the accept loop' if ok else
                  'the Client is created outside the loop that accepts requests: the administrator flag and the selection of one '
                  'request are inherited by the next request served by this thread', b.loc(a))
    ck.floor('C09.d', n, 1, 'accept loops (HTTP workers)')
    # has_permission: the list it parses comes from a read of the database in the same call
    pb, pspec = m.guard_of_kind('dbname_perm')
    hp = None
    for ub_ in [pb] + [b_ for b_ in P.user_bodies() if b_.parent == pb.id]:
        for bi, t in ub_.calls():
            cb = P.bodies.get(callee(t))
            if cb is not None and cb.locals[0] == 'bool' and any('PermissionKind' in x for x in cb.locals[1:cb.argc + 1]):
                hp = cb
    if hp is not None:
        ok = False
        why = 'no call parsing a permission list found'
        for bi, t in hp.calls():
            if callee(t).endswith('bo::Permission::permissions_from_str'):
                from nl.locks import backward_slice
                calls, params = backward_slice(hp, t['args'][0])
                reads = [c for c in calls if P.bodies.get(callee(hp.term(c))) is not None and
                         any(callee_decl(t2) == 'std::sync::RwLock::read' for _, t2 in P.bodies[callee(hp.term(c))].calls())
                         and 'nundb::bo::Database' in P.bodies[callee(hp.term(c))].locals[1]]
                ok = bool(reads)
                why = 'the permission list is read from the database on every check' if ok else \
                    'the permission list parsed by has_permission does not come from a read of Database.map in this call (cached / stale source)'
        ck.ob('C09.d', short(hp.id), 'permission-list-read-fresh', ok, why, '%s:%s' % (hp.file, hp.line))
        # ... and it is the list of the SESSION's user: the key of every read of the database made by the permission check (closures
        # included) depends on what the session says about its user (a call on the Client), or on a value the check was handed / captured —
        # a key made of constants only is somebody else's list (a fallback to `$$permission_$all` makes the answers to a user session
        # depend on the list of the token sessions)
        from nl.locks import backward_slice as _bs
        foreign = []
        nreads = 0
        for ub in [hp] + [b for b in P.user_bodies() if b.id.startswith(hp.id + '::{closure')]:
            for bi, t in ub.calls():
                cb = P.bodies.get(callee(t))
                if cb is None or is_log(t) or len(cb.locals) < 2 or 'nundb::bo::Database' not in cb.locals[1] or len(t['args']) < 2:
                    continue
                if not any(callee_decl(t2) == 'std::sync::RwLock::read' for _, t2 in cb.calls()):
                    continue
                nreads += 1
                calls_, params_ = _bs(ub, t['args'][1])
                session = [c for c in calls_ if P.bodies.get(callee(ub.term(c))) is not None
                           and any('nundb::bo::Client' in x for x in P.bodies[callee(ub.term(c))].locals[1:2])]
                captured = [p_ for p_ in params_ if not (ub.kind == 'closure' and p_ != 1)] if ub.kind == 'closure' else []
                if not session and not captured:
                    foreign.append(ub.loc(bi))
        ck.ob('C09.d', short(hp.id), 'permission-list-of-the-session-user', not foreign,
              'every list the permission check reads is named after the session\'s user' if not foreign else
              'the permission check reads a list whose key does not depend on the session (%s): the rights of — and the replies to — a user '
              'session follow the permission list of other sessions' % foreign, foreign[0] if foreign else '%s:%s' % (hp.file, hp.line))
        ck.floor('C09.d', nreads, 1, 'reads of the database in the permission check')


def first_block_in(m, ev):
    """block of the dispatcher through which this event was reached"""
    d, sw = m.dispatcher()
    if ev.frame.body.id == d.id and not ev.chain:
        return ev.bi
    if ev.chain and ev.chain[0][0] == d.id:
        # find the block by location string
        loc = ev.chain[0][1]
        for bi in d.reachable():
            t = d.term(bi)
            if t['k'] == 'call' and d.loc(bi) == loc:
                # several calls may share a line; any of them being dominated is required: pick all
                pass
        cands = [bi for bi in d.reachable() if d.term(bi)['k'] == 'call' and d.loc(bi) == loc]
        return cands
    return None


def token_checks(m, d):
    """(call block, true target) of the credential comparisons in the dispatcher: local bool
    functions that read `$$token` / `$$user_…` (found as callees returning bool that read Database.map)"""
    out = []
    for bi, t in d.calls():
        cb = m.prog.bodies.get(callee(t))
        if cb is None or cb.locals[0] != 'bool':
            continue
        reads = any(callee_decl(t2) == 'std::sync::RwLock::read' for _, t2 in cb.calls())
        if not reads:
            continue
        for (sbi, tt, ft) in bool_switches(d, bi):
            out.append((bi, sbi, tt, ft))
    return out


def after_token_check(m, d, bis):
    if isinstance(bis, int):
        bis = [bis]
    tcs = token_checks(m, d)
    for bi in bis:
        if not any(d.dominates(tt, bi) for (_, _, tt, _) in tcs):
            return False
    return bool(bis)


# ------------------------------------------------------------------------------------------
def replies(ck, m):
    ex = m.explorer()
    rb, rsw = m.replication_table()
    d, sw = m.dispatcher()
    G = m.guards()
    emitting = []
    for variant in m.variants():
        if variant not in rsw[1]:
            continue
        region = m.arm_region(rb, rsw, variant)
        if rsw[1][variant] == rsw[2]:
            continue   # falls into the default arm
        effs, raw = m.effects_from(rb, block_filter=region)
        if any(kind == 'send' and 'top5' in ''.join(info['chan']) or (kind == 'send' and 'repl' in info['chan'])
               for ev, kind, info in effs):
            emitting.append(variant)
    ck.floor('C09.a.reply', len(emitting), 12, 'replication-table arms that emit')
    for variant in emitting:
        region = m.arm_region(d, sw, variant)
        if region is None:
            continue
        srcs = reply_sources(m, d, region)
        bad = []
        for kind, what in srcs:
            if kind == 'guard':
                gk = G[what]['kind']
                if variant in ADMIN and gk not in ('admin', 'safe'):
                    bad.append('guard %s is not the admin guard' % short(what))
            elif kind == 'error':
                pass
            else:
                bad.append(what)
        ck.ob('C09.a.reply', 'dispatcher', 'reply:%s' % variant, not bad,
              'arm %s (emits on the replication stream) replies through %s' % (
                  variant, sorted({short(w) if k == 'guard' else w for k, w in srcs})) if not bad else
              'arm %s emits on the replication stream but can reply success without its guard: %s' % (variant, bad),
              d.loc(sw[1][variant]))


def reply_sources(m, d, region):
    """what the arm's return value is built from: ('guard', name) | ('error', '') | ('other', desc)"""
    G = m.guards()
    out = set()
    seen = set()

    def from_local(l):
        if l in seen:
            return
        seen.add(l)
        for (bi, si, kind, pl) in d.defs().get(l, []):
            if bi not in region:
                continue
            if kind == 'call':
                n = callee(pl)
                if n in G:
                    out.add(('guard', n))
                else:
                    out.add(('other', 'result of %s' % short(n)))
            else:
                rv = pl
                if rv['k'] == 'use':
                    o = rv['o']
                    p = o.get('c') or o.get('m')
                    if p is None:
                        out.add(('other', 'constant'))
                    else:
                        from_local(p['l'])
                elif rv['k'] == 'agg' and rv.get('adt', '').endswith('bo::Response'):
                    if rv['variant'] in ('Error', 'VersionError'):
                        out.add(('error', ''))
                    else:
                        g = success_of_guard(m, d, region, bi)
                        if g:
                            for x in g:
                                out.add(('guard', x))
                        else:
                            out.add(('other', 'locally built Response::%s at %s' % (rv['variant'], d.loc(bi))))
                else:
                    out.add(('other', rv['k']))
    from_local(0)
    return out


def success_of_guard(m, d, region, bi):
    """a success Response built at block bi is acceptable when bi lies on a non-Error arm of a
    switch over the discriminant of a value that comes only from guard calls
    (`match guard(..) { Error{..} => .., _ => Ok }`): returns those guards, else None"""
    G = m.guards()
    resp = m.prog.adts.get('nundb::bo::Response')
    err_discr = {str(v['discr']) for v in resp['variants'] if v['name'] in ('Error',)} if resp else set()
    for sbi in region:
        t = d.term(sbi)
        if t['k'] != 'switch':
            continue
        for r in origins(d, t['o']):
            if r[0] != 'discr':
                continue
            rv = d.blocks[r[1]]['s'][r[2]]['r']
            if not rv['adt'].endswith('bo::Response'):
                continue
            # where does the switched value come from?
            srcs = set()
            okv = True
            for r2 in core.place_origins(d, rv['p'], stop_at_calls=True):
                if r2[0] == 'call' and callee(d.term(r2[1])) in G:
                    srcs.add(callee(d.term(r2[1])))
                else:
                    okv = False
            if not okv or not srcs:
                continue
            err_targets = {tb for v, tb in t['targets'] if str(v) in err_discr}
            non_err = {tb for v, tb in t['targets'] if str(v) not in err_discr} | ({t['else']} - err_targets)
            if not err_targets:
                continue
            # judged by reachability: a match guard on the Error arm (`Error { msg } if msg == .. =>`) falls through into the `_` arm,
            # so the success block is still dominated by nothing on the error side, yet an Error answer reaches it
            if any(d.dominates(x, bi) for x in non_err) and not any(d.dominates(x, bi) for x in err_targets) \
                    and not any(bi in d.reach_from([x], include_start=True) for x in err_targets):
                return srcs
    return None


# ------------------------------------------------------------------------------------------
def fn_call_blocks(b):
    return [bi for bi, t in b.calls() if callee_decl(t) in ('std::ops::Fn::call', 'std::ops::FnMut::call_mut', 'std::ops::FnOnce::call_once')]


def predicates(ck, m):
    G = m.guards()
    # admin guard
    gb, spec = m.guard_of_kind('admin')
    fn = short(gb.id)
    inv = fn_call_blocks(gb)
    loads = []
    for bi, t in gb.calls():
        if core.is_atomic_load(t):
            if any(r[0] == 'param' and r[1] == spec['auth_param'] for r in origins(gb, t['args'][0])):
                loads.append(bi)
    cut = set()
    for bi in loads:
        for (sbi, tt, ft) in bool_switches(gb, bi):
            cut.add((sbi, tt))
    reach = reachable_without(gb, cut)
    ok = bool(inv) and bool(cut) and not [bi for bi in inv if bi in reach]
    ck.ob('C09.b', fn, 'invokes-only-if-flag', ok,
          'closure invoked only on the branch where the administrator flag loaded true' if ok else
          'closure reachable without the administrator flag being true', '%s:%s' % (gb.file, gb.line))
    # refusal is an Error
    errs = [pl for (bi, si, k, pl) in gb.defs().get(0, []) if k == 'assign' and pl['k'] == 'agg' and pl.get('variant') == 'Error']
    ck.ob('C09.b', fn, 'refusal-is-error', bool(errs), 'refusal returns Response::Error', '%s:%s' % (gb.file, gb.line))

    # permission guard
    pb, pspec = m.guard_of_kind('dbname_perm')
    fn = short(pb.id)
    inv = fn_call_blocks(pb)
    cut = set()
    perm_calls = []
    closure_perm = {}     # block of an Option::map_or(true, |key| has_permission(..)) -> (closure body, block of the check in it)
    for bi, t in pb.calls():
        cb = m.prog.bodies.get(callee(t))
        if cb is not None and cb.locals[0] == 'bool' and any('PermissionKind' in x for x in cb.locals[1:cb.argc + 1]):
            perm_calls.append(bi)
            for (sbi, tt, ft) in bool_switches(pb, bi):
                cut.add((sbi, tt))
        # `key.map_or(true, |key| has_permission(..))` / `key.is_none_or(|key| ..)`: no key -> true, otherwise the check decides
        dcl_ = callee_decl(t)
        if dcl_ in ('std::option::Option::map_or', 'std::option::Option::is_none_or') and t['args']:
            keyed_ = any(r[0] == 'param' and r[1] == pspec['key_param'] for r in origins(pb, t['args'][0]))
            dflt_ok = dcl_.endswith('is_none_or') or any(r[0] == 'const' and core.const_val(r) is True for r in origins(pb, t['args'][1]))
            for a in t['args'][1:]:
                for r in origins(pb, a):
                    if r[0] == 'closure' and keyed_ and dflt_ok:
                        clb = m.prog.bodies.get(r[1])
                        for cbi, ct in (clb.calls() if clb is not None else []):
                            hb_ = m.prog.bodies.get(callee(ct))
                            if hb_ is not None and hb_.locals[0] == 'bool' and any('PermissionKind' in x for x in hb_.locals[1:hb_.argc + 1]) \
                                    and any(r2[0] == 'call' and r2[1] == cbi for r2 in core.place_origins(clb, {'l': 0}, stop_at_calls=True)):
                                perm_calls.append(bi)
                                closure_perm[bi] = (clb, cbi)
                                for (sbi, tt, ft) in bool_switches(pb, bi):
                                    cut.add((sbi, tt))
        if callee_decl(t) == 'std::cmp::PartialEq::eq':
            # key == None
            roots = [r for a in t['args'] for r in origins(pb, a)]
            keyed = any(r[0] == 'param' and r[1] == pspec['key_param'] for r in roots)
            none = any(r[0] == 'agg' and pb.blocks[r[1]]['s'][r[2]]['r'].get('variant') == 'None' for r in roots) or \
                any(r[0] == 'const' for r in roots)
            if keyed and none:
                for (sbi, tt, ft) in bool_switches(pb, bi):
                    cut.add((sbi, tt))
    reach = reachable_without(pb, cut)
    ok = bool(inv) and bool(perm_calls) and not [bi for bi in inv if bi in reach]
    ck.ob('C09.b', fn, 'invokes-only-if-permitted', ok,
          'closure invoked only if no key is given or the permission check answered true' if ok else
          'closure reachable although a key was given and the permission check did not answer true',
          '%s:%s' % (pb.file, pb.line))
    # database must exist: invocation dominated by the Some arm of the HashMap<String,Database>::get
    dom_ok = False
    for bi, t in pb.calls():
        if t['f'].get('dargs', '').startswith('std::collections::HashMap::<std::string::String, nundb::bo::Database>::get'):
            for (sbi, tm, els, adt) in enum_switches(pb, bi):
                some = tm.get('1', els)
                if inv and all(pb.dominates(some, x) for x in inv):
                    dom_ok = True
    ck.ob('C09.b', fn, 'database-must-exist', dom_ok,
          'closure invoked only for a database found in Databases.map', '%s:%s' % (pb.file, pb.line))
    # the permission kind it checks is the one it was given
    passes = False
    for bi in perm_calls:
        t = pb.term(bi)
        for a in t['args']:
            if any(r[0] == 'param' and r[1] == pspec['perm_param'] for r in origins(pb, a)):
                passes = True
        if bi in closure_perm:
            clb, cbi = closure_perm[bi]
            site = m.prog.closure_sites().get(clb.id)
            for a in clb.term(cbi)['args']:
                for r in origins(clb, a):
                    if r[0] == 'capture' and site is not None and r[1] < len(site[3]) and \
                            any(r2[0] == 'param' and r2[1] == pspec['perm_param'] for r2 in origins(site[0], site[3][r[1]])):
                        passes = True
    ck.ob('C09.b', fn, 'checks-requested-kind', passes, 'the permission check receives the PermissionKind handed to the guard',
          '%s:%s' % (pb.file, pb.line))

    # database guard: hands on only with a selected database
    for kind in ('db', 'safe'):
        gb, spec = m.guard_of_kind(kind)
        fn = short(gb.id)
        ok = guard_needs_selection(m, kind)
        ck.ob('C09.b', fn, 'needs-selected-database', ok,
              'the closure is handed on only when the session has a selected database' if ok else
              'inner guard reachable without a selected database', '%s:%s' % (gb.file, gb.line))
        # the name handed on is the selected one
    # dbname guard hands everything on unchanged (perm and closure)
    gb, spec = m.guard_of_kind('dbname')
    inner = [(bi, t) for bi, t in gb.calls() if callee(t) in G]
    ok = len(inner) == 1 and all(
        any(r[0] == 'param' for r in origins(gb, a)) or any(r[0] == 'agg' for r in origins(gb, a))
        for a in inner[0][1]['args'])
    ck.ob('C09.b', short(gb.id), 'delegates', ok, 'delegates to the permission guard with its own arguments',
          '%s:%s' % (gb.file, gb.line))
    has_permission(ck, m, pb, perm_calls, closure_perm)


def has_permission(ck, m, pb, perm_calls, closure_perm=None):
    if not perm_calls:
        return
    if closure_perm and perm_calls[0] in closure_perm:
        clb_, cbi_ = closure_perm[perm_calls[0]]
        hp = m.prog.bodies[callee(clb_.term(cbi_))]
    else:
        hp = m.prog.bodies[callee(pb.term(perm_calls[0]))]
    fn = short(hp.id)
    # closures of has_permission (transitively)
    cls = [b for b in m.prog.user_bodies() if b.id.startswith(hp.id + '::{closure')]
    kind_ok = False
    pat_ok = False
    for cb in cls:
        for bi, t in cb.calls():
            d = callee_decl(t)
            if d in ('std::slice::contains', 'std::vec::Vec::contains'):
                # false edge must return false without reaching the pattern test
                anyc = [b2 for b2, t2 in cb.calls() if callee_decl(t2) == 'std::iter::Iterator::any']
                cut = set()
                for (sbi, tt, ft) in bool_switches(cb, bi):
                    cut.add((sbi, tt))
                reach = reachable_without(cb, cut)
                if cut and anyc and not [x for x in anyc if x in reach]:
                    kind_ok = True
            if t['f'].get('ind') and cb.locals[0] == 'bool':
                pat_ok = True
    ck.ob('C09.b', fn, 'kind-required', kind_ok,
          'a permission entry that does not list the required kind answers false before any pattern is tried' if kind_ok
          else 'pattern test reachable although the kind is not listed', '%s:%s' % (hp.file, hp.line))
    ck.ob('C09.b', fn, 'pattern-required', pat_ok,
          'the answer depends on a pattern function applied to the key', '%s:%s' % (hp.file, hp.line))


# ------------------------------------------------------------------------------------------
def writers(ck, m):
    """sweep every body for writes of the selection and of the administrator flag"""
    d, sw = m.dispatcher()
    ex = m.explorer()
    fx = m.fx()
    use_region = m.arm_region(d, sw, 'UseDb') or set()
    auth_region = m.arm_region(d, sw, 'Auth') or set()
    tcs = token_checks(m, d)
    n_sel = n_auth = 0
    for b in m.prog.user_bodies():
        # selection: a write acquisition of SelectedDatabase.*
        for bi, t in b.calls():
            dcl = callee_decl(t)
            if dcl == 'std::sync::RwLock::write':
                ids = set()
                for r in origins(b, t['args'][0]):
                    lf = [s for s in r[-1] if s[0] == 'f']
                    if lf and lf[-1][3].endswith('bo::SelectedDatabase'):
                        ids.add(lf[-1][2])
                if ids:
                    n_sel += 1
                    ok = b.id == d.id and bi in use_region
                    ck.ob('C09.c', short(b.id), 'selection-write-lock:%s' % ','.join(sorted(ids)), ok,
                          'write access to the session selection only in the UseDb arm' if ok else
                          'write lock on the session selection outside the UseDb arm', b.loc(bi))
            if dcl.startswith('std::sync::atomic::Atomic') and dcl.split('::')[-1] in ('store', 'swap', 'fetch_or', 'compare_exchange'):
                isauth = False
                local_client = False
                for r in origins(b, t['args'][0]):
                    lf = [s for s in r[-1] if s[0] == 'f']
                    if lf and lf[-1][2] == 'auth' and lf[-1][3].endswith('bo::Client'):
                        isauth = True
                        if r[0] == 'call':
                            cal = callee(b.term(r[1]))
                            if 'bo::Client::new_empty' in cal:
                                local_client = True
                if not isauth:
                    continue
                n_auth += 1
                vals = [core.const_val(r) for r in origins(b, t['args'][1])] if len(t['args']) > 1 else []
                if vals == [False]:
                    ck.ob('C09.c', short(b.id), 'auth-clear', True, 'clears the administrator flag', b.loc(bi))
                    continue
                if b.id == d.id and bi in auth_region:
                    # dominated by the true edges of two equality tests against Databases.user / .pwd
                    eqs = []
                    for ebi, et in d.calls():
                        if ebi in auth_region and callee_decl(et) == 'std::cmp::PartialEq::eq':
                            flds = set()
                            for a in et['args']:
                                for r in origins(d, a):
                                    for s in r[-1]:
                                        if s[0] == 'f' and s[3].endswith('bo::Databases'):
                                            flds.add(s[2])
                            for (sbi, tt, ft) in bool_switches(d, ebi):
                                if d.dominates(tt, bi):
                                    eqs.append(tuple(sorted(flds)))
                    got = {f for e in eqs for f in e}
                    ok = {'user', 'pwd'} <= got
                    ck.ob('C09.c', 'dispatcher', 'auth-store:Auth', ok,
                          'administrator flag set only after user and password both compared equal' if ok else
                          'administrator flag store not dominated by both credential comparisons (found %s)' % sorted(got),
                          b.loc(bi))
                else:
                    ck.ob('C09.c', short(b.id), 'auth-store', local_client,
                          'sets the flag on a client it created itself (node-to-node link)' if local_client else
                          'sets the administrator flag of a client it did not create, without a credential comparison',
                          b.loc(bi))
    ck.floor('C09.c', n_sel, 3, 'selection write-lock sites')
    ck.floor('C09.c', n_auth, 3, 'administrator flag stores')
    # the selection is replaced only after the matching token check answered true
    effs, raw = m.arm_effects('UseDb')
    n = 0
    for ev, kind, info in effs:
        if kind in ('guarded-replace', 'store') and {l for l, _ in info.get('locks', ())} & {'SelectedDatabase.name', 'SelectedDatabase.user_name'}:
            n += 1
            ok = ev.frame.body.id == d.id and any(d.dominates(tt, ev.bi) for (_, _, tt, _) in tcs)
            ck.ob('C09.c', 'dispatcher', 'selection-after-validation:%s' % ','.join(sorted(l for l, _ in info['locks'])), ok,
                  'selection replaced only on the branch where the token check answered true' if ok else
                  'selection replaced on a path where no token check answered true', ev.loc())
    ck.floor('C09.c', n, 3, 'selection replacements in the UseDb arm')



def framing_rule(ck, m, rule='C09.e'):
    """arguments are cleaned of line breaks before they can be copied into a replicated message"""
    from props import C10
    P = m.prog
    parsers, words = C10.parser_table(m)

    def removes_breaks(b, t):
        return callee_decl(t) == 'std::str::replace' and len(t['args']) > 1 and any(core.const_str(q) == '\n' for q in origins(b, t['args'][1]))

    # central cleaning: in Request::parse the iterator handed to the table function is built (splitn / split) from text that
    # passed the cleaning call
    central = False
    pf = [b for b in P.user_bodies() if b.id.endswith('<impl nundb::bo::Request>::parse')]
    from nl.locks import backward_slice
    for b in pf:
        splits = [bi for bi, t in b.calls() if callee_decl(t) in ('std::str::splitn', 'std::str::split', 'std::str::split_whitespace')
                  and any(removes_breaks(b, b.term(c)) for c in backward_slice(b, t['args'][0])[0])]
        for x, tx in b.calls():
            if not (tx['f'].get('ind') or callee_decl(tx).split('::')[-1] in ('call', 'call_once', 'call_mut')):
                continue
            fed = set()
            for a_ in tx['args']:
                fed |= backward_slice(b, a_)[0]
            if fed & set(splits):
                central = True
    ck.ob(rule, 'Request::parse', 'arguments-cleaned-centrally', True,
          'Request::parse removes line breaks from the arguments before it dispatches to the parser table' if central else
          'Request::parse hands the raw text to the parsers: each String field is judged at its parser', pf[0].loc(0) if pf else '')
    if central:
        ck.floor(rule, len(set(parsers)), 35, 'parsers covered by the central cleaning')
        return

    def cleaned(b, op, depth=0):
        res = True
        rs = origins(b, op, stop_at_calls=True)
        if not rs:
            return False
        for r in rs:
            if r[0] == 'const':
                continue
            if r[0] == 'call':
                t = b.term(r[1])
                d = callee_decl(t)
                if removes_breaks(b, t):
                    continue
                if (d in core.LOOK_THROUGH or d in ('std::option::Option::unwrap_or', 'std::string::String::from', 'std::str::trim',
                                                    'std::str::to_lowercase', 'std::str::to_uppercase')) and t['args'] and depth < 6:
                    if cleaned(b, t['args'][0], depth + 1):
                        continue
                return False
            else:
                return False
        return res
    n = 0
    for fn in sorted(set(parsers)):
        b = P.bodies[fn]
        scope = [b] + [P.bodies[k] for k in P.bodies if k.startswith(fn + '::{closure')]
        for sb in scope:
            for bl in sb.blocks:
                for s in bl['s']:
                    if s['k'] == 'assign' and s['r']['k'] == 'agg' and s['r'].get('adt') == 'nundb::bo::Request':
                        rv = s['r']
                        var = [v for v in P.adts['nundb::bo::Request']['variants'] if v['name'] == rv['variant']][0]
                        for f, op in zip(var['fields'], rv['ops']):
                            if f['ty'] != 'std::string::String':
                                continue
                            n += 1
                            ok = cleaned(sb, op)
                            ck.ob(rule, short(fn), '%s.%s:no-line-break' % (rv['variant'], f['name']), ok,
                                  'line breaks are removed from %s.%s' % (rv['variant'], f['name']) if ok else
                                  '%s.%s keeps a line break sent over http / ws: copied into a replicated message it ends the line on the '
                                  'node link, and the rest (`set k\\nset-primary x` -> `set-primary -1 x`) is executed by the other nodes '
                                  'as a command of the administrator connection' % (rv['variant'], f['name']), '%s:%s' % (sb.file, sb.line))
    ck.floor(rule, n, 40, 'String fields of Request built by the parsers')



def permission_parser_rule(ck, m):
    from nl.locks import backward_slice
    P = m.prog
    n = 0
    for b in P.user_bodies():
        if b.kind not in ('fn', 'method') or b.locals[0] != 'nundb::bo::Permission' or b.argc != 1 or not core.is_str_ty(b.locals[1]):
            continue
        for bl in b.blocks:
            for s in bl['s']:
                if s['k'] == 'assign' and s['r']['k'] == 'agg' and s['r'].get('adt', '').endswith('bo::Permission') and 'keys' in s['r'].get('fields', []):
                    n += 1
                    op = s['r']['ops'][s['r']['fields'].index('keys')]
                    # `vec![lit]` is built through a raw box write, which no def-use chain shows: every string literal of the
                    # parser (log lines aside) other than the separators is treated as a possible injected pattern
                    lits = set()
                    for c, tc in b.calls():
                        if is_log(tc):
                            continue
                        for a_ in tc['args']:
                            for r in origins(b, a_):
                                s_ = core.const_str(r)
                                if isinstance(s_, str) and s_.strip(' ,|') != '':
                                    lits.add(s_)
                    ck.ob('C09.f', short(b.id), 'patterns-from-the-statement-only', not lits,
                          'the pattern list of a permission is built from the statement text only' if not lits else
                          'the permission parser injects the literal pattern(s) %s: a statement without patterns — which is also what a removed '
                          'permission list (tombstone text) parses to — grants access to every key' % sorted(lits), '%s:%s' % (b.file, b.line))
    ck.floor('C09.f', n, 1, 'permission statement parsers')



def refusal_reply_rule(ck, m):
    """C09.h — see RULES"""
    P = m.prog
    n = 0
    from props.C02 import resolver_fn
    rid = resolver_fn(m).id
    for b in P.user_bodies():
        if b.id.startswith(('nundb::client::', 'nundb::command_line::')):
            continue
        if b.id == rid or b.id.startswith(rid + '::'):
            continue        # the resolver hands the conflict (both values) to the arbiter and into the conflict record by design (C13.a)
        # switches over a Response value with a VersionError arm of its own
        arms = []
        for bi in b.reachable():
            t_ = b.term(bi)
            if t_['k'] != 'switch':
                continue
            o = t_['o']
            pl = o.get('c') or o.get('m')
            if not pl or pl.get('p'):
                continue
            for (dbi, dsi, kind, rv) in b.defs().get(pl['l'], []):
                if kind == 'assign' and rv['k'] == 'discr' and rv.get('adt', '').endswith('bo::Response'):
                    a = P.adts.get(rv['adt']) or {}
                    for v in a.get('variants', []):
                        if v['name'] == 'VersionError':
                            tg = [tb for val, tb in t_['targets'] if str(val) == str(v['discr'])]
                            if tg and tg[0] != t_['else']:
                                arms.append((bi, tg[0]))
        for sbi, tgt in arms:
            others = [x for x in b.succ(sbi) if x != tgt]
            region = {x for x in b.reach_from([tgt], include_start=True) if b.dominates(tgt, x) and not any(b.dominates(o_, x) for o_ in others)}
            n += 1
            leaks = []
            for bi, f in core.string_builders(b):
                if bi not in region:
                    continue
                # logging is not a reply
                for pc in f.pieces:
                    if pc[0] != 'arg' or pc[1] is None:
                        continue
                    for r in origins(b, pc[1]):
                        flds = [q[2] for q in (r[-1] or ()) if q and q[0] == 'f']
                        names = [q for q in flds if q in ('old_value', 'change')]
                        if names:
                            leaks.append((names[0], b.loc(bi), bi))
            # keep only templates that are sent or returned, not logged
            real = []
            for nm, loc, bi in leaks:
                users = [x for x, t2 in b.calls() if any(r_[0] == 'call' and r_[1] == bi for a in t2['args'] for r_ in origins(b, a, stop_at_calls=True))]
                if not users or not all(is_log(b.term(x)) for x in users):
                    real.append((nm, loc))
            ck.ob('C09.h', short(b.id), 'version-error-arm-keeps-the-entry-private', not real,
                  'the VersionError arm builds its reply without the stored entry' if not real else
                  'the VersionError arm puts %s into a text it builds (%s): the reply to a refused set-safe carries the stored value; set / set-safe '
                  'need only `w`, so a user whose list grants no `r` on the key reads it by sending a set-safe with an old version'
                  % (sorted({x[0] for x in real}), sorted({x[1] for x in real})), real[0][1] if real else b.loc(tgt))
    ck.floor('C09.h', n, 3, 'places that take a Response::VersionError apart')



def guards_refuse_with_an_error(ck, m):
    """C09.i — see RULES"""
    P = m.prog
    G = m.guards()
    n = 0
    for gid in sorted(G):
        gb = P.bodies.get(gid)
        if gb is None:
            continue
        n += 1
        others = sorted({(s['r'].get('variant'), gb.loc(bi)) for bi, bl in enumerate(gb.blocks) if not bl.get('cleanup') for s in bl['s']
                         if s['k'] == 'assign' and s['r']['k'] == 'agg' and s['r'].get('adt', '').endswith('bo::Response') and s['r'].get('variant') != 'Error'})
        ck.ob('C09.i', short(gid), 'guard-refuses-with-an-error', not others,
              'the guard builds no Response other than Error' if not others else
              'the guard %s builds a %s itself (%s): a request it does not let through is answered as a success — the replication table, which '
              'looks at the kind of the Response only, hands the refused set / remove / increment to the other nodes, where it is executed on '
              'an administrator link' % (short(gid), others[0][0], [x[1] for x in others]), others[0][1] if others else '')
    ck.floor('C09.i', n, 5, 'guard functions')


def guard_needs_selection(m, kind):
    """the database guard of `kind` ('db' | 'safe') hands the closure on only on the Some edge of Client::selected_db_name()"""
    G = m.guards()
    gb, spec = m.guard_of_kind(kind)
    inner = [bi for bi, t in gb.calls() if callee(t) in G]
    sel = [bi for bi, t in gb.calls() if callee(t).endswith('bo::Client::selected_db_name')]
    for bi in sel:
        for (sbi, tm, els, adt) in enum_switches(gb, bi):
            some = tm.get('1', els)
            if inner and all(gb.dominates(some, x) for x in inner):
                return True
    return False


def matcher_chosen_per_pattern(ck, m):
    """C09.l — see RULES"""
    from props.C07 import natural_loops
    P = m.prog
    ck.rule('C09.l', 'each pattern of a permission statement is matched by the matcher of ITS shape: the function a pattern is matched with is the '
                     'result of the selector called for that pattern — in the same closure / loop iteration as the match — never a matcher chosen once '
                     'for the statement: `r *-public,team*` would match `team*` as a suffix and grant `payroll-team`')
    fam = [b for b in P.user_bodies() if b.id.startswith('nundb::security::has_permission')]
    n, bad = 0, []
    for b in fam:
        loops = natural_loops(b)
        for bi, t in b.calls():
            if not t['f'].get('ind') or len(t['args']) < 2:
                continue
            op = t['f'].get('op')
            if op is None:
                continue
            n += 1
            sel = [r for r in origins(b, op, stop_at_calls=True)]
            sel_calls = [r[1] for r in sel if r[0] == 'call' and callee(b.term(r[1])).endswith('get_function_by_pattern')]
            if not sel_calls or any(r[0] in ('capture', 'param') for r in sel):
                bad.append('the matcher called at %s was not selected in the same closure (it comes from %s)' % (b.loc(bi), sorted({r[0] for r in sel})))
                continue
            inner = [body for h, body in loops if bi in body]
            inner = min(inner, key=len) if inner else None
            if inner is not None and not all(c in inner for c in sel_calls):
                bad.append('the matcher called at %s was selected outside the loop over the patterns (%s)' % (b.loc(bi), [b.loc(c) for c in sel_calls]))
    ck.ob('C09.l', 'has_permission', 'matcher-chosen-per-pattern', n > 0 and not bad,
          'every pattern is matched by the matcher selected for it' if n > 0 and not bad else '; '.join(sorted(set(bad))[:3]) or 'no matcher call found',
          '%s:%s' % (fam[0].file, fam[0].line) if fam else '')
    ck.floor('C09.l', n, 1, 'matcher calls in the permission check')
