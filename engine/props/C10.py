"""C10 — no client input can crash a handler or wedge the node.

Decides: (a) a census of every may-panic site reachable from the threads that consume client
bytes (TCP session, HTTP worker, WebSocket callbacks) and from the service threads they feed
(replication loop, supervisor, snapshot timer): each site is discharged by a class rule, by a
reviewed entry with a checked side condition, or is a violation; (b) no may-panic site inside a
critical section of a shared lock; (c) the lock-order graph is acyclic; (d) the parser and its
table are panic-free and a parse error becomes Response::Error.
Does NOT decide resource exhaustion, I/O failures of the host, or the third-party servers.
"""
import json
from nl import core, locks, panics
from nl.core import origins, callee, callee_decl, is_log, const_val, bool_switches, enum_switches
from nl.model import short

RULES = {
    'C10.a': 'every may-panic site reachable from a client-facing or service thread is discharged by a class '
             'rule or a reviewed entry whose side condition holds',
    'C10.b': 'no may-panic site (direct or through callees) inside a critical section of a lock shared between sessions',
    'C10.c': 'the lock-order graph over locks shared between threads has no cycle and no singleton lock is '
             're-acquired while held',
    'C10.d': 'no may-panic site in any function registered in the parser table; the dispatcher entry turns a '
             'parse error into Response::Error',
    'C10.e': 'no input-controlled recursion: a dispatcher arm that re-enters the request entry with text taken from the request '
             'first refuses text that starts with a command word whose own arm re-enters (a wrapper wraps exactly one command), '
             'so the depth of the handler stack does not depend on what a client sends',
    'C10.f': 'no unbounded recursion in node code: every cycle of the call graph (closures included) is either the request re-entry '
             '(bounded by C10.e), or a counted self-recursion (the recursive call passes `n - c` for an integer parameter n, under n > 0), '
             'anything else can be driven to stack exhaustion — which aborts the whole process — by the input that controls its depth',
}

NOT_THE_NODE = ('nundb::client::', 'nundb::command_line::', '<nundb::client::')   # client library and CLI tool


def node_body(b):
    return not b.id.startswith(NOT_THE_NODE)


SESSION_CONFINED = ('Client.', 'SelectedDatabase.', 'Server.')   # owned by one transport thread (&mut Client)

IO_PRODUCERS = {'open', 'metadata', 'created', 'write', 'flush', 'read', 'seek', 'create_dir_all', 'remove_file',
                'rename', 'duration_since', 'write_at', 'read_dir', 'file_name', 'into_string', 'stream_position',
                'write_all', 'len', 'serialize_into', 'deserialize_from', 'create', 'sync_all', 'from_utf8',
                'to_str', 'read_to_string', 'read_exact', 'modified', 'bind', 'http', 'build', 'listen', 'new',
                'recv', 'join', 'set_nonblocking'}


def entries(m):
    P = m.prog
    client, service = [], []
    for b in P.user_bodies():
        i = b.id
        if b.kind not in ('fn', 'method'):
            continue
        # threads that read client bytes: they call the request entry with a &mut Client they own
        # (found as callers of process_request that are not the dispatcher itself)
    d = m.dispatcher()[0]
    pr = m.reentry_names()          # process_request
    for name in pr:
        for (b, bi) in P.callers().get(name, []):
            if b.id == d.id:
                continue
            root = b
            # climb closures to the function that owns them
            client.append(root.id)
    # the thread body a client entry runs in: closures (worker loops handed to thread::spawn) that call an entry — what they do with the
    # client's bytes before and after the entry (reading the body, decoding a query string, building the reply) runs on the same thread
    grew = True
    while grew:
        grew = False
        for name in list(client):
            for (b, bi) in P.callers().get(name, []):
                if b.kind == 'closure' and b.id not in client and b.id != d.id:
                    client.append(b.id)
                    grew = True
    # transport callbacks that do not call process_request themselves but run on the same thread
    for b in P.user_bodies():
        if '::Handler>::on_' in b.id and '{closure' not in b.id and b.argc >= 1:
            selfty = b.locals[1].replace('&mut ', '').replace('&', '')
            adt = P.adts.get(selfty)
            if adt and any('bo::Databases' in f['ty'] for v in adt['variants'] for f in v['fields']):
                client.append(b.id)
    # service threads: bodies that receive from the replication / supervisor channels, the timer job
    for b in P.user_bodies():
        if b.kind == 'coroutine' and any('Receiver<std::string::String>' in t for t in b.locals[:12]) \
                and 'replication_ops::start_replication_' in b.id and b.id.count('{closure') == 1:
            service.append(b.id)
    for b in P.user_bodies():
        if b.id.endswith('disk_ops::declutter'):
            service.append(b.id)
    return sorted(set(client)), sorted(set(service))


def parser_table(m):
    P = m.prog
    parsers = set()
    tbl = [b for b in P.user_bodies() if 'PARSER_HASH_TABLE' in b.id and '__static_ref_initialize' in b.id and '{closure' not in b.id]
    words = {}
    for b in tbl:
        for bi, t in b.calls():
            if callee_decl(t) != 'std::collections::HashMap::insert':
                continue
            w = None
            for r in origins(b, t['args'][1]):
                s = core.const_str(r)
                if s is not None:
                    w = s
            for r in origins(b, t['args'][2]):
                c = core.const_of(r)
                if c and c.get('fn'):
                    parsers.add(c['fn'])
                    words[w] = c['fn']
                if c and c.get('closure'):
                    parsers.add(c['closure'])
                    words[w] = c['closure']
                if r[0] == 'closure':
                    parsers.add(r[1])
                    words[w] = r[1]
    return parsers, words


def const_assert(body, bi):
    """an Assert whose arithmetic operands are all constants cannot fail at run time (rustc
    rejects a constant overflow at compile time)"""
    t = body.term(bi)
    if t['msg'] in ('Misaligned', 'NullPtr', 'InvalidEnum'):
        return 'ub-check'
    for r in origins(body, t['c']):
        if r[0] != 'arith':
            return None
        rv = body.blocks[r[1]]['s'][r[2]]['r']
        ops = [rv.get('a'), rv.get('b')]
        vals = []
        for o in ops:
            if o is None:
                continue
            rs = origins(body, o)
            if not rs or not all(x[0] == 'const' for x in rs):
                vals = None
                break
            vals.append([const_val(x) for x in rs])
        if vals is None:
            return None
    return 'constant-operands'


def arith_class(body, bi):
    """class of a run-time arithmetic Assert that is not constant:
    'counter'      x + small constant on an unsigned >= 32-bit or any 64/128-bit integer (needs > 2^31 steps)
    'unsigned'     other arithmetic on u32/u64/usize/u128 (sizes, offsets, ids): NOT DECIDED here
    'narrow'       arithmetic on i8..i32 / u8 / u16 — reachable with client-chosen numbers"""
    t = body.term(bi)
    for r in origins(body, t['c']):
        if r[0] != 'arith':
            return 'narrow'
        st = body.blocks[r[1]]['s'][r[2]]
        ty = body.locals[st['l']['l']]
        rv = st['r']
        wide = any(w in ty for w in ('(usize, bool)', '(u64, bool)', '(u128, bool)', '(i64, bool)', '(i128, bool)', '(isize, bool)'))
        unsigned = any(w in ty for w in ('(usize, bool)', '(u64, bool)', '(u128, bool)', '(u32, bool)'))
        consts = []
        for k in ('a', 'b'):
            if k in rv:
                rs = origins(body, rv[k])
                if rs and all(x[0] == 'const' for x in rs):
                    try:
                        consts.append(max(abs(int(const_val(x))) for x in rs))
                    except (TypeError, ValueError):
                        pass
        if t['msg'].startswith('Overflow(Add)') and consts and max(consts) <= 1024 and (wide or unsigned):
            return 'counter'
        if unsigned or wide:
            return 'unsigned'
        return 'narrow'
    return 'narrow'


def classify(m, L, s, reply_needs_db):
    """-> (verdict, reason): verdict in ok | finding"""
    b = s.body
    if s.cls == 'assert':
        c = const_assert(b, s.bi)
        if c:
            return 'ok', 'class %s: cannot fail at run time' % c
        c = arith_class(b, s.bi)
        if c == 'counter':
            return 'ok', 'class counter: +const on a >=32-bit unsigned / 64-bit integer needs more than 2^31 steps'
        if c == 'unsigned':
            return 'skip', 'unsigned size/offset arithmetic: not decided by C10 (see C06/C12 "not decided")'
        return 'finding', 'run-time arithmetic check on a narrow integer'
    if s.cls == 'lock-result':
        return 'lock', s.detail
    prod = s.detail.split('#')[0]
    if s.what in ('Result::unwrap', 'Result::expect'):
        prods = set(prod.split('+'))
        # socket writes are peer-controlled, file/system calls are host-controlled
        recv_ty = s.term['f'].get('dargs', '')
        io_err = ', std::io::Error>::' in recv_ty or 'std::time::SystemTimeError>::' in recv_ty
        if (prods <= IO_PRODUCERS or io_err) and not is_socket(b, s):
            return 'ok', 'class host-io: fails only on a host I/O / clock error, not on client bytes'
    if s.what == 'index' and index_guarded_by_len(b, s):
        return 'ok', 'class guarded-slice: the slice start is a constant and the index is dominated by a length test that makes it valid'
    return 'finding', ''


def index_guarded_by_len(b, s):
    """`x[K..]` (K constant) dominated by the edge of a comparison of x.len() with a constant that implies len >= K"""
    t = s.term
    if 'RangeFrom<' not in t['f'].get('dargs', '') or len(t['args']) < 2:
        return False
    start = None
    for r in origins(b, t['args'][1]):
        if r[0] == 'agg':
            rv = b.blocks[r[1]]['s'][r[2]]['r']
            vals = [const_val(x) for op in rv['ops'] for x in origins(b, op) if x[0] == 'const']
            if len(vals) == 1 and isinstance(vals[0], int):
                start = vals[0]
    if start is None:
        return False
    recv_roots = {(r[0], r[1] if len(r) > 1 else None) for r in origins(b, t['args'][0])}
    for bl_i, bl in enumerate(b.blocks):
        for st in bl['s']:
            if st['k'] != 'assign' or st['r']['k'] != 'bin' or st['r']['op'] not in ('Le', 'Lt', 'Ge', 'Gt'):
                continue
            op = st['r']['op']
            sides = []
            for k_ in ('a', 'b'):
                o = st['r'][k_]
                cv = [const_val(x) for x in origins(b, o) if x[0] == 'const']
                is_len = False
                for x in origins(b, o, stop_at_calls=True):
                    if x[0] == 'call' and callee_decl(b.term(x[1])).split('::')[-1] == 'len':
                        lr = {(q[0], q[1] if len(q) > 1 else None) for q in origins(b, b.term(x[1])['args'][0])}
                        if lr & recv_roots:
                            is_len = True
                sides.append(('len' if is_len else ('const', cv[0]) if len(cv) == 1 and isinstance(cv[0], int) else None))
            if sides[0] == 'len' and isinstance(sides[1], tuple):
                c = sides[1][1]
            elif sides[1] == 'len' and isinstance(sides[0], tuple):
                c = sides[0][1]
                op = {'Le': 'Ge', 'Lt': 'Gt', 'Ge': 'Le', 'Gt': 'Lt'}[op]
            else:
                continue
            # normalised: len OP c ; which edge implies len >= start ?
            for (s2, tt, ft) in bool_switches(b, local=st['l']['l']):
                good = None
                if op == 'Le' and c + 1 >= start:
                    good = ft
                elif op == 'Lt' and c >= start:
                    good = ft
                elif op == 'Ge' and c >= start:
                    good = tt
                elif op == 'Gt' and c + 1 >= start:
                    good = tt
                if good is not None and b.dominates(good, s.bi):
                    return True
    return False


def is_socket(b, s):
    """does the failing Result come from an operation on a TcpStream (peer can make it fail)?"""
    for r in origins(b, s.term['args'][0], stop_at_calls=True):
        if r[0] == 'call':
            t = b.term(r[1])
            for a in t['args'][:1]:
                p = a.get('m') or a.get('c')
                if p is None:
                    continue
                for r2 in origins(b, a):
                    pass
                tys = [b.locals[p['l']]]
                for r2 in origins(b, a):
                    if r2[0] in ('param',):
                        tys.append(b.locals[r2[1]])
                    if r2[0] == 'call':
                        tys.append(b.locals[b.term(r2[1])['d']['l']])
                if any('TcpStream' in x for x in tys):
                    return True
    return False


import os
_REVIEWED = None


def reviewed_table():
    global _REVIEWED
    if _REVIEWED is None:
        p = os.path.join(os.path.dirname(os.path.abspath(__file__)), 'C10_reviewed.json')
        _REVIEWED = json.load(open(p))
    return _REVIEWED


# reviewed entries: side conditions computed here; the JSON table holds sites triaged by reading
def reviewed(m, L, s):
    b = s.body
    fn = b.id
    prod = s.detail.split('#')[0]
    def owner(x):
        # closures and the function they are written in are one review unit (a closure turned into a loop, or the
        # reverse, keeps the site under the same entry)
        return x.split('::{closure')[0]
    def same_unit(entry_fn):
        # the site lies in the reviewed function, or in a helper extracted from it (every caller inside that function)
        if owner(fn).endswith(owner(entry_fn)):
            return True
        roots = [x for x in m.prog.user_bodies() if x.id.endswith(owner(entry_fn)) and x.id == owner(x.id)]
        for rb_ in roots:
            if any(h.id == b.id or owner(h.id) == owner(fn) for h in m.prog.private_helpers(rb_)):
                return True
        return False
    for e in reviewed_table():
        if s.what == e['what'] and prod == e.get('producer', prod) and same_unit(e['fn']):
            conds = [e['side_condition']] if e.get('side_condition') else []
            conds += e.get('side_conditions', [])
            whys = []
            for cond in conds:
                ok, why = SIDE_CONDITIONS[cond](m)
                if not ok:
                    return False, 'side condition %s no longer holds: %s' % (cond, why)
                whys.append('%s: %s' % (cond, why))
            return True, e['reason'] + (' [%s]' % '; '.join(whys) if whys else '')
    if s.what == 'Option::unwrap':
        # unwrap of a value tested just before on the same path (x == None || .. x.unwrap() ; x.is_some() && x.unwrap())
        ok, why = dominated_by_some_test(b, s)
        if ok:
            return True, why
        if prod == 'last' and count_is_one(b, s):
            return True, 'last() of an iterator whose count() was just matched as 1'
        if prod == 'get' and '$admin' in [core.const_str(r) for bi, t in b.calls() for a in t['args'] for r in origins(b, a)]:
            if no_database_removal(m):
                return True, 'the admin database is inserted by the constructor and nothing removes entries from Databases.map'
    if s.what == 'panic!' and 'ClusterRole' in fn and fn.endswith('::from'):
        ok, why = role_values_closed(m)
        if ok:
            return True, why
    return False, ''


def dominated_by_some_test(b, s):
    """the unwrapped Option local was tested (== None false edge / is_some true edge / is_none false edge)
    on every path to the unwrap"""
    t = s.term
    srcs = set()
    for r in origins(b, t['args'][0]):
        if r[0] == 'param':
            srcs.add(('param', r[1]))
        if r[0] == 'call':
            srcs.add(('call', r[1]))
    cut = set()
    for bi, ct in b.calls():
        d = callee_decl(ct)
        same = False
        for a in ct['args']:
            for r in origins(b, a):
                if (r[0] == 'param' and ('param', r[1]) in srcs) or (r[0] == 'call' and ('call', r[1]) in srcs):
                    same = True
        if not same:
            continue
        if d == 'std::option::Option::is_some':
            for (sbi, tt, ft) in bool_switches(b, bi):
                cut.add((sbi, tt))
        elif d == 'std::option::Option::is_none':
            for (sbi, tt, ft) in bool_switches(b, bi):
                cut.add((sbi, ft))
        elif d == 'std::collections::HashMap::contains_key':
            pass
        elif d == 'std::cmp::PartialEq::eq':
            none = False
            for a in ct['args']:
                for r in origins(b, a):
                    if r[0] == 'agg' and b.blocks[r[1]]['s'][r[2]]['r'].get('variant') == 'None':
                        none = True
                    if r[0] == 'const':
                        none = True
            if none:
                for (sbi, tt, ft) in bool_switches(b, bi):
                    cut.add((sbi, ft))
    # map.get(k).unwrap() after map.contains_key(k) on the same *private* map (a local clone)
    for r in origins(b, t['args'][0], stop_at_calls=True):
        if r[0] != 'call' or callee_decl(b.term(r[1])) != 'std::collections::HashMap::get':
            continue
        gt = b.term(r[1])
        recv = origins(b, gt['args'][0])
        key = origins(b, gt['args'][1])
        private = bool(recv) and all(x[0] == 'call' and callee_decl(b.term(x[1])) == 'std::clone::Clone::clone'
                                     for x in origins(b, gt['args'][0], stop_at_calls=True)
                                     if x[0] == 'call') and \
            any(x[0] == 'call' for x in origins(b, gt['args'][0], stop_at_calls=True))
        for bi, ct in b.calls():
            if callee_decl(ct) == 'std::collections::HashMap::contains_key' and private:
                if origins(b, ct['args'][0]) == recv and origins(b, ct['args'][1]) == key:
                    for (sbi, tt, ft) in bool_switches(b, bi):
                        cut.add((sbi, tt))
    if not cut:
        return False, ''
    reach = core.reachable_without(b, cut)
    if s.bi not in reach:
        return True, 'the Option was tested to be Some on every path to this unwrap'
    return False, ''


def count_is_one(b, s):
    for bi, t in b.calls():
        if callee_decl(t) == 'std::iter::Iterator::count':
            d = t['d']['l']
            for sb in b.reachable():
                tt = b.term(sb)
                if tt['k'] == 'switch':
                    p = tt['o'].get('c') or tt['o'].get('m')
                    if p and p['l'] == d:
                        for v, tb in tt['targets']:
                            if str(v) == '1' and b.dominates(tb, s.bi):
                                return True
    return False


def no_database_removal(m):
    for b in m.prog.user_bodies():
        for bi, t in b.calls():
            da = t['f'].get('dargs', '')
            if da.startswith('std::collections::HashMap::<std::string::String, nundb::bo::Database>::') and \
                    callee_decl(t).split('::')[-1] in ('remove', 'clear', 'retain', 'drain', 'remove_entry'):
                return False
    return True


def role_values_closed(m):
    """every value stored into Databases.node_state is a ClusterRole discriminant (0..=2), so
    ClusterRole::from(load) never reaches its unreachable!() arm"""
    vals = set()
    n = 0
    for b in m.prog.user_bodies():
        for bi, t in b.calls():
            d = callee_decl(t)
            if d.startswith('std::sync::atomic::Atomic') and d.split('::')[-1] in ('store', 'swap') and len(t['args']) > 1:
                isrole = any(any(s[0] == 'f' and s[2] == 'node_state' for s in r[-1]) for r in origins(b, t['args'][0]))
                if not isrole:
                    continue
                n += 1
                for r in origins(b, t['args'][1]):
                    if r[0] == 'const':
                        vals.add(const_val(r))
                    elif r[0] == 'arith':
                        # `Role as usize` lowers to discriminant arithmetic on constants
                        vals.add('role-cast')
                    elif r[0] == 'discr':
                        vals.add('role-cast')
                    else:
                        vals.add('?')
            if d == 'std::sync::Arc::new':
                pass
    ok = n >= 4 and '?' not in vals and all(v == 'role-cast' or (isinstance(v, int) and 0 <= v <= 2) for v in vals)
    return ok, 'all %d stores to node_state are ClusterRole discriminants (%s)' % (n, sorted(map(str, vals)))


def snapshot_filter_excludes_ok(m):
    """get_keys_to_update selects `state != Ok || reclaim`: an Ok entry reaches the writer only when reclaiming (closure or loop form)"""
    from props.C06 import selection_shape
    shp = selection_shape(m)
    if shp['found'] and shp['compares_ok']:
        return True, 'the snapshot selection compares the state with ValueStatus::Ok'
    return False, 'no comparison with ValueStatus::Ok in the snapshot selection'


def missing_db_is_refused(m):
    """the node-to-node arms that feed the oplog refuse an unknown database (Error replies are not
    enqueued), so get_db_id finds the database"""
    d, sw = m.dispatcher()
    bad = []
    for v in ('ReplicateSet', 'ReplicateRemove', 'ReplicateIncrement'):
        effs, raw = m.arm_effects(v)
        got = False
        for ev, kind, info in effs:
            if kind == 'dbs-read' and info.get('method') == 'get':
                fb = ev.frame.body
                for (sbi, tm, els, adt) in enum_switches(fb, ev.bi):
                    none_t = tm.get('0')
                    if none_t is None:
                        continue
                    region = {x for x in fb.reachable() if fb.dominates(none_t, x)}
                    if any(s['k'] == 'assign' and s['r']['k'] == 'agg' and s['r'].get('variant') == 'Error'
                           for x in region for s in fb.blocks[x]['s']):
                        got = True
        if not got:
            bad.append(v)
    # the list forms (snapshot a|b|…): one unknown name must make the whole command an error, otherwise the message is
    # enqueued and the replication loop finds no id for that database
    P = m.prog
    resp = P.adts.get('nundb::bo::Response', {'variants': []})
    err_discr = {str(v['discr']) for v in resp['variants'] if v['name'] == 'Error'}
    for v in ('ReplicateSnapshot',):
        if v not in sw[1]:
            continue
        reg = m.arm_region(d, sw, v)
        scope = []
        for x in sorted(reg):
            for s in d.blocks[x]['s']:
                if s['k'] == 'assign' and s['r']['k'] == 'agg' and s['r'].get('ak') == 'closure' and s['r']['def'] in P.bodies:
                    root = P.bodies[s['r']['def']]
                    scope.append(root)
                    scope += [P.bodies[k] for k in P.bodies if k.startswith(root.id + '::{closure')]
                    scope += P.private_helpers(root)
        propagates = False
        for b in scope:
            for x in b.reachable():
                tx = b.term(x)
                if tx['k'] != 'switch':
                    continue
                for r in origins(b, tx['o']):
                    if r[0] == 'discr' and b.blocks[r[1]]['s'][r[2]]['r']['adt'] == 'nundb::bo::Response':
                        for val, tb in tx['targets']:
                            if str(val) in err_discr:
                                region = {y for y in b.reachable() if b.dominates(tb, y)}
                                if any(s['k'] == 'assign' and s['r']['k'] == 'agg' and s['r'].get('variant') == 'Error' for y in region for s in b.blocks[y]['s']) \
                                        or any(b.term(y)['k'] == 'return' for y in region):
                                    propagates = True
        if scope and not propagates:
            bad.append(v + ' (a refusal for one database of the list is not propagated)')
    return (not bad), ('ReplicateSet/Remove/Increment answer Error for an unknown database; the list forms propagate the refusal of any listed '
                       'database' if not bad else 'no refusal in %s' % bad)


_WIRE = {}


def wire_facts(m):
    if 'p' not in _WIRE or _WIRE.get('prog') is not m.prog:
        from nl import wire
        _WIRE['prog'] = m.prog
        _WIRE['p'] = wire.producers(m.prog)
        parsers, words = parser_table(m)
        _WIRE['schemas'] = {w: wire.parser_schema(m.prog, m.prog.bodies[fn]) for w, fn in words.items() if fn in m.prog.bodies}
    return _WIRE['p'], _WIRE['schemas']


def repl_stream_parses(m):
    """every message put on the replication channel is `rp <u64> <inner>` and every inner template
    starts with a command word whose parser cannot answer Err for it"""
    from nl import wire
    prods, schemas = wire_facts(m)
    n = 0
    bad = []
    for p in prods:
        if 'repl' not in p.chans:
            continue
        for f in p.fmts:
            n += 1
            toks = wire.template_tokens(f)
            if wire.first_word(f) != 'rp' or len(toks) < 3:
                bad.append('%s: %r is not an rp message' % (p.loc(), f.text()))
                continue
            if not (len(toks[1]) == 1 and toks[1][0][0] == 'arg' and toks[1][0][2] == 'u64'):
                bad.append('%s: rp id is not a u64 placeholder' % p.loc())
            inner = toks[2]
            if not (len(toks) == 3 and len(inner) == 1 and inner[0][0] == 'arg'):
                continue
            f2, o2 = wire.message_templates(m.prog, f.body, inner[0][1])
            if o2:
                bad.append('%s: inner message of unknown origin %s' % (p.loc(), o2[:2]))
            for g in f2:
                w = wire.first_word(g)
                if w not in schemas:
                    bad.append('%s: inner message %r has no parser' % (g.body.loc(g.bi) if g.bi is not None else p.loc(), g.text()))
                    continue
                top, variants, reason = schemas[w]
                if w == 'election':
                    continue    # literal-selected alternatives: checked by C04.b
                probs, _ = wire.check_template(m.prog, g, top)
                req = [x for x in probs if x.startswith('required') or 'refused by the parser' in x]
                if req:
                    bad.append('%r: %s' % (g.text(), req))
        if p.others:
            bad.append('%s: message of unknown origin %s' % (p.loc(), p.others[:2]))
    if n == 0:
        return False, 'no producer found for the replication channel'
    return (not bad), ('all %d replication-channel templates are rp messages whose inner command parses' % n if not bad else '; '.join(bad[:4]))


def supervisor_stream_parses(m):
    from nl import wire
    prods, schemas = wire_facts(m)
    n = 0
    bad = []
    for p in prods:
        if 'supervisor' not in p.chans:
            continue
        for f in p.fmts:
            n += 1
            toks = wire.template_tokens(f)
            if len(toks) < 2 or not toks[1]:
                bad.append('%s: %r has no second token' % (p.loc(), f.text()))
            if wire.first_word(f) == 'replicate-since-to':
                if not (len(toks) == 3 and len(toks[2]) == 1 and toks[2][0][0] == 'arg' and toks[2][0][2] == 'u64'
                        and len(toks[1]) == 1 and toks[1][0][0] == 'arg'):
                    bad.append('%s: %r is not `replicate-since-to <name> <u64>`' % (p.loc(), f.text()))
        if p.others:
            bad.append('%s: message of unknown origin' % p.loc())
    if n == 0:
        return False, 'no producer found for the supervisor channel'
    # the second token may be EMPTY (the client parser accepts `leave ` with an empty node name and the handler passes it on): the
    # consumer must split positionally (splitn / split on a separator yield an empty piece), not with a tokenizer that drops empty pieces
    for b in m.prog.user_bodies():
        if 'start_replication_supervisor' not in b.id:
            continue
        for bi, t in b.calls():
            if callee_decl(t) in ('std::str::split_whitespace', 'std::str::split_ascii_whitespace'):
                bad.append('%s: the supervisor tokenises its message with %s — an empty argument (`leave `) yields no token and the unwrap of '
                           'the next() panics on the node\'s main thread' % (b.loc(bi), callee_decl(t).split('::')[-1]))
    return (not bad), ('all %d supervisor templates have a second token; replicate-since-to carries a u64' % n if not bad else '; '.join(bad[:4]))


SIDE_CONDITIONS = {
    'repl_stream_parses': repl_stream_parses,
    'supervisor_stream_parses': supervisor_stream_parses,
    'snapshot_filter_excludes_ok': snapshot_filter_excludes_ok,
    'missing_db_is_refused': missing_db_is_refused,
    'role_values_closed': role_values_closed,
    'no_database_removal': lambda m: (no_database_removal(m), 'nothing removes entries from Databases.map'),
}


# ------------------------------------------------------------------------------------------
def run(ck, m):
    _run(ck, m)
    reentry_rule(ck, m)
    recursion_rule(ck, m)


def _run(ck, m):
    for k, v in RULES.items():
        ck.rule(k, v)
    P = m.prog
    L = locks.LockModel(P)
    C = panics.Census(P, L)
    client, service = entries(m)
    ck.floor('C10.a', len(client), 5, 'client-facing thread entries')
    ck.floor('C10.a', len(service), 3, 'service thread entries')
    parsers, words = parser_table(m)
    ck.floor('C10.d', len(parsers), 35, 'functions registered in the parser table')
    parse_fn = [b for b in P.user_bodies() if b.id.endswith('<impl nundb::bo::Request>::parse')]
    extra = {}
    if parse_fn:
        extra[parse_fn[0].id] = [(p, 'parser-table') for p in sorted(parsers)]
    # pattern functions returned by get_function_by_pattern
    for b in P.user_bodies():
        fns = []
        if b.locals[0].startswith("for<'a, 'b> fn(&'a std::string::String, &'b std::string::String) -> bool"):
            for r in core.place_origins(b, {'l': 0}):
                c = core.const_of(r)
                if c and c.get('fn'):
                    fns.append((c['fn'], 'fn-pointer'))
            extra[b.id] = fns
    paths = C.reach(client, extra)
    spaths = C.reach(service, extra)
    ck.meta['reachable_bodies_client'] = len(paths)
    ck.meta['reachable_bodies_service'] = len(spaths)
    all_paths = dict(spaths)
    all_paths.update(paths)

    # reply sources of replication-table arms, for the "expect(selected db)" class
    from props import C09
    rb, rsw = m.replication_table()
    d, sw = m.dispatcher()
    G = m.guards()

    def arm_needs_db(variant):
        region = m.arm_region(d, sw, variant)
        if region is None:
            return False
        srcs = C09.reply_sources(m, d, region)
        for kind, what in srcs:
            if kind == 'guard' and G[what]['kind'] in ('safe', 'db') and C09.guard_needs_selection(m, G[what]['kind']):
                continue      # the guard hands on only on the Some edge of selected_db_name() (C09.b, re-evaluated here)
            if kind == 'guard' and G[what]['kind'] == 'dbname':
                continue
            if kind == 'error':
                continue
            return False
        return bool(srcs)

    lock_sites = {}
    findings = []
    skipped = []
    n_sites = 0
    for bid, path in sorted(all_paths.items()):
        b = P.bodies[bid]
        for s in C.direct(b):
            n_sites += 1
            verdict, why = classify(m, L, s, None)
            origin = 'client' if bid in paths else 'service'
            fn = short(bid)
            inst = '%s:%s' % (s.what, s.detail)
            pstr = ' -> '.join(short(x) for x, _ in path)
            if verdict == 'lock':
                lock_sites.setdefault(why, []).append((b, s))
                continue
            if verdict == 'skip':
                skipped.append('%s %s %s' % (fn, s.what, s.loc()))
                continue
            if verdict == 'ok':
                ck.ob('C10.a', fn, inst, True, '%s: %s' % (s.what, why), s.loc())
                continue
            # expect(db_name) in the replication table: safe iff the arm replies through a guard that needs a selection
            if bid == rb.id and s.what == 'Option::expect':
                variant = None
                for v, tb in rsw[1].items():
                    if tb != rsw[2] and rb.dominates(tb, s.bi):
                        variant = v
                if variant and arm_needs_db(variant):
                    ck.ob('C10.a', fn, 'expect-selected-db:%s' % variant, True,
                          'arm %s succeeds only through a guard that requires a selected database, so the name is Some' % variant, s.loc())
                    continue
                ck.ob('C10.a', fn, 'expect-selected-db:%s' % variant, False,
                      'replication arm %s expects a selected database although the command succeeds without one '
                      '(reachable: %s)' % (variant, pstr), s.loc())
                continue
            ok, why2 = reviewed(m, L, s)
            if ok:
                ck.ob('C10.a', fn, inst, True, 'reviewed: ' + why2, s.loc())
                continue
            ck.ob('C10.a', fn, inst, False,
                  '%s of %s can panic on the %s thread (path: %s)%s' % (
                      s.what, s.detail.split('#')[0] or 'explicit panic', origin, pstr,
                      '; ' + why2 if why2 and 'side condition' in why2 else ''),
                  s.loc())
    ck.floor('C10.a', n_sites, 100, 'may-panic sites examined')
    ck.meta['panic_sites_examined'] = n_sites
    ck.meta['unsigned_arithmetic_asserts_not_decided'] = len(skipped)
    ck.note('%d overflow checks on unsigned sizes/offsets/ids (persistence and oplog arithmetic) are not decided by C10: %s'
            % (len(skipped), '; '.join(skipped[:40])))

    # ---- C10.b: panic under lock --------------------------------------------------------
    # may-panic summary (sites not discharged above), transitive
    bad_direct = {}
    for b in P.user_bodies():
        lst = []
        for s in C.direct(b):
            if s.cls == 'lock-result':
                continue
            verdict, why = classify(m, L, s, None)
            if verdict in ('ok', 'skip'):
                continue
            ok, _ = reviewed(m, L, s)
            if ok:
                continue
            lst.append(s)
        bad_direct[b.id] = lst
    L.summaries()
    cg = L._edges_cg
    trans = {}

    def may_panic(bid, seen=None):
        if bid in trans:
            return trans[bid]
        seen = seen or set()
        if bid in seen:
            return []
        seen.add(bid)
        out = list(bad_direct.get(bid, []))
        for e in cg.get(bid, ()):
            out += may_panic(e, seen)
        trans[bid] = out
        return out
    n_regions = 0
    poisonable = {}
    reported = set()
    for b in P.user_bodies():
        if not node_body(b):
            continue
        for a in L.acq(b):
            if all(i.startswith(SESSION_CONFINED) for i in a.ids):
                continue
            if a.mode != 'W':
                continue    # a panicking reader does not poison an RwLock
            n_regions += 1
            sites = []
            for bi in a.region:
                if bi == a.bi:
                    continue
                t = b.term(bi)
                for s in bad_direct[b.id]:
                    if s.bi == bi:
                        sites.append((s, 'directly'))
                if t['k'] == 'call' and not is_log(t):
                    cb = P.bodies.get(callee(t))
                    if cb is not None and not t['f'].get('ind'):
                        for s in may_panic(cb.id):
                            sites.append((s, 'via ' + short(cb.id)))
                    for (cbi, csi, ccb) in L.closures_created(b):
                        if any(u == bi for u, _ in L.closure_use_blocks(b, cbi, csi)):
                            for s in may_panic(ccb.id):
                                sites.append((s, 'via closure'))
            lid = ','.join(sorted(a.ids))
            for s, via in sites:
                k = (lid, short(s.body.id), s.what, s.detail)
                poisonable.setdefault(lid, []).append(k[1:])
                if k in reported:
                    continue
                reported.add(k)
                ck.ob('C10.b', short(s.body.id), '%s:%s:%s' % (lid, s.what, s.detail), False,
                      'while %s holds %s for writing (taken at %s), %s %s of %s at %s may panic — the lock stays poisoned '
                      'and every later user of it panics' % (short(b.id), lid, a.loc(), via, s.what, s.detail.split('#')[0] or 'panic!', s.loc()), s.loc())
            if not sites:
                ck.ob('C10.b', short(b.id), 'section:%s' % lid, True,
                      'write section of %s is panic-free' % lid, a.loc())
    ck.floor('C10.b', n_regions, 30, 'write sections examined')
    # lock-result unwraps: infallible iff nothing can poison that lock
    for lid, sites in sorted(lock_sites.items()):
        ok = lid not in poisonable
        ck.ob('C10.a', 'lock-results', lid or '?', ok,
              '%d unwrap/expect of LockResult<%s>: %s' % (
                  len(sites), lid, 'no panic inside any critical section of this lock' if ok else
                  'contingent on the C10.b finding(s) for this lock: %s' % sorted(set(poisonable[lid]))[:3]),
              sites[0][1].loc(), verdict='discharged')

    # ---- C10.c: lock order ---------------------------------------------------------------
    E = L.order_edges()
    Gr = {}
    for (x, y), w in E.items():
        if x.startswith(SESSION_CONFINED) or y.startswith(SESSION_CONFINED) or x.startswith('?') or y.startswith('?'):
            continue
        Gr.setdefault(x, set()).add(y)
        Gr.setdefault(y, set())
    sccs = tarjan(Gr)
    ck.meta['lock_classes'] = len(Gr)
    ck.meta['lock_order_edges'] = sum(len(v) for v in Gr.values())
    ncyc = 0
    for comp in sccs:
        if len(comp) > 1:
            ncyc += 1
            comp = sorted(comp)
            wit = []
            for x in comp:
                for y in comp:
                    if x != y and (x, y) in E:
                        w = E[(x, y)][0]
                        wit.append('%s(%s)->%s(%s) in %s [%s]' % (x, w['held_mode'], y, w['acq_mode'], short(w['body']), w['acquired_at']))
            ck.ob('C10.c', 'lock-order', 'cycle:' + '|'.join(comp), False,
                  'locks %s are taken in opposite orders: %s' % (comp, '; '.join(wit[:6])), wit[0].split('[')[-1].rstrip(']') if wit else '')
    for x in sorted(Gr):
        if x in Gr[x] and x.startswith(locks.SINGLETON_CLASSES):
            w = E[(x, x)][0]
            ck.ob('C10.c', short(w['body']), 'reacquire:' + x, False,
                  '%s (%s) is re-acquired (%s) while held in %s: held at %s, again at %s — blocks for ever once a writer queues'
                  % (x, w['held_mode'], w['acq_mode'], short(w['body']), w['held_at'], w['acquired_at']), w['acquired_at'])
    ck.ob('C10.c', 'lock-order', 'graph', True, 'lock-order graph built: %d lock classes, %d edges, %d cyclic components'
          % (len(Gr), sum(len(v) for v in Gr.values()), ncyc))
    ck.floor('C10.c', len(Gr), 10, 'lock classes in the order graph')

    # ---- C10.d: parser -------------------------------------------------------------------
    ppaths = C.reach(sorted(parsers) + [x.id for x in parse_fn], extra)
    nparse = 0
    for bid in sorted(ppaths):
        b = P.bodies[bid]
        for s in C.direct(b):
            if s.cls == 'lock-result':
                continue
            verdict, why = classify(m, L, s, None)
            if verdict == 'skip':
                verdict = 'finding'
            nparse += 1
            ck.ob('C10.d', short(bid), '%s:%s' % (s.what, s.detail), verdict == 'ok',
                  'parser code: %s of %s %s' % (s.what, s.detail.split('#')[0], 'cannot fail' if verdict == 'ok' else 'panics on malformed input'), s.loc())
    ck.ob('C10.d', 'parser', 'bodies', True, '%d parser bodies scanned for may-panic sites' % len(ppaths))
    # parse error -> Response::Error in the request entry
    for name in m.reentry_names():
        b = P.bodies[name]
        ok = False
        for bi, t in b.calls():
            if parse_fn and callee(t) == parse_fn[0].id:
                for (sbi, tm, els, adt) in enum_switches(b, bi):
                    err_t = tm.get('1')
                    if err_t is None:
                        continue
                    region = {x for x in b.reachable() if b.dominates(err_t, x)}
                    builds = any(s['k'] == 'assign' and s['r']['k'] == 'agg' and s['r'].get('variant') == 'Error'
                                 for x in region for s in b.blocks[x]['s'])
                    calls_disp = any(b.term(x)['k'] == 'call' and callee(b.term(x)) == m.dispatcher()[0].id for x in region)
                    ok = builds and not calls_disp
        ck.ob('C10.d', short(name), 'parse-error-is-error-reply', ok,
              'a parse error returns Response::Error without dispatching' if ok else 'parse error path does not return Response::Error',
              '%s:%s' % (b.file, b.line))


def feeds_from_own_producers(m, s):
    """the parsed string is the message received from the replication channel (or a field of it)"""
    b = s.body
    for r in origins(b, s.term['args'][0], stop_at_calls=True):
        if r[0] == 'call':
            t = b.term(r[1])
            if callee(t).endswith('<impl nundb::bo::Request>::parse'):
                return True
    return False


def tarjan(G):
    idx = {}
    low = {}
    st = []
    on = set()
    out = []
    counter = [0]
    import sys
    sys.setrecursionlimit(10000)

    def sc(v):
        idx[v] = low[v] = counter[0]
        counter[0] += 1
        st.append(v)
        on.add(v)
        for w in G.get(v, ()):
            if w not in idx:
                sc(w)
                low[v] = min(low[v], low[w])
            elif w in on:
                low[v] = min(low[v], idx[w])
        if low[v] == idx[v]:
            comp = []
            while True:
                w = st.pop()
                on.discard(w)
                comp.append(w)
                if w == v:
                    break
            out.append(comp)
    for v in list(G):
        if v not in idx:
            sc(v)
    return out



def reentry_rule(ck, m):
    """C10.e — recursion depth of the handler"""
    P = m.prog
    d, sw = m.dispatcher()
    pr = m.reentry_names()
    parsers, words = parser_table(m)
    prods, schemas = wire_facts(m)
    # arms (variants) that contain a re-entry site, directly or through their closures / local helpers
    sites = []
    seen = set()
    st = [d]
    while st:
        b = st.pop()
        if b.id in seen:
            continue
        seen.add(b.id)
        for bi, t in b.calls():
            n = callee(t)
            if n in pr:
                sites.append((b, bi))
                continue
            cb = P.bodies.get(n)
            if cb is not None and not t['f'].get('ind') and node_body(cb):
                st.append(cb)
        for k, cb in P.bodies.items():
            if k.startswith(b.id + '::{closure') and k not in seen:
                st.append(cb)
    # words whose parser builds a variant with a re-entering arm (only sites inside the dispatcher body are attributed)
    variants = set()
    for b, bi in sites:
        if b.id == d.id:
            for v, tb in sw[1].items():
                if tb != sw[2] and bi in m.arm_region(d, sw, v):
                    variants.add(v)
    rewords = sorted(w for w, (top, vs, reason) in schemas.items() if set(vs or ()) & variants)
    for b, bi in sites:
        t = b.term(bi)
        text_roots = {(r[0], r[1] if len(r) > 1 else None, r[-1]) for r in origins(b, t['args'][0])}
        from_request = any(r[0] in ('param', 'capture') for r in origins(b, t['args'][0]))
        if not from_request:
            ck.ob('C10.e', short(b.id), 're-entry:constant-text', True,
                  'the re-entered text is built by the node itself (not taken from the request)', b.loc(bi))
            continue
        refused = set()
        for x, tx in b.calls():
            if callee_decl(tx) not in ('std::str::starts_with', 'std::cmp::PartialEq::eq', 'std::str::eq'):
                continue
            if not b.dominates(x, bi) and bi in core.reach_tracking_bools(b, 0, avoid=(x,)):
                continue          # some path reaches the re-entry without passing this test
            same = any((r[0], r[1] if len(r) > 1 else None, r[-1]) in text_roots for r in origins(b, tx['args'][0]))
            consts = [core.const_str(r) for a in tx['args'][1:] for r in origins(b, a)]
            if not same:
                continue
            for (s2, tt, ft) in core.bool_switches(b, x):
                if bi in core.reach_tracking_bools(b, tt):
                    continue          # the matching text still reaches the re-entry
                for c in consts:
                    if isinstance(c, str) and callee_decl(tx) == 'std::str::starts_with':
                        refused.add(c.rstrip(' '))
        missing = [w for w in rewords if w not in refused]
        ok = bool(rewords) and not missing
        ck.ob('C10.e', short(b.id), 're-entry:bounded-depth', ok,
              'text starting with %s is refused before the request entry is re-entered: one level of wrapping at most' % rewords if ok else
              'the arm re-enters the request entry with text taken from the request and does not refuse a nested %s: `%s` repeated a few '
              'hundred times in one command line recurses once per repetition and exhausts the stack of the handler thread (the process aborts), '
              'before any authentication' % (missing or '(wrapper word not identified)', ' '.join((missing or ['rp'])[:1]) + ' 1 '), b.loc(bi))
    ck.floor('C10.e', len(sites), 1, 're-entry sites of the request entry reachable from the dispatcher')
    # the guard tests the text as the arm received it; the re-entered function must hand that text to the parser without a
    # normalisation the guard did not apply (a `trim()` at the entry turns " rp 1 …", which the guard lets through and the
    # parser used to refuse as an empty command, into another wrapper)
    from nl.locks import backward_slice
    IDENT = ('std::string::String::from', 'std::convert::From::from', 'std::ops::Deref::deref', 'std::string::ToString::to_string',
             'std::string::String::as_str', 'std::borrow::Borrow::borrow', 'std::convert::AsRef::as_ref', 'std::clone::Clone::clone',
             'std::str::trim_end', 'std::str::trim_end_matches', 'std::borrow::ToOwned::to_owned', 'std::str::to_owned', 'std::str::to_string')
    guard_calls = set()
    for b, bi in sites:
        for x, tx in b.calls():
            if callee_decl(tx) in ('std::str::starts_with',) and b.dominates(x, bi):
                guard_calls |= {callee_decl(b.term(c)) for c in backward_slice(b, tx['args'][0])[0]}
    for name in sorted(pr):
        eb = P.bodies.get(name)
        if eb is None:
            continue
        for x, tx in eb.calls():
            if not callee(tx).endswith('Request>::parse'):
                continue
            extra = []
            for c in sorted(backward_slice(eb, tx['args'][0])[0]):
                tc = eb.term(c)
                d = callee_decl(tc)
                if d in IDENT or is_log(tc) or not d.startswith('std::str::') and not d.startswith('std::string::String::'):
                    continue
                if d == 'std::str::trim_matches' or d == 'std::str::trim_start_matches':
                    pats = [core.const_val(r) for a_ in tc['args'][1:] for r in origins(eb, a_) if r[0] == 'const']
                    if pats and all(p_ in (10, '\n', 13, '\r') or (isinstance(p_, str) and set(p_) <= set('\r\n')) for p_ in pats):
                        continue      # line ends only: arguments carry none (C09.e)
                if d in guard_calls:
                    continue
                extra.append(d.split('::')[-1])
            ck.ob('C10.e', short(eb.id), 're-entry:text-parsed-as-guarded', not extra,
                  'the request entry hands its text to the parser as the wrapper guard saw it (line ends aside)' if not extra else
                  'the request entry applies %s to its text before parsing, the nested-wrapper guard tests the text without it: a wrapped '
                  '" rp 1 …" (leading blank) passes the guard and is parsed as another wrapper on re-entry — the client again chooses the '
                  'recursion depth' % extra, eb.loc(x))


def recursion_rule(ck, m):
    """C10.f — see RULES"""
    P = m.prog
    G = {}
    for b in P.user_bodies():
        if b.id.startswith(('nundb::client::', 'nundb::command_line::')):
            continue
        G.setdefault(b.id, set())
        for bi, t in b.calls():
            c = callee(t)
            if c in P.bodies and not c.startswith(('nundb::client::', 'nundb::command_line::')):
                G[b.id].add(c)
        for s_ in (s for bl in b.blocks for s in bl['s']):
            if s_['k'] == 'assign' and s_['r']['k'] == 'agg' and s_['r'].get('ak') == 'closure' and s_['r'].get('def') in P.bodies:
                G[b.id].add(s_['r']['def'])
    pr = m.reentry_names()
    d, _sw = m.dispatcher()
    ncyc = 0
    for comp in tarjan({k: set(v) for k, v in G.items()}):
        if not (len(comp) > 1 or comp[0] in G.get(comp[0], ())):
            continue
        ncyc += 1
        comp = sorted(comp)
        names = [short(x) for x in comp]
        if set(comp) & set(pr) and all(x in pr or x == d.id or x.startswith(d.id + '::') for x in comp):
            ck.ob('C10.f', 'call-graph', 'cycle:%s' % '|'.join(names), True,
                  'the request entry re-enters itself through the wrapper arm; its depth is bounded by C10.e', '')
            continue
        ok, why = False, ''
        if len(comp) == 1:
            b = P.bodies[comp[0]]
            rec = [bi for bi, t in b.calls() if callee(t) == b.id]
            ok = bool(rec)
            for bi in rec:
                t = b.term(bi)
                counted = False
                for ai, a in enumerate(t['args']):
                    if ai + 1 > b.argc or not b.locals[ai + 1].startswith(('i', 'u')) or b.locals[ai + 1] in ('str',):
                        continue
                    for r in origins(b, a):
                        if r[0] != 'arith':
                            continue
                        rv = b.blocks[r[1]]['s'][r[2]]['r']
                        if not rv.get('op', '').startswith('Sub'):
                            continue
                        from_param = any(r2[0] == 'param' and r2[1] == ai + 1 for r2 in origins(b, rv['a']))
                        dec = [const_val(r2) for r2 in origins(b, rv['b'])]
                        if not (from_param and len(dec) == 1 and isinstance(dec[0], int) and dec[0] > 0):
                            continue
                        # guarded by param > 0 (or >= 1)
                        for bl_i, bl in enumerate(b.blocks):
                            for s in bl['s']:
                                if s['k'] == 'assign' and s['r']['k'] == 'bin' and s['r']['op'] in ('Gt', 'Ge') and \
                                        any(r3[0] == 'param' and r3[1] == ai + 1 for r3 in origins(b, s['r']['a'])):
                                    lim = [const_val(r3) for r3 in origins(b, s['r']['b'])]
                                    if len(lim) == 1 and isinstance(lim[0], int) and lim[0] >= (0 if s['r']['op'] == 'Gt' else 1):
                                        for (_s2, tt, ft) in core.bool_switches(b, local=s['l']['l']):
                                            if b.dominates(tt, bi) and not b.dominates(ft, bi):
                                                counted = True
                if not counted:
                    ok = False
            why = 'counted self-recursion: every recursive call passes a parameter minus a positive constant under `parameter > 0`'
        ck.ob('C10.f', 'call-graph', 'cycle:%s' % '|'.join(names), ok, why if ok else
              'recursion cycle %s with no bound on its depth that this rule recognises (a counter that is decremented under a > 0 test): the '
              'depth follows the input that drives it (a version that cannot grow, the stars of a pattern, …); exhausting the stack of a '
              'handler thread aborts the whole process, for every client' % names, '%s:%s' % (P.bodies[comp[0]].file, P.bodies[comp[0]].line))
    ck.floor('C10.f', ncyc, 1, 'cycles of the call graph (the request re-entry is one)')
