"""C03 — watchers get every committed change, only committed changes, and end up current.

Decides: (a) every write to Database.map made for a client-visible mutation is followed, on
every path to a return, by a notification for the same key carrying the written value;
(b) no notification on a path that ends in an error reply; (c) the watcher list is updated in one
critical section of Watchers.map (A1); (d) each of the three transports releases the session's
subscriptions and its connection count at session end; (e) unwatch removes only the caller's own
senders and watch appends to the existing list.
Does NOT decide delivery when the bounded channel is full, nor the order of notifications from
concurrent writers.
"""
from nl import core, locks
from nl.core import origins, callee, callee_decl, is_log, const_str
from nl.model import short

RULES = {
    'C03.a': 'a write to the shared Database.map is post-dominated by a notification (a read of Watchers.map that '
             'sends) for the same key and value; helpers that write without notifying are called only from '
             'notifying functions or reviewed exceptions',
    'C03.b': 'no notification is reachable before a return that carries Response::Error / VersionError',
    'C03.c': 'watch / unwatch / unwatch-all read-modify-write the watcher list in one critical section of Watchers.map',
    'C03.d': 'every transport ends a session with unwatch-all followed by Client::left (TCP, HTTP, WebSocket)',
    'C03.e': 'unwatch retains exactly the senders that are NOT the caller\'s; watch stores the existing list plus the caller',
    'C03.f': 'every notification is sent through a fresh clone of the watcher\'s sender (futures mpsc guarantees one slot per sender '
             'handle: a clone reused for a second send can be refused when the subscriber has a backlog)',
    'C03.g': 'a notifier sends what it was handed: a body that only notifies (locks Watchers.map and sends, writes nothing) takes no '
             'lock of Database.map — value and version of a notification are the committed operands, not a later re-read',
    'C03.h': 'a refused write notifies nobody: in the Arbiter arm of the conflict resolver (which answers an error) the notifying store is '
             'not called with the key of the refused change — the in-conflict marker goes through the raw, non-notifying writer',
    'C03.i': 'the raw entry writer (inserts into Database.map without notifying: the snapshot\'s mark-as-saved and the in-conflict marker) '
             'never stores a NEW value: at every call the value argument is the entry\'s own current value, never a field of a Change — '
             'a changed value written through it is committed and no watcher hears of it',
    'C03.j': 'notifications are decided by the watchers map and sent by the mutators: a pure notifier reaches its lookup of Watchers.map on '
             'every path, is called only from the three mutators, and registering a watch is a single critical section of Watchers.map',
}

VALUE_MAP = 'std::collections::HashMap::<std::string::String, nundb::bo::Value>::'

# functions that write an entry without a value change visible to clients (reviewed)
NO_NOTIFY_NEEDED = {
    'set_value_as_ok': 'snapshot bookkeeping: same value and version, only state/offsets change',
    'try_resolve_conflict_response': 'in-conflict marker: the value is unchanged (the old value is written back)',
}


def node_bodies(m):
    for b in m.prog.user_bodies():
        if b.id.startswith(('nundb::client::', 'nundb::command_line::', '<nundb::client::')):
            continue
        yield b


def run(ck, m):
    _run(ck, m)
    refused_write_silent(ck, m)
    raw_writer_keeps_value(ck, m)
    from nl import alias as _alias3
    from props import C19 as _C19, C13 as _C13
    ck.rule('C03.m', 'a versioned write that LOSES a Newer resolution notifies nobody (C19.a / C19.b, repeated): on the losing edge of the comparison the '
                     'resolver calls no notifying store — a "re-write of the winner" announces a change for a write that was refused')
    _alias3.repeat(ck, m, 'C19', ('C19.a', 'C19.b'), 'C03.m', runner=_C19._run, floor=2)
    ck.rule('C03.n', 'another session\'s unwatch never ends this subscription: no entry of Watchers.map is removed (C13.h, repeated) — the list is '
                     'filtered for the caller\'s sender and stored back, whatever its length')
    _alias3.repeat(ck, m, 'C13', ('C13.h',), 'C03.n', runner=_C13.watchers_monotone)


def _run(ck, m):
    for k, v in RULES.items():
        ck.rule(k, v)
    P = m.prog
    L = locks.LockModel(P)
    S = L.summaries()
    ex = m.explorer()
    fx = m.fx()

    # notifiers: bodies that take Watchers.map themselves and try_send on what they find there
    notifiers = set()
    # functions that are handed a &Sender<String> and a message and queue it (an extracted `send_to_watcher`): a call of one is a send;
    # value = the send inside goes through a fresh clone of the parameter
    sender_helpers = {}
    for b in node_bodies(m):
        if b.kind not in ('fn', 'method') or not any('mpsc::Sender<' in x for x in b.locals[1:b.argc + 1]):
            continue
        ts_ = [(bi, t) for bi, t in b.calls() if callee_decl(t).endswith('mpsc::Sender::try_send') and not is_log(t)]
        if len(ts_) != 1 or any(callee_decl(t) in locks.LOCK_FNS for _, t in b.calls()):
            continue
        fresh_ = all(any(r[0] == 'call' and callee_decl(b.term(r[1])) == 'std::clone::Clone::clone' for r in origins(b, t['args'][0], stop_at_calls=True))
                     for _, t in ts_)
        sender_helpers[b.id] = fresh_
    is_send = lambda t: (callee_decl(t).endswith('mpsc::Sender::try_send') or callee(t) in sender_helpers) and not is_log(t)
    for b in node_bodies(m):
        if b.id in sender_helpers:
            continue
        locks_w = any(callee_decl(t) in locks.LOCK_FNS and 'Watchers.map' in locks.lock_id_of(b, t['args'][0]) for _, t in b.calls())
        sends = any(is_send(t) for _, t in b.calls())
        if locks_w and sends:
            notifiers.add(b.id)
    ck.floor('C03.a', len(notifiers), 3, 'notifier bodies (lock Watchers.map and send)')

    def notify_points(b):
        pts = []
        for bi, t in b.calls():
            d = callee_decl(t)
            if b.id in notifiers and d in locks.LOCK_FNS and 'Watchers.map' in locks.lock_id_of(b, t['args'][0]):
                pts.append(bi)
            elif callee(t) in notifiers:
                pts.append(bi)
        return pts

    # ---- (a) / (b) ---------------------------------------------------------------------
    writers = []     # (body, bi, method)
    for b in node_bodies(m):
        top = None
        for bi, t in b.calls():
            da = t['f'].get('dargs', '')
            if da.startswith(VALUE_MAP) and callee_decl(t).split('::')[-1] in ('insert', 'remove'):
                if top is None:
                    top = ex.top_frame(b)
                if fx.guard_sources(top, t['args'][0]):
                    writers.append((b, bi, callee_decl(t).split('::')[-1]))
    ck.floor('C03.a', len(writers), 4, 'direct writes to the shared Database.map')
    raw_writers = set()
    for b, bi, meth in writers:
        pts = notify_points(b)
        post = [p for p in pts if b.postdominates(p, bi) and p != bi]
        fn = short(b.id)
        if post:
            # operand agreement: key and value of the notification = key and value written
            ok, why = operands_agree(m, b, bi, post)
            ck.ob('C03.a', fn, '%s:notified' % meth, ok,
                  'the %s at %s is followed on every path by a notification (%s); %s' % (meth, b.loc(bi), b.loc(post[0]), why),
                  b.loc(bi))
        elif pts and any(p in b.reach_from([bi]) for p in pts):
            ck.ob('C03.a', fn, '%s:notified' % meth, False,
                  'the %s at %s reaches a return without passing the notification at %s' % (meth, b.loc(bi), b.loc(pts[0])),
                  b.loc(bi))
        elif b.id.split('::')[-1] in NO_NOTIFY_NEEDED:
            # the reviewed bookkeeping writer writes the entry itself (its call of the raw writer was inlined): same exception, same reason
            ck.ob('C03.a', fn, '%s:reviewed-writer' % meth, True, 'reviewed exception: ' + NO_NOTIFY_NEEDED[b.id.split('::')[-1]], b.loc(bi))
        else:
            raw_writers.add(b.id)
            ck.ob('C03.a', fn, '%s:raw-writer' % meth, True,
                  '%s writes without notifying: its callers are checked instead' % fn, b.loc(bi))
    # callers of raw writers (transitively through other non-notifying wrappers)
    work = list(raw_writers)
    seen = set(raw_writers)
    ncall = 0
    while work:
        w = work.pop()
        for (cb, cbi) in P.callers().get(w, []):
            if cb.id.startswith(('nundb::client::', 'nundb::command_line::')):
                continue
            fn = short(cb.id)
            base = cb.id.split('::')[-1]
            ncall += 1
            pts = notify_points(cb)
            post = [p for p in pts if cb.postdominates(p, cbi) and p != cbi]
            if post:
                ck.ob('C03.a', fn, 'calls:%s:notified' % short(w), True,
                      '%s calls the raw writer %s and then notifies (%s)' % (fn, short(w), cb.loc(post[0])), cb.loc(cbi))
                continue
            if base in NO_NOTIFY_NEEDED:
                ck.ob('C03.a', fn, 'calls:%s:reviewed' % short(w), True,
                      'reviewed exception: ' + NO_NOTIFY_NEEDED[base], cb.loc(cbi))
                if base == 'set_value_as_ok' and cb.id not in seen:
                    # the wrapper itself is a raw writer for its callers only w.r.t. state; stop here
                    pass
                continue
            if cb.locals[0] != 'nundb::bo::Response' and not pts and cb.id not in seen:
                # another wrapper without notification: go up
                seen.add(cb.id)
                work.append(cb.id)
                ck.ob('C03.a', fn, 'calls:%s:wrapper' % short(w), True,
                      '%s wraps the raw writer without notifying: its callers are checked' % fn, cb.loc(cbi))
                continue
            ck.ob('C03.a', fn, 'calls:%s:notified' % short(w), False,
                  '%s writes an entry through %s and can return without notifying the key\'s watchers' % (fn, short(w)),
                  cb.loc(cbi))
    # (b) no notification before an error return
    nb = 0
    for b in node_bodies(m):
        if b.locals[0] != 'nundb::bo::Response' or b.kind not in ('fn', 'method'):
            continue
        pts = [p for p in notify_points(b)]
        if not pts:
            continue
        # the functions that write the map themselves
        if not any(b.id == w[0].id for w in writers):
            continue
        errs = [bi for bi in b.reachable() for s in b.blocks[bi]['s']
                if s['k'] == 'assign' and not s['l'].get('p') and s['l']['l'] == 0 and s['r']['k'] == 'agg'
                and s['r'].get('variant') in ('Error', 'VersionError')]
        nb += 1
        bad = []
        for p in pts:
            # direct notifications only (a callee that writes+notifies is judged on its own)
            t = b.term(p)
            reach = b.reach_from([p])
            for e in errs:
                if e in reach:
                    bad.append((b.loc(p), b.loc(e)))
        ck.ob('C03.b', short(b.id), 'no-notify-before-refusal', not bad,
              'no notification precedes an error reply in %s' % short(b.id) if not bad else
              'a notification at %s can be followed by the error reply built at %s' % bad[0], '%s:%s' % (b.file, b.line))
    ck.floor('C03.b', nb, 3, 'notifying mutators checked for refusal paths')

    # ---- (f) ---------------------------------------------------------------------------
    from props.C07 import natural_loops
    nf = 0
    for nid in sorted(notifiers):
        b = P.bodies[nid]
        loops = natural_loops(b)
        sends = [(bi, t) for bi, t in b.calls() if is_send(t)]
        used = {}
        for bi, t in sends:
            nf += 1
            if callee(t) in sender_helpers:
                okh_ = sender_helpers[callee(t)]
                ck.ob('C03.f', short(b.id), 'fresh-clone:%d' % (len([x for x in sends if x[0] <= bi])), okh_,
                      'sent by %s, which clones the sender for its one send' % short(callee(t)) if okh_ else
                      '%s sends on the sender it was handed without cloning it' % short(callee(t)), b.loc(bi))
                continue
            clones = [r[1] for r in origins(b, t['args'][0], stop_at_calls=True)
                      if r[0] == 'call' and callee_decl(b.term(r[1])) == 'std::clone::Clone::clone']
            ok = bool(clones)
            why = 'sent through a fresh clone of the sender'
            if not clones:
                why = 'try_send on a sender that is not a fresh clone'
            for c in clones:
                used.setdefault(c, []).append(bi)
                for h, body_ in loops:
                    if bi in body_ and c not in body_:
                        ok = False
                        why = 'the sender is cloned once (%s) and reused for several sends in a loop' % b.loc(c)
            ck.ob('C03.f', short(b.id), 'fresh-clone:%d' % (len([x for x in sends if x[0] <= bi])), ok, why, b.loc(bi))
        for c, bis in used.items():
            if len(bis) > 1:
                ck.ob('C03.f', short(b.id), 'clone-used-once', False,
                      'one sender clone (%s) feeds %d try_send calls: the second can be refused when the subscriber is behind' % (b.loc(c), len(bis)), b.loc(c))
    ck.floor('C03.f', nf, 4, 'notification sends')
    # ---- (g) ---------------------------------------------------------------------------
    ng = 0
    for nid in sorted(notifiers):
        b = P.bodies[nid]
        own = {l for l, _ in S.get(nid, ())}
        writes_map = any(mode == 'W' and l == 'Database.map' for l, mode in S.get(nid, ()))
        if writes_map:
            continue      # a mutator that notifies inline (judged by C03.a)
        ng += 1
        reread = 'Database.map' in own
        ck.ob('C03.g', short(b.id), 'sends-committed-operands', not reread,
              'the notifier reads nothing from Database.map: it sends the operands it was handed' if not reread else
              '%s reads Database.map while notifying: the value comes from the writer\'s commit but the re-read part (version) from whichever '
              'commit is newest when the notification is sent — two writers produce (a, n+1) and (b, n+1), version n is never announced and the '
              'highest-versioned notification may carry a stale value' % short(b.id), '%s:%s' % (b.file, b.line))
    ck.floor('C03.g', ng, 1, 'pure notifier bodies')
    # the only way a notifier skips the sends is that the watchers map has no entry for the key: the look at Watchers.map is reached on
    # every path (a "nobody watches" fast path on a separately kept counter goes wrong as soon as the counter drifts from the map)
    nj = 0
    for nid in sorted(notifiers):
        b = P.bodies[nid]
        acq = [bi for bi, t in b.calls() if callee_decl(t) in locks.LOCK_FNS and 'Watchers.map' in locks.lock_id_of(b, t['args'][0])]
        if any(mode == 'W' and l == 'Database.map' for l, mode in S.get(nid, ())):
            # an inline notifier of a mutator: the lookup must follow every committed write, judged by C03.a
            continue
        nj += 1
        always = any(b.postdominates(x, 0) for x in acq)
        ck.ob('C03.j', short(b.id), 'notifier-always-consults-the-watchers-map', always,
              'the notifier reaches its lookup of Watchers.map on every path' if always else
              '%s can return before it looks at Watchers.map (an early exit on something other than the map itself): a change is committed and '
              'the registered watchers of the key are not told' % short(b.id), '%s:%s' % (b.file, b.line))
    ck.floor('C03.j', nj, 1, 'pure notifier bodies')
    # ---- (k) every registered watcher of the key is sent the change: the sends of a pure notifier are decided by the watchers map alone
    ck.rule('C03.k', 'every registered watcher is told of every change: in a pure notifier the only branches that decide whether a send happens are '
                     'the lookup of the key in Watchers.map and the iteration over the senders found there — a filter on the version or the value '
                     '("already superseded", "unchanged"), on a separately kept table or on any other state drops notifications of committed writes')
    from props.C02 import controlling_switches
    nk = 0
    for nid in sorted(notifiers):
        b = P.bodies[nid]
        if any(mode == 'W' and l == 'Database.map' for l, mode in S.get(nid, ())):
            continue
        sends_ = [bi for bi, t in b.calls() if is_send(t)]
        # parameters that feed the lookup of the watchers map (the key) and the lock (self)
        okp = set()
        for bi, t in b.calls():
            da_ = t['f'].get('dargs', '')
            if (da_.startswith('std::collections::HashMap::<std::string::String, std::vec::Vec<') and 'mpsc::Sender<' in da_) \
                    or callee_decl(t) in locks.LOCK_FNS:
                for a in t['args']:
                    okp |= locks.backward_slice(b, a)[1]
        bad = []
        for sb in sends_:
            for sw in controlling_switches(b, sb):
                calls_, params_ = locks.backward_slice(b, b.term(sw)['o'], control=True)
                for c in sorted(calls_):
                    tc = b.term(c)
                    cb_ = P.bodies.get(callee(tc))
                    if cb_ is not None and not any(g in cb_.locals[0] for g in ('RwLockReadGuard', 'RwLockWriteGuard', 'MutexGuard')) \
                            and callee(tc) not in sender_helpers:
                        bad.append('%s (%s) decides the send at %s' % (short(callee(tc)), b.loc(c), b.loc(sb)))
                for p_ in sorted(params_ - okp):
                    bad.append('parameter #%d (%s) decides the send at %s' % (p_, b.locals[p_], b.loc(sb)))
        nk += 1
        okf = bool(sends_) and not bad
        ck.ob('C03.k', short(b.id), 'sends-decided-by-the-watchers-map-alone', okf,
              'the %d send(s) of %s are decided by the lookup in Watchers.map and the iteration only' % (len(sends_), short(b.id)) if okf else
              '%s: a committed change can be withheld from a registered watcher: %s' % (short(b.id), sorted(set(bad))[:4]), '%s:%s' % (b.file, b.line))
    ck.floor('C03.k', nk, 1, 'pure notifier bodies')
    # ---- (l) the receivers of a notification are the watchers registered under exactly the changed key
    ck.rule('C03.l', 'a change is announced to the watchers of THAT key: the senders a pure notifier sends through come from an exact lookup of the key '
                     'in Watchers.map (HashMap::get), never from a walk over the whole map with a matcher — "pattern watches" matched with the '
                     'listing\'s fallback (contains) deliver the changes of `user-1` to the watchers of `user`, `use`, `u` ...')
    WM = 'std::collections::HashMap::<std::string::String, std::vec::Vec<futures::futures_channel::mpsc::Sender<std::string::String>>>::'
    nl_ = 0
    for nid in sorted(notifiers):
        b = P.bodies[nid]
        if any(mode == 'W' and l == 'Database.map' for l, mode in S.get(nid, ())):
            continue
        sends_ = [bi for bi, t in b.calls() if is_send(t)]
        if not sends_:
            continue
        nl_ += 1
        bad = []
        exact = 0
        for sb in sends_:
            calls_, _p = locks.backward_slice(b, b.term(sb)['args'][0])
            for c in calls_:
                da = b.term(c)['f'].get('dargs', '')
                if da.startswith(WM):
                    leaf = da[len(WM):].split('<')[0].split('::')[0]
                    if leaf in ('get', 'get_key_value'):
                        exact += 1
                    elif leaf in ('iter', 'values', 'keys', 'iter_mut', 'values_mut', 'into_iter', 'drain'):
                        bad.append('%s (%s)' % (leaf, b.loc(c)))
                elif 'IntoIterator' in callee_decl(b.term(c)) and 'HashMap<std::string::String, std::vec::Vec<' in da:
                    bad.append('into_iter over the map (%s)' % b.loc(c))
        okl = exact > 0 and not bad
        ck.ob('C03.l', short(b.id), 'receivers-by-exact-key-lookup', okl,
              'the senders of %s come from HashMap::get on Watchers.map' % short(b.id) if okl else
              '%s sends through senders found by walking Watchers.map (%s; exact lookups: %d): watchers of other keys receive the change'
              % (short(b.id), sorted(set(bad)), exact), '%s:%s' % (b.file, b.line))
    ck.floor('C03.l', nl_, 1, 'pure notifier bodies')
    # who may notify: only the three mutators (and the notifier's own helpers) call a pure notifier — a notification sent from anywhere
    # else announces a change that was not stored
    from props.C02 import store_fn as _st, increment_fn as _inc, remover_fn as _rem
    allowed = {_st(m).id, _inc(m).id, _rem(m).id} | set(notifiers)
    strangers = []
    for nid in sorted(notifiers):
        if any(mode == 'W' and l == 'Database.map' for l, mode in S.get(nid, ())):
            continue
        callers_ = P.callers().get(nid, [])
        # a change notifier is one the mutators use; the arbiter's delivery function also looks at Watchers.map but is another channel
        if not any(cb_.id in (_st(m).id, _inc(m).id, _rem(m).id) for cb_, _ in callers_):
            continue
        for cb, cbi in callers_:
            owner = cb
            while owner.parent and owner.parent in P.bodies:
                owner = P.bodies[owner.parent]
            if owner.id not in allowed and not owner.id.startswith(('nundb::client::', 'nundb::command_line::')):
                strangers.append('%s@%s' % (short(owner.id), cb.loc(cbi)))
    ck.ob('C03.j', 'notifiers', 'only-mutators-notify', not strangers,
          'the pure notifiers are called by the mutators only' if not strangers else
          'a notifier is called from %s, which is not one of the mutators: watchers receive `changed` for a value that was not stored '
          '(same value, same version)' % strangers, strangers[0] if strangers else '')
    # watching is one critical section: the function that registers a watch does not also go through another function that writes
    # Watchers.map (an "unwatch then watch" leaves a gap in which the subscriber is not registered)
    nw = 0
    for b in node_bodies(m):
        regs = [bi for bi, t in b.calls() if callee(t).endswith('bo::Database::watch_key')]
        if not regs or b.id.endswith('bo::Database::watch_key'):
            continue
        nw += 1
        others = [b.loc(bi) for bi, t in b.calls() if bi not in regs and P.bodies.get(callee(t)) is not None
                  and any(mode == 'W' and l == 'Watchers.map' for l, mode in S.get(callee(t), ()))]
        if b.id.endswith('consensus_ops::<impl nundb::bo::Database>::register_arbiter') or 'register_arbiter' in b.id:
            others = []       # the arbiter registration removes answered records after subscribing (C13.c)
        ck.ob('C03.j', short(b.id), 'watch-is-one-section', not others,
              'registering a watch touches Watchers.map in one critical section' if not others else
              '%s registers the watch and also writes Watchers.map through another call (%s): between the two sections the subscriber is not '
              'registered — a change committed in the gap is never announced to a subscriber that never unwatched' % (short(b.id), others), b.loc(regs[0]))
    ck.floor('C03.j', nw, 1, 'functions that register a watch')
    # ---- (c) ---------------------------------------------------------------------------
    n = 0
    hit = False
    for b in node_bodies(m):
        if b.kind not in ('fn', 'method'):
            continue
        res = locks.rmw_findings(m, b, 'watch')
        n += 1
        for r in res:
            hit = True
            ck.ob('C03.c', short(b.id), '%s->%s' % (r['first_fn'], r['second_fn']), False,
                  '%s reads the watcher list in %s (%s) and stores a list derived from it under a later lock (%s): a watch '
                  'registered in between is dropped' % (short(b.id), r['first_fn'], r['first'], r['second']), r['second'])
    wl = [b for b in node_bodies(m) if b.kind in ('fn', 'method') and
          any(t['f'].get('dargs', '').startswith('std::collections::HashMap::<std::string::String, std::vec::Vec<futures::futures_channel::mpsc::Sender<std::string::String>>>::')
              and t['f'].get('dargs', '').split('::')[-1].split('<')[0] in ('insert', 'entry', 'get_mut')      # stored back, or changed in place under the guard
              for _, t in b.calls())]
    ck.floor('C03.c', len(wl), 2, 'functions that store a watcher list')
    for b in wl:
        if not [o for o in ck.obs if o['rule'] == 'C03.c' and o['key'].startswith('C03.c:%s:' % short(b.id)) and o['verdict'] != 'discharged']:
            ck.ob('C03.c', short(b.id), 'single-section', True,
                  '%s reads and stores the watcher list inside one critical section' % short(b.id), '%s:%s' % (b.file, b.line))

    # ---- (d) ---------------------------------------------------------------------------
    pr = m.reentry_names()
    sites = []
    for b in node_bodies(m):
        for bi, t in b.calls():
            if callee(t) in pr and t['args']:
                if any(const_str(r) == 'unwatch-all' for r in origins(b, t['args'][0])):
                    sites.append((b, bi))
    ck.floor('C03.d', len(sites), 3, 'session-end sites issuing unwatch-all')
    for b, bi in sites:
        lefts = [x for x, t in b.calls() if callee(t).endswith('bo::Client::left')]
        after = [x for x in lefts if b.postdominates(x, bi)]
        ck.ob('C03.d', short(b.id), 'unwatch-all-then-left', bool(after),
              'session end runs unwatch-all and then Client::left on every path' if after else
              'unwatch-all at %s is not followed by Client::left on every path' % b.loc(bi), b.loc(bi))
    # HTTP: the clean-up is reached on every path out of the command loop (it post-dominates the entry)
    for b, bi in sites:
        if b.locals[0].startswith('std::vec::Vec<'):
            ck.ob('C03.d', short(b.id), 'cleanup-on-every-path', b.postdominates(bi, 0),
                  'the clean-up post-dominates the function entry (runs after every body)', b.loc(bi))

    # ---- (e) ---------------------------------------------------------------------------
    from props.C08 import unwatch_removes_only_own
    unw = [b for b in wl if any(callee_decl(t) == 'std::vec::Vec::retain' for _, t in b.calls())]
    ck.floor('C03.e', len(unw), 1, 'unwatch functions (retain + store)')
    # a removal of ONE element (position + remove / swap_remove) drops one registration, not all of the session's
    SENDERS = 'std::vec::Vec::<futures::futures_channel::mpsc::Sender<std::string::String>>::'
    for b in node_bodies(m):
        single = [bi for bi, t in b.calls() if t['f'].get('dargs', '').startswith(SENDERS) and callee_decl(t).split('::')[-1] in ('swap_remove', 'remove', 'pop')]
        if single and any(l == 'Watchers.map' for l, _ in S.get(b.id, ())):
            ck.ob('C03.e', short(b.id), 'removes-every-registration', False,
                  '%s removes a single element of the watcher list (%s): a session that watched the key twice keeps one registration after its '
                  'unwatch / unwatch-all and goes on receiving notifications' % (short(b.id), [b.loc(x) for x in single]), b.loc(single[0]))

    class Ev:      # minimal shim for the shared helper
        pass
    for b in unw:
        e = Ev()
        e.frame = Ev()
        e.frame.body = b
        ok, why = unwatch_removes_only_own(m, e)
        ck.ob('C03.e', short(b.id), 'retain-not-own', ok, why, '%s:%s' % (b.file, b.line))
    for b in wl:
        if b in unw:
            continue
        # watch: the stored list derives from the existing list and the pushed sender is the parameter
        ok_list = ok_push = False
        for bi, t in b.calls():
            if t['f'].get('dargs', '').endswith('::insert') and 'Sender' in t['f'].get('dargs', ''):
                calls, params = locks.backward_slice(b, t['args'][2])
                gets = [x for x in calls if callee_decl(b.term(x)) == 'std::collections::HashMap::get']
                # ... or through a private helper that is handed the guarded map and returns the list it finds there
                # (`registered_senders(&watchers, key)`)
                helpers_ = {h.id for h in P.private_helpers(b)}
                for x in calls:
                    hb_ = P.bodies.get(callee(b.term(x)))
                    if hb_ is not None and hb_.id in helpers_ and any('Sender' in a_ and 'HashMap' in a_ for a_ in hb_.locals[1:hb_.argc + 1]):
                        hc_, _hp = locks.backward_slice(hb_, {'c': {'l': 0}})
                        if any(callee_decl(hb_.term(y)) == 'std::collections::HashMap::get' for y in hc_):
                            gets.append(x)
                pushes = [x for x in calls if callee_decl(b.term(x)) == 'std::vec::Vec::push']
                ok_list = bool(gets)
                for x in pushes:
                    c2, p2 = locks.backward_slice(b, b.term(x)['args'][1])
                    if p2:
                        ok_push = True
        ck.ob('C03.e', short(b.id), 'appends-to-existing', ok_list and ok_push,
              'the stored list is the existing list plus the caller\'s sender' if ok_list and ok_push else
              'watch does not keep the existing list (derived from get: %s, pushes the parameter: %s)' % (ok_list, ok_push),
              '%s:%s' % (b.file, b.line))


def operands_agree(m, b, wbi, posts):
    """key and value handed to the notification originate where the written key and value do"""
    t = b.term(wbi)
    meth = callee_decl(t).split('::')[-1]
    wkey = origins(b, t['args'][1])
    wval = set()
    if meth == 'insert':
        for r in origins(b, t['args'][2], stop_at_calls=True):
            if r[0] == 'agg':
                rv = b.blocks[r[1]]['s'][r[2]]['r']
                if 'value' in rv.get('fields', []):
                    wval |= origins(b, rv['ops'][rv['fields'].index('value')])
            elif r[0] == 'call':
                # Value::from(next): the string handed to the constructor
                ct = b.term(r[1])
                if ct['args']:
                    wval |= origins(b, ct['args'][0])
    for p in posts:
        pt = b.term(p)
        cb = m.prog.bodies.get(callee(pt))
        if cb is None:
            # inline notification (locks Watchers.map directly): the key indexes the watcher map
            for bi, t2 in b.calls():
                if callee_decl(t2).split('::')[-1] in ('get', 'get_mut') and 'Sender' in t2['f'].get('dargs', ''):
                    if origins(b, t2['args'][1]) & wkey:
                        return True, 'inline notification indexed by the written key'
            return False, 'inline notification does not use the written key'
        nkey = origins(b, pt['args'][1]) if len(pt['args']) > 1 else set()
        nval = origins(b, pt['args'][2]) if len(pt['args']) > 2 else set()
        if not (nkey & wkey):
            return False, 'the notification key does not originate where the written key does'
        if meth == 'insert' and wval and not (nval & wval):
            return False, 'the notified value does not originate where the written value does'
    return True, 'key and value of the notification are the written ones'



def refused_write_silent(ck, m):
    from props.C02 import resolver_fn, strategy_switch, store_fn
    P = m.prog
    rb = resolver_fn(m)
    sb = store_fn(m)
    sw = strategy_switch(m, rb)
    if sw is None:
        ck.undecided('C03.h', short(rb.id), 'strategy-switch', 'no switch over ConsensuStrategy in the resolver')
        return
    sbi, tm = sw
    arb = tm.get('Arbiter')
    others = {t_ for k, t_ in tm.items() if k != 'Arbiter'}
    region = {x for x in rb.reachable() if rb.dominates(arb, x) and not any(rb.dominates(o, x) for o in others)}
    bad = []
    n = 0
    for x in sorted(region):
        tx = rb.term(x)
        if tx['k'] != 'call' or callee(tx) != sb.id:
            continue
        n += 1
        # the Change handed to the store: where does its key come from?
        for r in origins(rb, tx['args'][1], stop_at_calls=True):
            if r[0] == 'agg':
                rv = rb.blocks[r[1]]['s'][r[2]]['r']
                if rv.get('adt', '').endswith('bo::Change') and 'key' in rv.get('fields', []):
                    kop = rv['ops'][rv['fields'].index('key')]
                    for r2 in origins(rb, kop):
                        flds = [q[2] for q in r2[-1] if q[0] == 'f']
                        if r2[0] == 'param' and r2[1] == 2 and flds[-2:] == ['change', 'key'] or (r2[0] == 'param' and flds[-1:] == ['key'] and 'change' in flds):
                            bad.append(rb.loc(x))
            elif r[0] == 'param' and r[1] == 2:
                bad.append(rb.loc(x))
    ck.ob('C03.h', short(rb.id), 'refusal-notifies-nobody', not bad,
          'the Arbiter arm stores only its conflict record through the notifying store (%d call), never the refused key' % n if not bad else
          'the Arbiter arm calls the notifying store with the key of the refused change (%s): subscribers of the key receive changed / '
          'changed-version … -2 for a write that was answered with an error' % bad, rb.loc(arb))


def raw_writer_keeps_value(ck, m):
    """C03.i — see RULES"""
    P = m.prog
    VM = 'std::collections::HashMap::<std::string::String, nundb::bo::Value>::'
    from props.C02 import store_fn, increment_fn, remover_fn
    named = {store_fn(m).id, increment_fn(m).id, remover_fn(m).id}
    # raw writers: Database methods that insert into the map, take the value as a string parameter, return nothing, and are not one
    # of the three notifying mutators
    raws = []
    for b in P.user_bodies():
        if b.kind != 'method' or b.id in named or b.locals[0] != '()' or b.argc < 3 or not b.locals[1].endswith('bo::Database'):
            continue
        if any(t['f'].get('dargs', '').startswith(VM + 'insert') for _, t in b.calls()):
            vals = [i for i in range(2, b.argc + 1) if core.is_str_ty(b.locals[i])]
            if len(vals) >= 2:
                raws.append((b, vals[1]))       # (key, value, …): the second string parameter is the value
    ck.floor('C03.i', len(raws), 1, 'raw entry writers (insert without notification)')
    n = 0
    for rb_, vi in raws:
        for cb, cbi in P.callers().get(rb_.id, []):
            if cb.id.startswith(('nundb::client::', 'nundb::command_line::')):
                continue
            t = cb.term(cbi)
            if len(t['args']) < vi:
                continue
            n += 1
            from_change = []
            for r in origins(cb, t['args'][vi - 1]):
                path = r[-1] if isinstance(r[-1], tuple) else ()
                adts = [q[3] for q in path if q and q[0] == 'f' and len(q) > 3]
                if any(a.endswith('bo::Change') for a in adts):
                    from_change.append('.'.join(q[2] for q in path if q and q[0] == 'f'))
            ck.ob('C03.i', short(cb.id), 'raw-write-keeps-the-value:%s' % short(rb_.id), not from_change,
                  'the value handed to the raw writer is the entry\'s own value' if not from_change else
                  '%s stores the value of a Change (%s) through %s, which does not notify: the write is committed — get returns it — and no '
                  'watcher of the key receives a notification for it' % (short(cb.id), from_change, short(rb_.id)), cb.loc(cbi))
    ck.floor('C03.i', n, 1, 'calls of the raw entry writer')
