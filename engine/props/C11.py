"""C11 — a crash during a snapshot never damages previously persisted data.

Decides an ordering discipline over the file operations of the disk snapshot (each rule names the
crash point it closes): (a) value bytes reach the file before any key record that points at them —
every write to the key file (the in-place update, the flush of the key appender) is preceded by a
flush of the value writer; (b) files of the previous generation are removed only after the new
generation is complete; (c) data files are never truncated or created over, and the reclaiming path
renames before it opens the new file; (d) the in-place update of one key is ONE write call;
(e) every artefact the writer leaves for recovery has a reader in the loader; (f) the loader has no
may-panic site on short or garbled reads.
Does NOT decide the outcome at each crash instant (that is execution), torn writes inside one write
call, fsync / power loss.
"""
from nl import core, codec, panics, locks
from nl.core import origins, callee, callee_decl, is_log, const_str, const_val
from nl.model import short

RULES = {
    'C11.a': 'values are flushed before any key-file write that can point at them (in-place updates and the final flush order)',
    'C11.b': 'a previous-generation data file is removed only after the writer has flushed the new generation',
    'C11.c': 'no truncate(true) / File::create / set_len on any file the snapshot path rewrites (data files, metadata, global key map, flag); '
             'no positional write except the in-place key update; the reclaiming path renames before opening the new file',
    'C11.d': 'the in-place update of a key record is a single write call',
    'C11.e': 'every file suffix the snapshot leaves behind is opened by the loader',
    'C11.f': 'the loader of the data files has no unwrap / expect / index that a short or garbled file can trigger',
    'C11.g': 'the addresses the in-place key update writes at are right: the key-file size is measured after the reclaiming rename (C06.g), the loader advances its running offset for every record (C06.h), the writer records an offset before it advances it (C06.i)',
    'C11.h': 'the loader keeps every key record it reads: inside its record loop the only conditions that decide whether the entry is '
             'inserted are the deleted-version marker and the end-of-file test of a read — a size / bounds test that skips a record drops a '
             'previously persisted key (its old value becomes unreachable too)',
    'C11.i': 'a space-reclaiming snapshot rewrites both data files from the selected entries and deletes the old files: its selection is '
             'total — every value the selection predicate can return is `true` or the reclaim flag itself; an entry the predicate can refuse '
             'while reclaiming is in neither new file and its old value is gone',
}


def run(ck, m):
    _run(ck, m)
    # the in-place key update writes at the key_disk_addr kept in memory: a wrong address damages a NEIGHBOUR's record at the next
    # incremental snapshot.  The three address rules are C06's (g, h, i); their verdicts are repeated here because "never a changed
    # neighbour" depends on them
    from nl import report
    from props import C06
    ck.rule('C11.g', 'the addresses the in-place key update writes at are right: the key-file size is measured after the reclaiming rename '
                     '(C06.g), the loader advances its running offset for every record (C06.h), the writer records an offset before it '
                     'advances it (C06.i), an appended key record is remembered where it was appended (C06.o)')
    tmp = report.Check('C06', 'quick', 0)
    try:
        C06.offsets_rules(tmp, m)
        C06.appended_key_remembered_where_appended(tmp, m)
    except Exception as e:      # fail closed
        ck.undecided('C11.g', 'offsets', 'rules', 'C06.g-i could not be evaluated: %s' % e)
    n = 0
    for o in tmp.obs:
        if o['rule'] in ('C06.g', 'C06.h', 'C06.i', 'C06.o'):
            n += 1
            parts = o['key'].split(':', 2)
            ck.ob('C11.g', parts[1], parts[2] if len(parts) > 2 else 'rule', o['verdict'] == 'discharged', o['what'], o['loc'], verdict=o['verdict'])
    ck.floor('C11.g', n, 3, 'address rules of C06 evaluated')
    one_mode_rule(ck, m)
    loader_is_read_only(ck, m)
    value_appended_before_its_key_record(ck, m)
    old_key_file_set_aside_before_the_value_file_goes(ck, m)


def _run(ck, m):
    for k, v in RULES.items():
        ck.rule(k, v)
    P = m.prog
    wr = [b for b in P.user_bodies() if b.id.endswith('NodeDrive::storage_data_disk')]
    if not wr:
        ck.undecided('C11.a', 'writer', 'anchor', 'disk snapshot writer not found')
        return
    wb = wr[0]
    fn = short(wb.id)
    # the three writers: key appender, value appender (BufWriter<File>), key updater (File)
    # identify by the helper that produced them
    def producer_of(local):
        for (bi, si, kind, pl) in wb.defs().get(local, []):
            if kind == 'call':
                return callee(pl).split('::')[-1]
            if kind == 'assign' and pl['k'] == 'use':
                p = pl['o'].get('m') or pl['o'].get('c')
                if p:
                    # tuple field of a helper's result
                    for (b2, s2, k2, pl2) in wb.defs().get(p['l'], []):
                        if k2 == 'call':
                            return callee(pl2).split('::')[-1]
        return None
    flushes = []
    for bi, t in wb.calls():
        # BufWriter::seek / stream_position / rewind / into_inner write the buffer out first: they are flushes in disguise
        recv_ty = wb.locals[(t['args'][0].get('m') or t['args'][0].get('c') or {'l': 0})['l']] if t['args'] and (t['args'][0].get('m') or t['args'][0].get('c')) else ''
        hidden = callee_decl(t) in ('std::io::Seek::seek', 'std::io::Seek::stream_position', 'std::io::Seek::rewind', 'std::io::BufWriter::into_inner') \
            and 'BufWriter' in (t['f'].get('dargs', '') + recv_ty)
        if callee_decl(t) == 'std::io::Write::flush' or hidden:
            base = codec.ultimate_local(wb, (t['args'][0].get('m') or t['args'][0].get('c'))['l'])
            prod = producer_of(base)
            # field-sensitive: the writers may travel together in a struct (`out.values_file.flush()`)
            named = sorted({callee(wb.term(r[1])).split('::')[-1] for r in origins(wb, t['args'][0], stop_at_calls=True) if r[0] == 'call'}
                           | {callee(wb.term(r[1])).split('::')[-1] for r in origins(wb, t['args'][0]) if r[0] == 'call'})
            named = [x for x in named if 'file' in x or 'mode' in x]
            if len(named) == 1:
                prod = named[0]
            flushes.append((bi, base, prod))
    vflush = [bi for bi, base, p in flushes if p and 'values' in p]
    kflush = [bi for bi, base, p in flushes if p and 'key' in p]
    ck.floor('C11.a', len(flushes), 3, 'flush calls in the snapshot writer')
    ok = bool(vflush) and bool(kflush) and all(any(wb.dominates(v, k) for v in vflush) for k in kflush)
    ck.ob('C11.a', fn, 'final-flush-order', ok,
          'the value file is flushed before the key files' if ok else
          'the key files are flushed (%s) before the value file (%s): a crash in between leaves key records pointing past the end of the '
          'value file' % ([wb.loc(k) for k in kflush], [wb.loc(v) for v in vflush]), wb.loc(kflush[0]) if kflush else '')
    # ... and before anything else is touched: a file that the snapshot opens after its record loop (the metadata file) is opened only
    # when the three data streams are on disk — a kill (or a blocking open) inside that step otherwise falls between the in-place key
    # updates / the reclaiming renames, which are done, and the buffered tails, which are lost
    from props.C07 import natural_loops as _nl11
    inl = set()
    for h_, body_ in _nl11(wb):
        inl |= body_
    def opens_files(b_, depth=0, seen=None):
        seen = seen if seen is not None else set()
        if b_.id in seen or depth > 3:
            return False
        seen.add(b_.id)
        for _bi, t_ in b_.calls():
            if callee_decl(t_) in ('std::fs::OpenOptions::open', 'std::fs::File::create', 'std::fs::File::open', 'std::fs::write', 'std::fs::rename'):
                return True
            cb2 = P.bodies.get(callee(t_))
            if cb2 is not None and opens_files(cb2, depth + 1, seen):
                return True
        return False
    after_loop = [bi for bi, t in wb.calls() if bi not in inl and not is_log(t) and P.bodies.get(callee(t)) is not None
                  and any(wb.dominates(x, bi) for x in inl) and opens_files(P.bodies[callee(t)])]
    tail_flushes = [bi for bi, base, p in flushes if bi not in inl]
    early = [wb.loc(bi) + ' ' + callee(wb.term(bi)).split('::')[-1] for bi in after_loop if not all(wb.dominates(f_, bi) for f_ in tail_flushes)]
    ck.ob('C11.a', fn, 'data-streams-flushed-before-other-files', bool(tail_flushes) and not early,
          'every file the snapshot opens after its record loop is opened after the flushes of the data streams' if tail_flushes and not early else
          'after the record loop the snapshot opens another file (%s) before its data streams are flushed: a kill inside that step leaves the '
          'in-place key updates (or the reclaiming renames) on disk and the buffered value / key tails nowhere — a key comes back with bytes '
          'that were never stored, or the keys of earlier snapshots are gone' % early, early[0].split(' ')[0] if early else wb.loc(tail_flushes[0]) if tail_flushes else '')
    # in-place updates happen inside the loop, before any flush of the values
    upd = [bi for bi, t in wb.calls() if callee(t).endswith('storage::disk::update_key')]
    okp = bool(upd) and all(any(wb.dominates(v, u) for v in vflush) for u in upd)
    ck.ob('C11.a', fn, 'in-place-update-after-value-flush', okp,
          'an in-place key update is preceded by a flush of the value it points at' if okp else
          'update_key writes the new value address into the key file (unbuffered write_at) while the value bytes are still in the '
          'BufWriter: a crash leaves the key pointing at bytes that were never stored', wb.loc(upd[0]) if upd else '')
    # appended key records: the key appender is a bounded BufWriter, it writes to the file by itself whenever it fills up; a key
    # record appended in the loop can therefore reach the file before the value it points at unless the values were flushed first
    key_appends = []
    for bi, t in wb.calls():
        cb_ = P.bodies.get(callee(t))
        if cb_ is None or is_log(t):
            continue
        names = {callee(t2).split('::')[-1] for _, t2 in cb_.calls()} | {callee(t).split('::')[-1]}
        if 'write_key' in names:
            key_appends.append(bi)
    oka = bool(key_appends) and all(any(wb.dominates(v, k) for v in vflush) for k in key_appends)
    ck.ob('C11.a', fn, 'appended-key-after-value-flush', oka,
          'a key record is appended only after the value writer was flushed' if oka else
          'key records are appended to a bounded BufWriter inside the loop (%s) while their values are still buffered: the key writer flushes '
          'by itself when it fills up, so a kill during the loop leaves key records that point past the end of the value file (the loader '
          'then yields the key with a value of NUL bytes that was never stored)' % [wb.loc(k) for k in key_appends][:3], wb.loc(key_appends[0]) if key_appends else '')
    # the relative buffer sizes decide how far the key file can run ahead of the value file
    caps = {}
    for hb in P.user_bodies():
        if not hb.id.startswith('nundb::storage::disk::') or 'append_mode' not in hb.id:
            continue
        for bi, t in hb.calls():
            if callee_decl(t) == 'std::io::BufWriter::with_capacity':
                vals = _const_eval(hb, t['args'][0])
                roots = sorted({str(r[:2]) for r in origins(hb, t['args'][0])})
                caps['values' if 'values' in hb.id else 'keys'] = (vals, roots, hb.loc(bi))
    if 'values' in caps and 'keys' in caps:
        (vv, vr, vloc), (kv, kr, kloc) = caps['values'], caps['keys']
        same_expr = vr == kr
        numeric = bool(vv) and bool(kv) and all(isinstance(x, int) for x in vv + kv)
        okc = same_expr or (numeric and max(vv) <= min(kv))
        ck.ob('C11.a', 'storage::disk', 'value-buffer-not-larger-than-key-buffer', okc,
              'the value appender buffers no more than the key appender' if okc else
              'the value appender buffers more (%s at %s) than the key appender (%s at %s): whole batches of key records reach the file while '
              'all their values are still in memory' % (vv or vr, vloc, kv or kr, kloc), vloc)
    else:
        ck.undecided('C11.a', 'storage::disk', 'buffer-sizes', 'capacities of the two appenders not found')
    # ---- (b) / (c) ---------------------------------------------------------------------
    removers = []
    for b in P.user_bodies():
        if not (b.id.startswith('nundb::storage::disk::') or b.id.startswith('nundb::disk_ops::')):
            continue
        for bi, t in b.calls():
            if callee_decl(t) == 'std::fs::remove_file':
                # which suffix?
                sfx = set()
                for bj, f in core.string_builders(b):
                    txt = f.text()
                    for s_ in ('.values', '.keys', '.old'):
                        if s_ in txt:
                            sfx.add(s_)
                removers.append((b, bi, sfx))
    n = 0
    for b, bi, sfx in removers:
        if not ({'.values', '.keys'} & sfx):
            continue
        n += 1
        # reached from the writer before it has written anything?  (the opener helpers run first)
        called_by_writer_start = any(cb.id == wb.id for cb, _ in P.callers().get(b.id, [])) and \
            all(wb.dominates(cbi, x) for cb, cbi in P.callers().get(b.id, []) if cb.id == wb.id for x in vflush)
        after = not called_by_writer_start
        # called from somewhere else (the snapshot driver): there it must come after the writer
        for cb, cbi in P.callers().get(b.id, []):
            if cb.id == wb.id:
                continue
            wcalls = [x for x, t2 in cb.calls() if callee(t2).endswith('Databases>::storage_data') or callee(t2) == wb.id]
            if wcalls and not any(cb.dominates(w, cbi) for w in wcalls):
                after = False
        what = 'values' if '.values' in sfx else 'keys'
        ck.ob('C11.b', short(b.id), 'remove-after-new-generation:%s' % what, after,
              'the old %s file is removed only after the snapshot writer returned' % what if after else
              '%s removes the previous %s file before the new one is written: a crash during the reclaiming snapshot loses every '
              'previously persisted value' % (short(b.id), what), b.loc(bi))
    ck.floor('C11.b', n, 2, 'removers of data files')
    trunc = []
    nscope = 0
    for b in P.user_bodies():
        # every file the snapshot path rewrites: the data files, the metadata file, the global key map, the oplog flag
        if not b.id.startswith(('nundb::storage::disk::', 'nundb::disk_ops::', 'nundb::storage::common::')):
            continue
        nscope += 1
        for bi, t in b.calls():
            d = callee_decl(t)
            if d in ('std::fs::File::create', 'std::fs::File::set_len', 'std::fs::File::create_new'):
                trunc.append('%s@%s' % (short(b.id), b.loc(bi)))
            elif d == 'std::fs::OpenOptions::truncate':
                vals = [core.const_val(r) for r in origins(b, t['args'][1])] if len(t['args']) > 1 else [True]
                if vals != [False]:
                    trunc.append('%s@%s' % (short(b.id), b.loc(bi)))
    ck.floor('C11.c', nscope, 40, 'bodies of the persistence modules scanned for truncating opens')
    # positional writes: the append-only files (values, keys appender, metadata) are never written at an offset; the one
    # positional write of the snapshot path is the in-place key update judged by C11.d
    positional = []
    for b in P.user_bodies():
        if not b.id.startswith(('nundb::storage::disk::', 'nundb::storage::common::')):
            continue
        for bi, t in b.calls():
            d = callee_decl(t)
            if d.endswith(('FileExt::write_at', 'FileExt::write_all_at', 'FileExt::seek_write')):
                positional.append((b, bi))
    allowed = [(b, bi) for b, bi in positional if b.id.endswith('storage::disk::update_key')]
    extra = [(b, bi) for b, bi in positional if (b, bi) not in allowed]
    ck.ob('C11.c', 'storage::disk', 'append-only-except-key-update', bool(allowed) and not extra,
          'the only positional write of the disk snapshot is the in-place key update' if allowed and not extra else
          'positional write outside the in-place key update at %s: previously persisted bytes (a value record) are overwritten before the '
          'key record that describes them switches — a kill in between leaves a value that was never stored under the old version'
          % ['%s@%s' % (short(b.id), b.loc(bi)) for b, bi in extra], extra[0][0].loc(extra[0][1]) if extra else '')
    ck.ob('C11.c', 'storage::disk', 'no-truncate', not trunc,
          'no File::create / truncate on the data files' if not trunc else 'data files can be truncated: %s' % trunc, '')
    ren_ok = True
    for b in P.user_bodies():
        if b.id.startswith('nundb::storage::disk::') and 'append_mode' in b.id:
            ren = [bi for bi, t in b.calls() if callee_decl(t) == 'std::fs::rename']
            opn = [bi for bi, t in b.calls() if callee_decl(t) == 'std::fs::OpenOptions::open']
            if ren and opn and not all(not b.dominates(o, r) for o in opn for r in ren):
                ren_ok = False
    ck.ob('C11.c', 'storage::disk', 'rename-before-open', ren_ok, 'reclaim renames the old file before the new one is opened', '')
    # ---- (d) ---------------------------------------------------------------------------
    uk = [b for b in P.user_bodies() if b.id.endswith('storage::disk::update_key')]
    if uk:
        writes = [bi for bi, t in uk[0].calls() if callee_decl(t) in codec.WRITE_FNS and not callee_decl(t).endswith('extend_from_slice')]
        ck.ob('C11.d', short(uk[0].id), 'single-write', len(writes) == 1,
              'version and address are written by one call' if len(writes) == 1 else
              'the in-place update is %d separate write_at calls (version, then address): a crash between them leaves a key with the new '
              'version and the old address' % len(writes), '%s:%s' % (uk[0].file, uk[0].line))
    # ---- (e) ---------------------------------------------------------------------------
    written = set()
    for b in P.user_bodies():
        if b.id.startswith('nundb::storage::disk::') and ('append_mode' in b.id or 'write_' in b.id):
            for bj, f in core.string_builders(b):
                txt = f.text()
                for piece in txt.replace('{std::string::String}', ' ').replace('{&std::string::String}', ' ').split():
                    if piece.startswith('.'):
                        written.add(piece)
    loader = [b for b in P.user_bodies() if b.id.endswith('storage::disk::create_db_from_file_name') or b.id.endswith('get_key_value_files_name_from_file_name')
              or b.id.endswith('load_one_db_from_disk')]
    read = set()
    for b in loader:
        for bj, f in core.string_builders(b):
            for piece in f.text().replace('{std::string::String}', ' ').split():
                if piece.startswith('.'):
                    read.add(piece)
    left = {'.old'} & written
    unread = sorted(s_ for s_ in left if s_ not in read)
    ck.ob('C11.e', 'storage::disk', 'backup-has-a-reader', not unread,
          'every recovery artefact has a reader' if not unread else
          'the writer leaves %s files behind (the renamed previous key file) but the loader never opens them: after a crash during a '
          'reclaiming snapshot the only complete key file is ignored' % unread, '')
    # ---- (f) ---------------------------------------------------------------------------
    L = locks.LockModel(P)
    C = panics.Census(P, L)
    ld = [b for b in P.user_bodies() if b.id.endswith('storage::disk::create_db_from_file_name')]
    if ld:
        b = ld[0]
        sites = [s for s in C.direct(b) if s.cls != 'lock-result' and s.cls != 'assert']
        bad = ['%s of %s at %s' % (s.what, s.detail.split('#')[0], s.loc()) for s in sites]
        ck.ob('C11.f', short(b.id), 'loader-panic-free', not bad,
              'the loader never unwraps a read' if not bad else
              'the loader unwraps %d reads/decodes (%s …): a key file cut short by a crash makes the next start panic instead of '
              'ignoring the torn tail' % (len(bad), '; '.join(bad[:3])), '%s:%s' % (b.file, b.line))

    # the files a start-up reads may be cut short at any byte by a kill during their first write (metadata: create, id, strategy are
    # three steps).  The tolerant `read` leaves the buffer's default; a `read_exact` whose result is unwrapped turns the short file
    # into a panic of the loader thread, i.e. into a start that fails for every database
    exact = []
    nread = 0
    for b in P.user_bodies():
        if not b.id.startswith(('nundb::storage::disk::', 'nundb::disk_ops::', 'nundb::storage::common::')):
            continue
        for bi, t in b.calls():
            d = callee_decl(t)
            if d in ('std::io::Read::read', 'std::io::Read::read_exact', 'std::io::Read::read_to_end', 'std::io::Read::read_to_string'):
                nread += 1
            if d != 'std::io::Read::read_exact':
                continue
            users = [callee_decl(t2) for x, t2 in b.calls() if any(r[0] == 'call' and r[1] == bi for a in t2['args']
                                                                   for r in origins(b, a, stop_at_calls=True))]
            if any(u.endswith(('Result::unwrap', 'Result::expect')) for u in users):
                exact.append('%s@%s' % (short(b.id), b.loc(bi)))
    ck.ob('C11.f', 'storage::disk', 'no-unwrapped-read_exact', not exact,
          'no reader of the persistence modules unwraps a read_exact (%d read calls examined)' % nread if not exact else
          'read_exact(..).unwrap() at %s: a file cut short by a kill during its first write (a metadata file of 0 or 8 bytes) makes the '
          'next start panic with UnexpectedEof while it loads the databases — none of them is available any more' % exact, exact[0] if exact else '')
    ck.floor('C11.f', nread, 8, 'read calls in the persistence modules')
    loader_keeps_every_record(ck, m)
    reclaim_selects_every_entry(ck, m)


def reclaim_selects_every_entry(ck, m):
    """C11.i — see RULES"""
    from props.C06 import selection_shape
    shp = selection_shape(m)
    n = 1 if shp['found'] else 0
    if shp['found']:
        sb = shp['body']
        ck.ob('C11.i', short(sb.id.split('::{closure')[0]), 'reclaim-selection-total', shp['total_when_reclaim'],
              'with the reclaim flag set the selection takes every entry (%s)' % shp['why'] if shp['total_when_reclaim'] else
              'the selection of the snapshot can refuse an entry while the reclaim flag is set (%s): an entry it refuses (a key waiting for the '
              'arbiter, …) is written to neither rewritten file, the old value file is deleted and the backup removed — a previously persisted '
              'key is gone after the next restart' % shp['why'], '%s:%s' % (sb.file, sb.line))
    ck.floor('C11.i', n, 1, 'selection predicates of the snapshot (entry filter with a reclaim flag)')


def loader_keeps_every_record(ck, m):
    """C11.h — see RULES"""
    from props.C07 import natural_loops
    from nl.locks import backward_slice
    P = m.prog
    ld = [b for b in P.user_bodies() if b.id.endswith('storage::disk::create_db_from_file_name')]
    if len(ld) != 1:
        ck.undecided('C11.h', 'loader', 'anchor', 'disk loader not found')
        return
    lb = ld[0]
    VM = 'std::collections::HashMap::<std::string::String, nundb::bo::Value>::insert'
    n = 0
    for h, body in natural_loops(lb):
        ins = [bi for bi in body if lb.term(bi)['k'] == 'call' and lb.term(bi)['f'].get('dargs', '').startswith(VM)]
        reads = [bi for bi in body if lb.term(bi)['k'] == 'call' and callee_decl(lb.term(bi)).startswith('std::io::Read::read')]
        if not ins or not reads:
            continue
        n += 1
        extra = []
        ordered = []
        for sb in sorted(body):
            ts = lb.term(sb)
            if ts['k'] != 'switch':
                continue
            succ = [x for x in lb.succ(sb) if not lb.blocks[x].get('cleanup')]
            can = [any(i_ in lb.reach_from([x], stop=lambda y: y == h or y not in body, include_start=True) for i_ in ins) for x in succ]
            if all(can) or not any(can):
                continue
            # what the deciding value is made of
            consts, srcs = set(), []
            pl = ts['o'].get('c') or ts['o'].get('m')
            direct = True
            cmp_ops = set()
            for (dbi, dsi, kind, rv) in (lb.defs().get(pl['l'], []) if pl else []):
                if kind == 'assign' and rv['k'] == 'bin':
                    direct = False
                    cmp_ops.add(rv['op'])
                    for k_ in ('a', 'b'):
                        rs = origins(lb, rv[k_], stop_at_calls=True)
                        consts |= {const_val(r) for r in rs if r[0] == 'const'}
                        srcs += [r for r in rs if r[0] != 'const']
                elif kind == 'assign' and rv['k'] == 'discr':
                    srcs += list(core.place_origins(lb, rv['p'], stop_at_calls=True))
            if direct and not srcs:
                srcs = list(origins(lb, ts['o'], stop_at_calls=True))
            marker = any(isinstance(c, int) and c < 0 for c in consts)
            # the end-of-file test: the Result of a read matched directly, or the count it returned compared with zero
            from_read = bool(srcs) and all(r[0] == 'call' and callee_decl(lb.term(r[1])).startswith('std::io::Read::read') for r in srcs)
            eof = from_read and (direct or consts == {0})
            if marker and not cmp_ops <= {'Eq', 'Ne'}:
                # the marker is ONE version: a test by ordering also skips every other negative version (the in-conflict marker -2 of a key
                # that waits for its arbiter)
                ordered.append(lb.loc(sb))
                continue
            if marker or eof:
                continue
            extra.append(lb.loc(sb))
        ck.ob('C11.h', short(lb.id), 'loader-keeps-every-record', not extra,
              'inside the record loop only the deleted marker and the end-of-file test decide whether an entry is inserted' if not extra else
              'the loader can skip a record on another condition (%s): a key whose record is on disk is not loaded — a bounds test that counts '
              'bytes the loader never reads (the status trailer still in the writer\'s buffer at the kill) drops an updated key together with its '
              'old value' % extra, extra[0] if extra else '')
        ck.ob('C11.h', short(lb.id), 'deleted-marker-tested-by-equality', not ordered,
              'the loader compares the record version with the deleted marker by equality' if not ordered else
              'the loader tests the deleted marker by ordering (%s): every version on the far side of the marker is skipped as well — a key frozen at '
              'the in-conflict version (-2) is dropped at start-up while its conflict record is restored, later writes are applied without the '
              'arbiter' % ordered, ordered[0] if ordered else '')
    ck.floor('C11.h', n, 1, 'record loops of the loader (read + insert)')


def _const_eval(b, operand, depth=0):
    """values of a constant integer expression (literals, *, +, -, casts); [] when not constant"""
    out = []
    for r in origins(b, operand):
        if r[0] == 'const':
            v = core.const_val(r)
            if isinstance(v, int) and not isinstance(v, bool):
                out.append(v)
            else:
                return []
        elif r[0] == 'arith' and depth < 6:
            rv = b.blocks[r[1]]['s'][r[2]]['r']
            if rv['k'] != 'bin':
                return []
            xs, ys = _const_eval(b, rv['a'], depth + 1), _const_eval(b, rv['b'], depth + 1)
            if len(xs) != 1 or len(ys) != 1:
                return []
            op = rv['op'].replace('WithOverflow', '').replace('Unchecked', '')
            if op == 'Mul':
                out.append(xs[0] * ys[0])
            elif op == 'Add':
                out.append(xs[0] + ys[0])
            elif op == 'Sub':
                out.append(xs[0] - ys[0])
            else:
                return []
        else:
            return []
    return out


def one_mode_rule(ck, m, rule='C11.j'):
    """C11.j / C06.r — see RULES"""
    from nl import locks
    P = m.prog
    ck.rule(rule, 'a snapshot runs in ONE mode: the selection of the entries to write, the opening of the data files (append, or rename / remove and '
                  'start again) and the per-entry decisions all test the same reclaim flag — a flag that is switched on after the entries were '
                  'selected (an automatic compaction decided halfway) renames and deletes the old files while only the changed entries are written '
                  'to the new ones: every untouched key is gone from the disk, at once and not only after a crash')
    wr = [b for b in P.user_bodies() if b.id.endswith('NodeDrive::storage_data_disk')]
    if not wr:
        ck.undecided(rule, 'writer', 'anchor', 'disk snapshot writer not found')
        return
    wb = wr[0]
    flags = [i for i in range(1, wb.argc + 1) if wb.locals[i] == 'bool']
    if len(flags) != 1:
        ck.undecided(rule, short(wb.id), 'anchor', 'expected one bool parameter (the reclaim flag), found %d' % len(flags))
        return
    fp = flags[0]
    uses = []
    for bi in wb.reachable():
        if wb.blocks[bi].get('cleanup'):
            continue
        t = wb.term(bi)
        if t['k'] == 'call' and not is_log(t) and P.bodies.get(callee(t)) is not None:
            for a in t['args']:
                p_ = a.get('m') or a.get('c')
                if p_ is not None and not p_.get('p') and wb.locals[p_['l']] == 'bool':
                    calls_, params_ = locks.backward_slice(wb, a)
                    if fp in params_:
                        uses.append(('argument of %s' % short(callee(t)), wb.loc(bi), frozenset(short(callee(wb.term(c))) for c in calls_ if not is_log(wb.term(c)))))
        elif t['k'] == 'switch':
            calls_, params_ = locks.backward_slice(wb, t['o'])
            if fp in params_ and not (params_ - {fp}):
                uses.append(('branch', wb.loc(bi), frozenset(short(callee(wb.term(c))) for c in calls_ if not is_log(wb.term(c)))))
    kinds = {u[2] for u in uses}
    okf = len(uses) >= 2 and len(kinds) == 1
    ck.ob(rule, short(wb.id), 'one-mode', okf,
          'the %d uses of the reclaim flag in the writer all see the same value (%s)' % (len(uses), sorted(next(iter(kinds))) or 'the parameter itself') if okf else
          'the uses of the reclaim flag in the writer do not see the same value: %s' % sorted({'%s at %s depends on %s' % (u[0], u[1], sorted(u[2]) or 'the parameter only') for u in uses})[:6],
          '%s:%s' % (wb.file, wb.line))
    ck.floor(rule, len(uses), 3, 'uses of the reclaim flag in the snapshot writer')


FS_MUTATORS = ('std::fs::rename', 'std::fs::remove_file', 'std::fs::remove_dir_all', 'std::fs::remove_dir', 'std::fs::copy', 'std::fs::write',
               'std::fs::File::create', 'std::fs::File::set_len', 'std::fs::hard_link')


def loader_is_read_only(ck, m, rule='C11.k'):
    """C11.k — see RULES"""
    P = m.prog
    ck.rule(rule, 'loading a database changes no file: nothing reachable from the loader of the data files renames, removes, copies, creates or '
                  'truncates a file — a start-up "repair" that puts a left-over backup of ONE of the two data files back pairs an old key file with '
                  'the new value file (the offsets point into the wrong records), and it does so exactly after the kill the backup was kept for')
    ld = [b for b in P.user_bodies() if b.id.endswith('storage::disk::create_db_from_file_name')]
    if len(ld) != 1:
        ck.undecided(rule, 'loader', 'anchor', 'disk loader not found')
        return
    seen, st, bad = set(), [ld[0].id], []
    while st:
        bid = st.pop()
        if bid in seen or bid not in P.bodies:
            continue
        seen.add(bid)
        b = P.bodies[bid]
        for bi, t in b.calls():
            if is_log(t):
                continue
            d = callee_decl(t)
            if d in FS_MUTATORS or (d.startswith('std::fs::OpenOptions::') and d.split('::')[-1] in ('truncate', 'create', 'create_new', 'write', 'append')
                                    and not any(const_val(r) is False for a in t['args'][1:] for r in origins(b, a) if r[0] == 'const')):
                bad.append('%s in %s (%s)' % (d, short(bid), b.loc(bi)))
            if callee(t) in P.bodies:
                st.append(callee(t))
        st += [k for k in P.bodies if k.startswith(bid + '::{closure')]
    ck.ob(rule, short(ld[0].id), 'loader-changes-no-file', not bad,
          'the %d bodies reachable from the loader only read' % len(seen) if not bad else
          'the load path changes files: %s' % sorted(set(bad))[:4], '%s:%s' % (ld[0].file, ld[0].line))
    ck.floor(rule, len(seen), 2, 'bodies reachable from the loader')


def value_appended_before_its_key_record(ck, m, rule='C11.l'):
    """C11.l — see RULES"""
    P = m.prog
    ck.rule(rule, 'a key record is written after the value record it points at: in the snapshot writer (and the helpers it alone uses) every call '
                  'that writes a key record (append or in-place update) is dominated by the append of the value record of the same entry — a key '
                  'record that is updated in place first points, from that instant until the value is appended and flushed, at bytes that are not '
                  'there yet; a kill in between leaves a previously persisted key with a value that was never stored')
    wr = [b for b in P.user_bodies() if b.id.endswith('NodeDrive::storage_data_disk')]
    if not wr:
        ck.undecided(rule, 'writer', 'anchor', 'disk snapshot writer not found')
        return
    wb = wr[0]
    units = [wb] + [h for h in P.private_helpers(wb) if 'storage::' in h.id]
    n, bad = 0, []
    for ub in units:
        vals = [bi for bi, t in ub.calls() if callee(t).split('::')[-1] == 'write_value']
        keys = [(bi, callee(t).split('::')[-1]) for bi, t in ub.calls() if callee(t).split('::')[-1] in ('write_key', 'update_key')]
        for kb, nm in keys:
            # a record that keeps pointing at the value the entry already has on disk (the tombstone update of a removed key) needs no append
            def _fresh(a):
                p_ = a.get('m') or a.get('c')
                if p_ is None or ub.locals[p_['l']] != 'u64':
                    return False
                rs = origins(ub, a, stop_at_calls=True)
                return any(not (r[0] == 'const' or any(q[0] == 'f' and q[2] in ('key_disk_addr', 'value_disk_addr')
                                                        for q in (r[-1] if isinstance(r[-1], tuple) else ()))) for r in rs)
            if not any(_fresh(a) for a in ub.term(kb)['args']):
                continue      # points at nothing new: a constant (the tombstone) or the addresses the entry already has on disk
            n += 1
            if not any(ub.dominates(v, kb) for v in vals):
                bad.append('%s in %s (%s)' % (nm, short(ub.id), ub.loc(kb)))
    ck.ob(rule, short(wb.id), 'value-appended-before-its-key-record', n > 0 and not bad,
          'each of the %d key-record writes follows the append of its value record' % n if n > 0 and not bad else
          'a key record is written before the value record it points at is appended: %s' % sorted(set(bad)), '%s:%s' % (wb.file, wb.line))
    ck.floor(rule, n, 2, 'key-record writes of the snapshot writer')


def old_key_file_set_aside_before_the_value_file_goes(ck, m, rule='C11.m'):
    """C11.m — see RULES"""
    P = m.prog
    ck.rule(rule, 'a reclaiming snapshot sets the old key file aside before it destroys the old value file: in the snapshot writer the call that opens '
                  '(and, when reclaiming, renames) the key file dominates the call that opens (and, when reclaiming, deletes and re-creates) the '
                  'value file — the other way round, a kill between the two leaves the complete old key file pointing into an empty value file')
    wr = [b for b in P.user_bodies() if b.id.endswith('NodeDrive::storage_data_disk')]
    if not wr:
        ck.undecided(rule, 'writer', 'anchor', 'disk snapshot writer not found')
        return
    wb = wr[0]
    ko = [bi for bi, t in wb.calls() if callee(t).split('::')[-1] == 'get_key_file_append_mode']
    vo = [bi for bi, t in wb.calls() if callee(t).split('::')[-1] == 'get_values_file_append_mode']
    okf = bool(ko) and bool(vo) and all(any(wb.dominates(k, v) for k in ko) for v in vo)
    ck.ob(rule, short(wb.id), 'key-file-set-aside-first', okf,
          'the key file is opened / renamed before the value file is opened / emptied' if okf else
          'the value file is opened (emptied when reclaiming) at %s before the key file is set aside at %s' % ([wb.loc(v) for v in vo], [wb.loc(k) for k in ko]),
          '%s:%s' % (wb.file, wb.line))
