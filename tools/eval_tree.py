#!/usr/bin/env python3
"""eval_tree.py <tree> [Cxx ...] : evaluate the quick rules of the properties on an arbitrary source tree
(a scratch copy outside /repo and /verif) without writing evidence; prints every obligation that is not
discharged and not a listed known finding.  Used for experiments (benign-refactor robustness, mutants)."""
import sys, os, json
V = os.path.dirname(os.path.dirname(os.path.abspath(__file__)))
sys.path.insert(0, os.path.join(V, 'engine'))
from nl import selftest, report
tree = os.path.abspath(sys.argv[1])
pids = sys.argv[2:] or ['C%02d' % i for i in range(1, 21)]
known = {(k['property'], k['key']) for k in json.load(open(report.KNOWN)) if k.get('status') == 'known'}
tot = 0
for pid in pids:
    obs, err = selftest.run_on(pid, tree)
    if obs is None:
        print(pid, 'EXTRACT FAILED', err[-400:]); tot += 1; continue
    bad = [o for o in obs if o['verdict'] != 'discharged' and (pid, o['key']) not in known]
    print('%s: %d obligations, %d alarms' % (pid, len(obs), len(bad)))
    for o in bad:
        print('   [%s] %s | %s' % (o['verdict'], o['key'], o['what'][:220]))
    tot += len(bad)
sys.exit(1 if tot else 0)
