#!/bin/sh
# usage: confirm_iso.sh <worktree-root> <out-root> <P> : confirm every patch<n>.diff of <out-root>/<P> in <worktree-root>/<P>, each run in
# its own network / tmp namespace (tools/iso_run.sh), one after the other (they share the worktree); different properties may run side by side.
WT="$1/$3"; OUT="$2/$3"
git -C "$WT" checkout -- . ; git -C "$WT" clean -fdq src tests
for pf in "$OUT"/patch*.diff; do
  n=$(basename "$pf" .diff | sed 's/patch//')
  [ -f "$OUT/demo$n.diff" ] || { echo "$3 $n: no demo"; continue; }
  # already confirmed in an earlier run: skip
  grep -q '"confirmed": true' "$OUT/confirm$n.json" 2>/dev/null && { echo "$OUT/patch$n already CONFIRMED"; continue; }
  /verif/tools/iso_run.sh "$WT:$OUT" python3 /verif/tools/confirm_seed.py "$WT" "$OUT" "$n" 2>&1 | tail -1
done
