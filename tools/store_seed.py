#!/usr/bin/env python3
"""store_seed.py <property> <n> <outdir> [stored-number] : keep a confirmed seeded change as /verif/seeded/<property>-<n>/
(patch.diff, demo.diff, README.md = the author's description, confirm.json = my confirmation run, meta.json).
The patch is applied to /repo (git apply), all 20 quick checks are run, and it is undone straight afterwards."""
import sys, os, json, subprocess, shutil, re
pid, n, out = sys.argv[1], sys.argv[2], sys.argv[3]
sid = sys.argv[4] if len(sys.argv) > 4 else n      # number under which the seed is stored
V = os.path.dirname(os.path.dirname(os.path.abspath(__file__)))
conf = json.load(open(os.path.join(out, 'confirm%s.json' % n)))
if not conf.get('confirmed'):
    print('NOT CONFIRMED, not stored:', pid, n)
    sys.exit(1)
dst = os.path.join(V, 'seeded', '%s-%s' % (pid, sid))
os.makedirs(dst, exist_ok=True)
shutil.copy(os.path.join(out, 'patch%s.diff' % n), os.path.join(dst, 'patch.diff'))
shutil.copy(os.path.join(out, 'demo%s.diff' % n), os.path.join(dst, 'demo.diff'))
shutil.copy(os.path.join(out, 'README%s.md' % n), os.path.join(dst, 'README.md'))
json.dump({k: v for k, v in conf.items() if not k.endswith('_tail') or k == 'patch_plus_demo_tail'}, open(os.path.join(dst, 'confirm.json'), 'w'), indent=1)
assert subprocess.run(['git', '-C', '/repo', 'status', '--porcelain'], stdout=subprocess.PIPE, text=True).stdout.strip() == '', '/repo not clean'
subprocess.check_call(['git', '-C', '/repo', 'apply', os.path.join(dst, 'patch.diff')])
fires = {}
try:
    for i in range(1, 21):
        c = 'C%02d' % i
        r = subprocess.run([os.path.join(V, 'check'), c], cwd=V, stdout=subprocess.PIPE, stderr=subprocess.STDOUT, text=True)
        if r.returncode != 0:
            fires[c] = re.findall(r'rule=\S+ key=(\S+)', r.stdout)
finally:
    subprocess.check_call(['git', '-C', '/repo', 'checkout', '--', '.'])
readme = open(os.path.join(dst, 'README.md')).read()
meta = {
    'property': pid,
    'seed': '%s-%s' % (pid, sid),
    'author': 'independent sub-agent given only the property text and a scratch worktree',
    'needs_to_manifest': 'see README.md (author\'s description of the interleaving / crash point / sequence / input)',
    'demonstration': 'demo.diff adds the unit test(s) %s; on the unchanged tree they pass, with patch.diff applied they fail' % conf.get('tests'),
    'what_i_ran': [
        'scratch worktree of /repo HEAD under /tmp (removed afterwards)',
        'git apply demo.diff; cargo test --offline --lib <test>  -> passes',
        'git apply patch.diff (on top); cargo test --offline --lib <test>  -> fails',
        'git apply patch.diff alone; tools/baseline.py <worktree>  -> every stable_pass test of /root/.vp/BASELINE.json passes',
        'git -C /repo apply patch.diff; ./check C01..C20 (quick); git -C /repo checkout -- .',
    ],
    'caught_by': fires,
    'caught_by_targeted_property': pid in fires,
}
json.dump(meta, open(os.path.join(dst, 'meta.json'), 'w'), indent=1)
print(pid, n, 'stored; caught by', {k: v[:3] for k, v in fires.items()})
