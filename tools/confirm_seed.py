#!/usr/bin/env python3
"""confirm_seed.py <worktree> <outdir> <n> : confirm a sub-agent's seed in a scratch worktree:
 (1) unchanged tree + demo -> demo passes, (2) patch + demo -> demo fails, (3) patch alone -> baseline stable tests pass.
Writes <outdir>/confirm<n>.json"""
import sys, subprocess, re, json, os
wt, out, n = sys.argv[1], sys.argv[2], sys.argv[3]
env = dict(os.environ, CARGO_NET_OFFLINE='true')


def sh(cmd, **kw):
    return subprocess.run(cmd, shell=True, cwd=wt, env=env, stdout=subprocess.PIPE, stderr=subprocess.STDOUT, text=True, **kw)


def clean():
    sh('git checkout -- . && git clean -fdq src tests')


patch = os.path.join(out, 'patch%s.diff' % n)
demo = os.path.join(out, 'demo%s.diff' % n)
names = re.findall(r'^\+\s*(?:pub )?(?:async )?fn (\w+)\(', open(demo).read(), re.M)
tests = [x for x in names if 'demo' in x or x.startswith(('should', 'c0', 'c1', 'c2')) or True]
# the test functions are those preceded by #[test]
txt = open(demo).read()
tests = re.findall(r'#\[test\]\s*\n\+\s*(?:pub )?fn (\w+)', txt)
# a demonstration may be an integration test file under tests/ (run with --test <stem>) instead of a unit test (--lib)
itest = re.findall(r'^\+\+\+ b/tests/([\w\-]+)\.rs', txt, re.M)
target = '--test %s' % itest[0] if itest else '--lib'
res = {'seed': '%s/patch%s' % (out, n), 'tests': tests}
clean()
r = sh('git apply %s' % demo)
res['demo_applies'] = r.returncode == 0
# every demonstration test must pass on the unchanged tree; with the patch at least one of them must fail
oks, tails = [], []
for flt in tests or ['']:
    r = sh('cargo test --offline %s %s 2>&1 | tail -15' % (target, flt))
    oks.append('test result: ok' in r.stdout and ' 0 passed' not in r.stdout)
    tails.append(r.stdout[-400:])
res['unchanged_plus_demo'] = bool(oks) and all(oks)
res['unchanged_plus_demo_tail'] = '\n'.join(tails)[-1200:]
r = sh('git apply %s' % patch)
res['patch_applies_on_demo'] = r.returncode == 0
fails, tails = [], []
for flt in tests or ['']:
    r = sh('cargo test --offline %s %s 2>&1 | tail -40' % (target, flt))
    fails.append('test result: FAILED' in r.stdout or 'panicked' in r.stdout or 'SIGABRT' in r.stdout or 'stack overflow' in r.stdout)
    tails.append(r.stdout[-900:])
res['patch_plus_demo_fails'] = any(fails)
res['patch_plus_demo_tail'] = '\n'.join(x for x, f in zip(tails, fails) if f)[-1800:]
clean()
r = sh('git apply %s' % patch)
res['patch_applies_alone'] = r.returncode == 0
r = subprocess.run(['python3', '/verif/tools/baseline.py', wt], stdout=subprocess.PIPE, stderr=subprocess.STDOUT, text=True)
res['patch_alone_baseline'] = r.stdout[-600:]
res['patch_alone_baseline_ok'] = r.returncode == 0
clean()
res['confirmed'] = all(res[k] for k in ('demo_applies', 'unchanged_plus_demo', 'patch_applies_on_demo', 'patch_plus_demo_fails', 'patch_applies_alone', 'patch_alone_baseline_ok'))
json.dump(res, open(os.path.join(out, 'confirm%s.json' % n), 'w'), indent=1)
print(res['seed'], 'CONFIRMED' if res['confirmed'] else 'NOT CONFIRMED', {k: v for k, v in res.items() if isinstance(v, bool)})
