"""Thorough-tier self-test: every stored mutant of a property is applied to a scratch copy of /repo
(outside /repo and /verif), the property's rules are evaluated on it, and the rule must report a
violation whose key contains the mutant's expected fragment.  A rule that stays silent on its own
mutant is reported as a failure of the check ("rule is vacuous"), a mutant that no longer applies
to the tree is skipped and counted."""
import os, json, glob, shutil, subprocess, tempfile, importlib
from . import core, report, model

VERIF = core.VERIF


def scratch_copy(repo):
    d = tempfile.mkdtemp(prefix='nlmut_')
    for name in ('src', 'Cargo.toml', 'Cargo.lock', 'benches', 'tests'):
        p = os.path.join(repo, name)
        if os.path.isdir(p):
            shutil.copytree(p, os.path.join(d, name))
        elif os.path.exists(p):
            shutil.copy(p, os.path.join(d, name))
    return d


def run_on(pid, repo):
    """evaluate property pid on the tree at repo; returns list of obligations"""
    ck = report.Check(pid, 'thorough', 0)
    mod = importlib.import_module('props.' + pid)
    try:
        facts, info = core.extract('dev', repo=repo)
        m = model.Model(core.Prog(facts))
        m.tier = 'thorough'
        mod.run(ck, m)
    except core.AnchorError as e:
        ck.undecided('anchor', 'engine', 'missing', str(e))
    except core.ExtractError as e:
        return None, str(e)
    except Exception as e:
        ck.undecided('engine', 'engine', 'exception', '%s: %s' % (type(e).__name__, e))
    return ck.obs, None


def run(ck, pid):
    mdir = os.path.join(VERIF, 'selftest', pid)
    specs = sorted(glob.glob(os.path.join(mdir, '*.json')))
    try:
        known = {k['key'] for k in json.load(open(report.KNOWN)) if k.get('property') == pid and k.get('status') == 'known'}
    except (OSError, ValueError):
        known = set()
    applied = skipped = 0
    results = []
    items = []
    for sp in specs:
        items.append((json.load(open(sp)), sp[:-5] + '.patch', os.path.basename(sp)[:-5]))
    # the seeded changes written by independent sub-agents for this property are replayed as well: the
    # targeted property must keep reporting them (expected fragment = the rule id that caught them when stored)
    for md in sorted(glob.glob(os.path.join(VERIF, 'seeded', pid + '-*', 'meta.json'))):
        meta = json.load(open(md))
        keys = meta.get('caught_by', {}).get(pid) or []
        keys = [k for k in keys if '<floor>' not in k and not k.startswith(('engine', 'anchor'))]
        if not keys:
            continue
        items.append(({'what': 'seeded change ' + meta['seed'], 'expect': keys[0].split(':')[0] + ':'},
                      os.path.join(os.path.dirname(md), 'patch.diff'), 'seed-' + meta['seed']))
    for spec, patch, name in items:
        d = scratch_copy(core.REPO)
        try:
            p = subprocess.run(['patch', '-p1', '--fuzz=3', '-s', '-i', patch], cwd=d, stdout=subprocess.PIPE, stderr=subprocess.STDOUT, text=True)
            if p.returncode != 0:
                skipped += 1
                results.append({'mutant': name, 'result': 'does not apply to this tree (skipped)'})
                continue
            obs, err = run_on(pid, d)
            if obs is None:
                skipped += 1
                results.append({'mutant': name, 'result': 'mutated tree does not compile (skipped): ' + err[-300:]})
                continue
            applied += 1
            bad = [o for o in obs if o['verdict'] in ('violation', 'inconclusive') and o['key'] not in known]
            hit = [o for o in bad if spec['expect'] in o['key']]
            ok = bool(hit)
            results.append({'mutant': name, 'what': spec['what'], 'expect': spec['expect'],
                            'result': 'caught: ' + hit[0]['key'] if ok else 'MISSED (violations reported: %s)' % [o['key'] for o in bad][:5]})
            ck.ob('selftest', pid, 'mutant:' + name, ok,
                  'mutant "%s" (%s) is reported as %s' % (name, spec['what'], hit[0]['key']) if ok else
                  'the rules stay silent on their own mutant "%s" (%s): expected a violation containing %r, got %s'
                  % (name, spec['what'], spec['expect'], [o['key'] for o in bad][:5]), patch,
                  verdict='discharged' if ok else 'inconclusive')
        finally:
            shutil.rmtree(d, ignore_errors=True)
    ck.meta['selftest'] = {'mutants': len(items), 'applied': applied, 'skipped': skipped, 'results': results}
