#!/usr/bin/env python3
"""Run the repository's test suite (guard off — there are no hooks) and compare with the
pinned stable_pass list of /root/.vp/BASELINE.json.  usage: baseline.py [repo_dir]"""
import json, subprocess, sys, re, os
repo = sys.argv[1] if len(sys.argv) > 1 else '/repo'
base = json.load(open('/root/.vp/BASELINE.json'))
want = set(base['stable_pass'])
env = dict(os.environ, CARGO_NET_OFFLINE='true')
p = subprocess.run(['cargo', 'test', '--workspace', '--no-fail-fast', '--offline'], cwd=repo, env=env,
                   stdout=subprocess.PIPE, stderr=subprocess.STDOUT, text=True)
out = p.stdout
passed = set()
failed = set()
seen = set()
binary = None
in_fail = False
for line in out.splitlines():
    m = re.match(r'\s*Running (?:unittests )?(\S+)', line)
    if m:
        src = m.group(1)
        if src.startswith('src/lib'):
            binary = 'nun-db'
        elif src.startswith('src/bin'):
            binary = 'nun-db::bin/nun-db'
        elif src.startswith('tests/'):
            binary = 'nun-db::' + os.path.basename(src).replace('.rs', '')
        else:
            binary = 'nun-db::' + os.path.basename(src)
        in_fail = False
    if re.match(r'\s*Doc-tests (\S+)', line):
        binary = 'doc'
        in_fail = False
    # test output is interleaved with env_logger lines, so results are taken from the
    # per-binary "failures:" list: every test that started and is not listed there passed
    m = re.match(r'test (\S+)(?: - .*)? \.\.\.', line)
    if m and binary:
        seen.add('%s::%s' % (binary, m.group(1)))
    if line.strip() == 'failures:':
        in_fail = True
        continue
    if in_fail:
        m = re.match(r'^    (\S+)$', line)
        if m and binary:
            failed.add('%s::%s' % (binary, m.group(1)))
        elif line.startswith('test result'):
            in_fail = False
passed = seen - failed
missing = sorted(w for w in want if w not in passed)
# timing-sensitive tests (write_op_log_should_be_fast …) can fail under load: retry each alone, up to eight times
still = []
import time as _time


def _retry_alone(name):
    parts = name.split('::')
    if parts[0] == 'nun-db' and len(parts) > 2 and '-' not in parts[1]:
        tn = '::'.join(parts[1:])
        r = subprocess.run(['cargo', 'test', '--offline', '--lib', tn, '--', '--exact'], cwd=repo, env=env,
                           stdout=subprocess.PIPE, stderr=subprocess.STDOUT, text=True)
        return bool(re.search(r'test result: ok\. 1 passed', r.stdout))
    tn = parts[-1]
    r = subprocess.run(['cargo', 'test', '--offline', '--test', parts[1], tn], cwd=repo, env=env,
                       stdout=subprocess.PIPE, stderr=subprocess.STDOUT, text=True)
    return bool(re.search(r'test result: ok\. [1-9]', r.stdout))


for name in missing:
    for attempt in range(8):
        if attempt:
            _time.sleep(5)
        if _retry_alone(name):
            print('  (passed on retry alone: %s)' % name)
            break
    else:
        still.append(name)
missing = still
print('passed %d, failed %d, stable_pass %d, stable tests not passing: %d' % (len(passed), len(failed), len(want), len(missing)))
for mname in missing[:40]:
    print('  NOT PASSING:', mname)
open('/tmp/baseline_last.log', 'w').write(out)
sys.exit(1 if missing else 0)
