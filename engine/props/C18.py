"""C18 — S3 storage strategies restore what the disk strategy would.

Decides sibling obligations over the storage strategies (store + load of s3 and s3_patition, with the
disk strategy as the reference): (1) tombstones are not uploaded as live values; (2) an incremental
upload never replaces an object with a subset of the keys it held (the entries written into an object
come from a scan of everything that belongs in it); (3) the per-database metadata (id, conflict
strategy) is read back, not a literal; (4) the result of every upload is consumed: a failed upload
is retried and then surfaced; (5) the record layout written equals the layout read, per strategy.
Does NOT decide anything about a real S3 endpoint, nor equality with the disk strategy over histories
(these strategies cannot be exercised in this sandbox).
"""
from nl import core, codec
from nl.core import origins, callee, callee_decl, is_log, const_val
from nl.model import short

RULES = {
    'C18.1': 'the uploader looks at the entry state (Deleted) before serialising an entry as a live value',
    'C18.2': 'the entries written into an uploaded object come from a scan of every key that belongs in the object, not only '
             'from the changed keys',
    'C18.3': 'the loader builds DatabaseMataData from stored bytes, not from literals',
    'C18.4': 'the result of the upload call is consumed (matched / retried) and a failure is surfaced',
    'C18.5': 'object record layout written = layout read',
    'C18.6': 'every attempt of a retried upload sends the whole object: the closure handed to the retry helper takes no byte buffer that it shares with the other attempts by &mut',
}

STRATS = {'s3': 'nundb::storage::s3::', 's3_patition': 'nundb::storage::s3_partition::'}


def family(P, prefix, stem):
    """bodies (and their closures / coroutines) of one strategy whose id contains stem"""
    return [b for b in P.user_bodies() if b.id.startswith(prefix) and stem in b.id]


def run(ck, m):
    for k, v in RULES.items():
        ck.rule(k, v)
    P = m.prog
    from props.C01 import state_tests
    n = 0
    for name, prefix in STRATS.items():
        store = family(P, prefix, 'storage_data_on_cloud')
        load = family(P, prefix, 'read_data_from_cloud')
        upload = family(P, prefix, 'store_buffer_to_s3')
        if not store or not load or not upload:
            ck.undecided('C18.1', name, 'anchors', 'store/load/upload bodies of %s not found' % name)
            continue
        n += 1
        root = [b for b in store if b.kind in ('fn', 'method')][0]
        # (1) tombstones
        tests = sum(1 for b in store for bi, t in b.calls()
                    if callee_decl(t) in ('std::cmp::PartialEq::eq', 'std::cmp::PartialEq::ne') and 'ValueStatus' in t['f'].get('dargs', ''))
        discr = sum(1 for b in store for bl in b.blocks for s in bl['s'] if s['k'] == 'assign' and s['r']['k'] == 'discr'
                    and s['r']['adt'].endswith('bo::ValueStatus'))
        # writing the state bytes does not count as looking at it; the loader must then honour them
        loader_uses_status = any(callee(t).endswith('ValueStatus as std::convert::From<i32>>::from') for b in load for _, t in b.calls())
        writes_state = False
        for b in store:
            for w, src, bi in codec.write_layout(b):
                if src and 'state' in src:
                    writes_state = True
        ok1 = (tests + discr) > 0 or (writes_state and loader_uses_status)
        ck.ob('C18.1', name, 'tombstones-not-live', ok1,
              '%s tests the entry state before uploading' % name if ok1 else
              '%s serialises every selected entry as a live value (state tested: no; state written and honoured by the loader: %s/%s): '
              'a removed key comes back after a restart holding the string <Empty>' % (name, writes_state, loader_uses_status),
              '%s:%s' % (root.file, root.line))
        # (2) subset overwrite: the loop that serialises entries iterates the result of ...
        scans = []
        for b in store:
            for bi, t in b.calls():
                cn = callee(t)
                if cn.endswith('storage::common::get_keys_by_filter'):
                    scans.append(('full-scan', b, bi))
                if cn.endswith('storage::common::get_keys_to_update'):
                    scans.append(('changed-only', b, bi))
        # which scan feeds the serialisation (put_slice / write calls)?
        feeds = set()
        for b in store:
            lay = codec.write_layout(b)
            if not lay:
                continue
            for kind, sb, sbi in scans:
                if sb.id != b.id:
                    continue
                for w, src, wbi in lay:
                    from nl.locks import backward_slice
                    calls, params = backward_slice(b, b.term(wbi)['args'][1])
                    if sbi in calls:
                        feeds.add(kind)
        ok2 = feeds == {'full-scan'}
        ck.ob('C18.2', name, 'no-subset-overwrite', ok2,
              '%s serialises the result of a scan of the whole partition' % name if ok2 else
              '%s serialises only the keys selected by get_keys_to_update into a fixed-name object (%s): after an incremental '
              'snapshot the object holds just the changed keys, every untouched key is lost on restart' % (name, sorted(feeds)),
              '%s:%s' % (root.file, root.line))
        # (3) metadata
        lits = []
        for b in load:
            for bi, t in b.calls():
                if callee(t).endswith('bo::DatabaseMataData::new'):
                    idv = [const_val(r) for r in origins(b, t['args'][0]) if r[0] == 'const']
                    st = core.enum_variants_of(b, t['args'][1])
                    lits.append((idv, sorted(st), b.loc(bi)))
        ok3 = bool(lits) and all(not idv and '?' in st for idv, st, loc in lits)
        ck.ob('C18.3', name, 'metadata-read-back', ok3,
              '%s restores id and strategy from stored bytes' % name if ok3 else
              '%s gives every loaded database the literal metadata %s: id and conflict strategy are not restored' % (name, [(i, s_) for i, s_, _ in lits]),
              lits[0][2] if lits else '')
        # (4) upload result consumed
        consumed = []
        for b in store:
            for bi, t in b.calls():
                if 'block_on' in callee_decl(t):
                    d = t['d']
                    if d.get('p'):
                        continue
                    dest = d['l']
                    used = False
                    for b2i, bl in enumerate(b.blocks):
                        tt = bl['t']
                        if tt['k'] == 'switch':
                            for r in origins(b, tt['o']):
                                if r[0] == 'discr':
                                    rv = b.blocks[r[1]]['s'][r[2]]['r']
                                    if rv['p']['l'] == dest or any(x[0] == 'call' and x[1] == bi for x in core.place_origins(b, rv['p'], stop_at_calls=True)):
                                        used = True
                    consumed.append((used, b.loc(bi)))
        retried = False
        surfaced = False
        for b in store:
            for bi, t in b.calls():
                if 'retry' in callee(t).split('::')[-1] and len(t['args']) > 1:
                    counts = [const_val(r) if r[0] == 'const' else 'configured' for r in origins(b, t['args'][1], stop_at_calls=True)]
                    retried = bool(counts) and all(c == 'configured' or (isinstance(c, int) and c > 0) for c in counts)
                if callee_decl(t) in ('std::result::Result::or_else', 'std::result::Result::map_err', 'std::result::Result::unwrap_or_else'):
                    for a in t['args']:
                        for r in origins(b, a):
                            if r[0] == 'closure':
                                cb2 = P.bodies.get(r[1])
                                if cb2 is not None:
                                    pan = any(callee_decl(t2).startswith('std::panicking') or callee_decl(t2).startswith('std::rt::') for _, t2 in cb2.calls())
                                    err = any(s_['k'] == 'assign' and s_['r']['k'] == 'agg' and s_['r'].get('variant') == 'Err' for bl in cb2.blocks for s_ in bl['s'])
                                    surfaced = pan or err
        ok4 = bool(consumed) and all(u for u, _ in consumed) and retried and surfaced
        ck.ob('C18.4', name, 'upload-result-consumed', ok4,
              '%s matches the upload result, retries and surfaces a failure' % name if ok4 else
              '%s: upload results consumed %s, retry %s — a failed PUT silently drops the snapshot while the entries were already marked Ok'
              % (name, [u for u, _ in consumed], '%s, surfaced after the retries: %s' % (retried, surfaced)), consumed[0][1] if consumed else '')
        # (6) attempts are repeatable: the closure handed to the retry helper does not mutate a byte buffer it captured
        nretry = 0
        shared = []
        for b in store:
            for bi, t in b.calls():
                if 'retry' not in callee(t).split('::')[-1] or len(t['args']) < 2:
                    continue
                for r in origins(b, t['args'][0]):
                    if r[0] != 'closure' or P.bodies.get(r[1]) is None:
                        continue
                    nretry += 1
                    fam = [x for x in P.user_bodies() if x.id == r[1] or x.id.startswith(r[1] + '::')]
                    for cb2 in fam:
                        for cbi, bl in enumerate(cb2.blocks):
                            if bl.get('cleanup'):
                                continue
                            for s_ in bl['s']:
                                rv = s_.get('r') or {}
                                if s_['k'] == 'assign' and rv.get('k') == 'ref' and rv.get('mut') \
                                        and any(x in str(rv['p'].get('t', '')) for x in ('BytesMut', 'Vec<u8>', 'std::string::String')) \
                                        and any(r2[0] == 'capture' for r2 in core.place_origins(cb2, rv['p'])):
                                    shared.append('%s (%s)' % (rv['p'].get('t'), cb2.loc(cbi)))
        ok6 = nretry > 0 and not shared
        ck.ob('C18.6', name, 'attempts-are-repeatable', ok6 or nretry == 0,
              ('%s: every attempt of the retried upload builds (or borrows read-only) the bytes it sends' % name) if ok6 else
              ('%s has no retried upload (judged by C18.4)' % name) if nretry == 0 else
              '%s: the closure handed to the retry helper takes a byte buffer it shares with the other attempts by &mut (%s): what the first, '
              'failed attempt consumed (split / take / drain) or appended is missing from, or doubled in, the object the successful attempt uploads — '
              'the retry "succeeds" and the partition is stored empty' % (name, sorted(set(shared))[:3]), '%s:%s' % (root.file, root.line))
        # (5) layout
        wl = []
        for b in store:
            wl += [w for w, s_, bi in codec.write_layout(b)]
        rl = []
        for b in load + [x for x in P.user_bodies() if x.id.startswith(prefix) and 'read_str_value' in x.id]:
            rl += [w if w is not None else 'N' for w, s_, bi, base in codec.read_layout(b)]
        if name == 's3':
            # values 8·N·4 then keys 8·N·4·8 ; reader: keys 8·N·4·8, values 8·N
            ok5 = wl == [8, 'N', 4, 8, 'N', 4, 8] and sorted(map(str, rl)) == sorted(map(str, [8, 'N', 4, 8, 8, 'N']))
        else:
            # 8·N(key) 8·N(value) 4(status) 4(version)
            ok5 = wl == [8, 'N', 8, 'N', 4, 4] and rl.count(4) == 2 and rl.count(8) >= 2
        ck.ob('C18.5', name, 'layout', ok5, '%s writes %s, reads %s' % (name, wl, rl), '%s:%s' % (root.file, root.line))
    ck.floor('C18.1', n, 2, 'S3 strategies analysed')
