#!/usr/bin/env python3
"""Generates /verif/selftest/<Cxx>/<name>.patch + .json from the table below (each mutant: one small
edit of /repo that breaks exactly one rule instance while still compiling)."""
import os, subprocess, tempfile, shutil, json, sys

REPO = '/repo'
OUT = '/verif/selftest'

M = []


def mut(pid, name, file, old, new, expect, what):
    M.append((pid, name, file, old, new, expect, what))


# ---- C01 ------------------------------------------------------------------------------------
mut('C01', 'list_keys_drops_deleted_test', 'src/lib/bo.rs',
    '''                    filter_system_keys(list_system_keys, key)
                        && v.state != ValueStatus::Deleted
                        && query_function(&key, &pattern)''',
    '''                    filter_system_keys(list_system_keys, key)
                        && v.version > -100
                        && query_function(&key, &pattern)''',
    'C01.c:Database::list_keys:filter-terms', 'listing no longer filters removed keys')
mut('C01', 'list_keys_unsorted', 'src/lib/bo.rs', '''        keys.sort();
        keys
    }''', '''        keys
    }''', 'C01.c:Database::list_keys:sorted', 'keys returned unsorted')
mut('C01', 'inc_writes_before_numeric_test', 'src/lib/bo.rs',
    '''            let current_str = match &old {''',
    '''            db.insert(key.clone(), Value::from("0"));
            let current_str = match &old {''',
    'C01.a:Database::inc_value', 'increment writes before it can refuse')
mut('C01', 'absent_default_empty_string', 'src/lib/db_ops.rs',
    '''        None => (String::from("<Empty>"), 1 as i32),''', '''        None => (String::from(""), 1 as i32),''',
    'C01.d', 'absent key reads as the empty string, tombstone as <Empty>')
mut('C01', 'inc_ignores_tombstone', 'src/lib/bo.rs',
    '''                Some(v) if v.state != ValueStatus::Deleted => v.value.to_string(),''',
    '''                Some(v) if v.version > -100 => v.value.to_string(),''',
    'C01.b:Database::inc_value', 'increment parses a tombstone as a value')
# ---- C02 ------------------------------------------------------------------------------------
mut('C02', 'remove_two_sections', 'src/lib/bo.rs',
    '''                    let mut db = self.map.write().unwrap();
                    let old_value = db.get(&key).map(|old| old.clone());
                    if let Some(value) = old_value {''',
    '''                    let old_value = self.get_value(key.clone());
                    let mut db = self.map.write().unwrap();
                    if let Some(value) = old_value {''',
    'C02.a:Database::remove_value', 'remove reads under one lock and writes under another')
mut('C02', 'inc_literal_version', 'src/lib/bo.rs',
    '''                            version: if old.is_in_conflict_resolution() {
                                old.version
                            } else {
                                old.version.saturating_add(1)
                            },''',
    '''                            version: 1,''', 'C02.b:Database::inc_value:literal-version', 'increment resets the version to 1')
mut('C02', 'none_arm_writes', 'src/lib/consensus_ops.rs',
    '''                        log::info!("Will resolve the conflict in the key {} using None", key);''',
    '''                        log::info!("Will resolve the conflict in the key {} using None", key);
                        self.set_value_version(&key, &change.value, version, state, 0, 0, change.opp_id);''',
    'C02.c', 'strategy None applies the refused write')
# ---- C03 ------------------------------------------------------------------------------------
mut('C03', 'set_notifies_only_new_keys', 'src/lib/bo.rs',
    '''        }; // release the db before notifying
        self.notify_watchers(change.key.clone(), change.value.clone(), new_version);
''', '''        }; // release the db before notifying
        if new_version == 1 {
            self.notify_watchers(change.key.clone(), change.value.clone(), new_version);
        }
''', 'C03.a:Database::set_value', 'updates of existing keys are not notified')
mut('C03', 'unwatch_retain_unnegated', 'src/lib/db_ops.rs',
    '''    senders.retain(|x| !x.same_receiver(&sender));''', '''    senders.retain(|x| x.same_receiver(&sender));''',
    'C03.e', 'unwatch keeps only the caller and drops everybody else')
mut('C03', 'watch_replaces_list', 'src/lib/bo.rs',
    '''        let mut senders: Vec<Sender<String>> = match watchers.get(key) {
            Some(watchers_vec) => watchers_vec.clone(),
            _ => Vec::new(),
        };
        senders.push(sender.clone());''',
    '''        let mut senders: Vec<Sender<String>> = Vec::new();
        senders.push(sender.clone());''', 'C03.e', 'watch replaces the list of watchers')
mut('C03', 'http_without_left', 'src/lib/network/http_ops.rs',
    '''    process_request("unwatch-all", dbs, client); //To dicsconect
    client.left(&dbs);''', '''    process_request("unwatch-all", dbs, client); //To dicsconect''',
    'C03.d', 'HTTP session end does not give its connection back')
mut('C03', 'unwatch_two_sections', 'src/lib/db_ops.rs',
    '''    let mut watchers = db.watchers.map.write().expect("db.watchers.map.lock");
    let mut senders: Vec<Sender<String>> = match watchers.get(key) {
        Some(watchers_vec) => watchers_vec.clone(),
        _ => Vec::new(),
    };''', '''    let mut senders: Vec<Sender<String>> = get_senders(&key, &db.watchers);
    let mut watchers = db.watchers.map.write().expect("db.watchers.map.lock");''',
    'C03.c', 'unwatch reads the list before taking the write lock')
# ---- C04 ------------------------------------------------------------------------------------
mut('C04', 'remove_arm_dropped_from_table', 'src/lib/replication_ops.rs',
    '''                Request::Remove { key } => {
                    let db_name = db_name''', '''                Request::Remove { key } if key == "never" => {
                    let db_name = db_name''', 'C04.a', 'client removes are no longer replicated')
mut('C04', 'replicate_message_drops_version', 'src/lib/replication_ops.rs',
    '''    return format!("replicate {} {} {} {}", db_name, key, version, value);''',
    '''    let _ = version;
    return format!("replicate {} {} {}", db_name, key, value);''', 'C04.b', 'live replicate message without its version field')
mut('C04', 'increment_stops_forwarding', 'src/lib/process_request.rs',
    '''                    send_message_to_primary(
                        get_replicate_increment_message(
                            db_name_state.to_string(),
                            key.clone(),
                            inc.to_string(),
                        ),
                        dbs,
                    );''', '''                    log::debug!("{} {}", db_name_state, inc);''', 'C04.d:dispatcher:Increment', 'increment on a secondary goes nowhere')
mut('C04', 'secondary_fans_out', 'src/lib/replication_ops.rs',
    '''                        log::debug!("Won't replicate message from secoundary");''',
    '''                        log::debug!("Won't replicate message from secoundary");
                        if let Ok(id) = op_log_id {
                            replicate_message_to_all(id, request_str.to_string(), &dbs);
                        }''', 'C04.e', 'a secondary fans messages out')
mut('C04', 'replicate_set_literal_version', 'src/lib/process_request.rs',
    '''                Some(db) => set_key_value(key.clone(), value.clone(), version, db, &dbs),''',
    '''                Some(db) => set_key_value(key.clone(), value.clone(), version.min(-1), db, &dbs),''',
    'C04.f:dispatcher:ReplicateSet', 'replicated set ignores the version it carries')
# ---- C05 ------------------------------------------------------------------------------------
mut('C05', 'full_sync_keeps_connections', 'src/lib/replication_ops.rs',
    '''                if key != TOKEN_KEY && key != CONNECTIONS_KEY {''', '''                if key != TOKEN_KEY {''',
    'C05.e', 'full sync exports the per-node $connections key')
mut('C05', 'since_one_selects_full', 'src/lib/replication_ops.rs',
    '''    if since == 0 {
        get_full_sync_opps(dbs)''', '''    if since == 1 {
        get_full_sync_opps(dbs)''', 'C05.d', 'since == 0 no longer selects the full sync')
mut('C05', 'oplog_arm_remove_dropped', 'src/lib/replication_ops.rs',
    '''                    Request::ReplicateRemove { db, key } => {
                        let db_id = get_db_id(db, &dbs);''', '''                    Request::ReplicateRemove { db, key } if key == "never" => {
                        let db_id = get_db_id(db, &dbs);''', 'C05.c', 'removes are no longer recorded in the oplog')
mut('C05', 'startup_skips_clean', 'src/bin/main.rs',
    '''        disk_ops::Oplog::clean_op_log_metadata_files();''', '''        log::warn!("skipping clean");''',
    'C05.d', 'invalid oplog is kept')
mut('C05', 'full_sync_exports_tombstones', 'src/lib/replication_ops.rs',
    '''                    if value.state == ValueStatus::Deleted {''', '''                    if value.version == -100 {''',
    'C05.b', 'full sync sends tombstones as values')
# ---- C06 ------------------------------------------------------------------------------------
mut('C06', 'updated_arm_without_mark_ok', 'src/lib/storage/disk.rs',
    '''                        db.set_value_as_ok(
                            &key,
                            &value,
                            value_addr,
                            value.key_disk_addr,
                            Databases::next_op_log_id(),
                        );
                        // Append key file''', '''                        // Append key file''', 'C06.a', 'updated keys are never marked Ok after an incremental snapshot')
mut('C06', 'write_key_addr_before_version', 'src/lib/storage/disk.rs',
    '''    //4 bytes
    keys_file.write(&value.version.to_le_bytes()).unwrap();
    //8 bytes
    keys_file.write(&value_addr.to_le_bytes()).unwrap();''',
    '''    //8 bytes
    keys_file.write(&value_addr.to_le_bytes()).unwrap();
    //4 bytes
    keys_file.write(&value.version.to_le_bytes()).unwrap();''', 'C06.c', 'key record written address-then-version')
mut('C06', 'remove_always_drops', 'src/lib/bo.rs',
    '''                        if value.state == ValueStatus::New {
                            db.remove(&key);
                        } else {''', '''                        if value.version > -100 {
                            db.remove(&key);
                        } else {''', 'C06.f', 'remove drops persisted keys from memory only')
mut('C06', 'select_only_ok', 'src/lib/storage/common.rs',
    '''        v.state != ValueStatus::Ok || reclame_space''', '''        v.state == ValueStatus::Ok || reclame_space''', 'C06.e', 'snapshot selects the unchanged keys')
mut('C06', 'status_table_swapped', 'src/lib/bo.rs',
    '''            ValueStatus::Deleted => (1 as i32).to_le_bytes(),
            ValueStatus::Updated => (2 as i32).to_le_bytes(),''',
    '''            ValueStatus::Deleted => (2 as i32).to_le_bytes(),
            ValueStatus::Updated => (1 as i32).to_le_bytes(),''', 'C06.d', 'ValueStatus encode table no longer inverse of decode')
# ---- C07 ------------------------------------------------------------------------------------
mut('C07', 'election_eval_flipped', 'src/lib/election_ops.rs',
    '''    } else if candidate_id > dbs.process_id {''', '''    } else if candidate_id < dbs.process_id {''', 'C07.a', 'the youngest node wins elections')
mut('C07', 'election_win_without_supervisor', 'src/lib/election_ops.rs',
    '''        .try_send(format!("election-win self"))''', '''        .try_send(format!("noop self"))''', 'C07', 'election_win does not tell the supervisor')
mut('C07', 'leave_without_election', 'src/lib/process_request.rs',
    '''            start_new_election(&dbs); //Slow operation here
            Response::Ok {}
        }),

        Request::ReplicateLeave''', '''            Response::Ok {}
        }),

        Request::ReplicateLeave''', 'C07.d:dispatcher:Leave', 'a leaving primary triggers no election')
mut('C07', 'primary_disconnect_sends_replicate_leave', 'src/lib/network/tcp_ops.rs',
    '''                                    process_leave_request(&format!("leave {}", m.name), &dbs);''',
    '''                                    process_leave_request(&format!("replicate-leave {}", m.name), &dbs);''', 'C07.d', 'a primary that disconnects forces no election')
mut('C07', 'ack_loop_without_timeout', 'src/lib/election_ops.rs',
    '''                if start_time > *NUN_ELECTION_TIMEOUT {''', '''                if start_time > u128::MAX - 1 {''', 'C07.e', 'the acknowledgement wait loop has no timeout')
# ---- C08 ------------------------------------------------------------------------------------
mut('C08', 'guard_forgets_prefix_test', 'src/lib/security.rs',
    '''    if key.starts_with(SECURY_KEYS_PREFIX) && !client.is_admin_auth() {''',
    '''    if key.len() > 10_000 && !client.is_admin_auth() {''', 'C08', 'the secure-key guard lets $$ keys through')
mut('C08', 'get_moved_to_db_guard', 'src/lib/process_request.rs',
    '''        Request::Get { key } => apply_if_safe_access(
            &dbs,
            &client,
            &key,
            &|_db| get_key_value(&key, &client.sender, _db),
            PermissionKind::Read,
        ),''', '''        Request::Get { key } => apply_to_database(&dbs, &client, &|_db| {
            get_key_value(&key, &client.sender, _db)
        }),''', 'C08.a', 'get only needs a selected database')
mut('C08', 'keys_lists_system_keys', 'src/lib/process_request.rs',
    '''                .list_keys(&pattern, client.is_admin_auth())''', '''                .list_keys(&pattern, true)''', 'C08.c', 'keys lists $$ keys for everybody')
mut('C08', 'token_removable', 'src/lib/bo.rs',
    '''            key if key == TOKEN_KEY => Response::Error {''', '''            key if key == "$$never" => Response::Error {''', 'C08.d', '$$token can be removed')
mut('C08', 'guard_checks_other_key', 'src/lib/process_request.rs',
    '''        Request::Watch { key } => apply_if_safe_access(
            &dbs,
            &client,
            &key,''', '''        Request::Watch { key } => apply_if_safe_access(
            &dbs,
            &client,
            &String::from("public"),''', 'C08.a', 'watch is guarded with a constant key, not the watched one')
# ---- C09 ------------------------------------------------------------------------------------
mut('C09', 'create_db_unguarded', 'src/lib/process_request.rs',
    '''        } => apply_if_auth(&client.auth, &|| {
            create_db(&name, &token, &dbs, &client, strategy)
        }),''', '''        } => create_db(&name, &token, &dbs, &client, strategy),''', 'C09.a', 'create-db without the admin guard')
mut('C09', 'set_asks_read', 'src/lib/process_request.rs',
    '''                respose
            },
            PermissionKind::Write,
        ),

        Request::ReplicateRemove''', '''                respose
            },
            PermissionKind::Read,
        ),

        Request::ReplicateRemove''', 'C09.a', 'set only needs read permission')
mut('C09', 'use_db_selects_before_validating', 'src/lib/process_request.rs',
    '''                            if is_valid_token(&token, db) {
                                let mut db_name_state = client.selected_db.name.write().unwrap();
                                leave_previous_selection(&*db_name_state, &dbs_map, &dbs);
                                let _ = std::mem::replace(&mut *db_name_state, Some(name.clone()));''',
    '''                            let mut db_name_state = client.selected_db.name.write().unwrap();
                            leave_previous_selection(&*db_name_state, &dbs_map, &dbs);
                            let _ = std::mem::replace(&mut *db_name_state, Some(name.clone()));
                            if is_valid_token(&token, db) {''', 'C09.c', 'a failed use-db still changes the selection')
mut('C09', 'admin_guard_ignores_flag', 'src/lib/security.rs',
    '''    if auth.load(Ordering::SeqCst) {
        opp()''', '''    if auth.load(Ordering::SeqCst) || true {
        opp()''', 'C09', 'the admin guard always runs the closure')
mut('C09', 'has_permission_ignores_kind', 'src/lib/security.rs',
    '''                    if !kinds.contains(&required_permission) {
                        return false;
                    }''', '''                    if kinds.is_empty() {
                        return false;
                    }''', 'C09.b', 'any listed kind grants every kind of access')
mut('C09', 'auth_after_user_only', 'src/lib/process_request.rs',
    '''            if user == valid_user && password == valid_pwd {''', '''            if user == valid_user && password.len() == valid_pwd.len() {''', 'C09.c', 'auth compares only the length of the password')
# ---- C10 ------------------------------------------------------------------------------------
mut('C10', 'ack_parser_unwraps', 'src/lib/parse_request.rs',
    '''        Some(id_str) => match id_str.parse::<u64>() {
            Ok(id) => id,
            Err(_) => {
                log::debug!("Invalid request Id");
                return Err(format!("Invalid request Id"));
            }
        },
        None => {
            log::debug!("Invalid request Id");''', '''        Some(id_str) => id_str.parse::<u64>().unwrap(),
        None => {
            log::debug!("Invalid request Id");''', 'C10', 'ack with a non-numeric id panics')
mut('C10', 'index_inside_inc_section', 'src/lib/bo.rs',
    '''            let current_str = match &old {''', '''            let _first = key.as_bytes()[0];
            let current_str = match &old {''', 'C10.b', 'indexing the key inside the map write lock (empty key panics and poisons)')
mut('C10', 'lock_order_inverted', 'src/lib/replication_ops.rs',
    '''                    if replicated_opp.is_full_acknowledged() {
                        pending_opps.remove(&opp_id);''',
    '''                    if replicated_opp.is_full_acknowledged() && self.count_cluster_members() > 0 {
                        pending_opps.remove(&opp_id);''', 'C10.c',
    'acknowledge holds pending_opps and takes cluster_state; the fan-out holds cluster_state and takes pending_opps')
mut('C10', 'keys_unwraps_selection', 'src/lib/process_request.rs',
    '''        Request::Keys { pattern } => apply_to_database(&dbs, &client, &|db| {''',
    '''        Request::Keys { pattern } => apply_to_database(&dbs, &client, &|db| {
            let _user = client.selected_db_user_name().unwrap();''', 'C10.a', 'keys panics for database-token sessions')
# ---- C11 ------------------------------------------------------------------------------------
mut('C11', 'backup_removed_before_writer', 'src/lib/disk_ops.rs',
    '''                Databases::storage_data(db, &database_name, reclaim_space);
                remove_backup_key_file(&database_name);''', '''                remove_backup_key_file(&database_name);
                Databases::storage_data(db, &database_name, reclaim_space);''', 'C11', 'key backup removed before the new files exist')
mut('C11', 'keys_opened_truncating', 'src/lib/storage/disk.rs',
    '''        OpenOptions::new()
            .append(true)
            .create(true)
            .open(&file_name)
            .unwrap(),
    )
}

fn get_key_write_mode''', '''        OpenOptions::new()
            .write(true)
            .truncate(true)
            .create(true)
            .open(&file_name)
            .unwrap(),
    )
}

fn get_key_write_mode''', 'C11.c', 'key file truncated at every snapshot')
mut('C11', 'flush_keys_first', 'src/lib/storage/disk.rs',
    '''        values_file.flush().unwrap();
        keys_file.flush().unwrap();
        keys_file_write.flush().unwrap();''', '''        keys_file.flush().unwrap();
        keys_file_write.flush().unwrap();
        values_file.flush().unwrap();''', 'C11.a', 'keys flushed before values')
mut('C11', 'update_key_two_writes', 'src/lib/storage/disk.rs',
    '''    keys_file.write_at(&record_tail, start_at).unwrap();''', '''    keys_file.write_at(&record_tail[..4], start_at).unwrap();
    keys_file.write_at(&record_tail[4..], start_at + 4).unwrap();''', 'C11.d', 'in-place update split into two writes')
# ---- C12 ------------------------------------------------------------------------------------
mut('C12', 'writer_db_before_key', 'src/lib/disk_ops.rs',
    '''        stream.write(&key.to_le_bytes()).unwrap(); // 8
        stream.write(&db_id.to_le_bytes()).unwrap(); // 8''', '''        stream.write(&db_id.to_le_bytes()).unwrap(); // 8
        stream.write(&key.to_le_bytes()).unwrap(); // 8''', 'C12.a', 'oplog record written db-then-key, read key-then-db')
mut('C12', 'opp_table_remove_is_2', 'src/lib/bo.rs',
    '''            ReplicateOpp::Remove => 1,
            ReplicateOpp::CreateDb => 2,''', '''            ReplicateOpp::Remove => 2,
            ReplicateOpp::CreateDb => 1,''', 'C12.b', 'ReplicateOpp byte table not inverse')
mut('C12', 'record_size_off_by_one', 'src/lib/disk_ops.rs',
    '''const OP_OP_SIZE: usize = 1;
const OP_RECORD_SIZE''', '''const OP_OP_SIZE: usize = 2;
const OP_RECORD_SIZE''', 'C12.a', 'OP_RECORD_SIZE larger than the record written')
mut('C12', 'rotation_deletes', 'src/lib/disk_ops.rs',
    '''            fs::rename(&Oplog::get_op_log_file_name(), &new_oplog_file_name)
                .expect("Could not rename the oplog file");''', '''            let _ = new_oplog_file_name;
            fs::remove_file(&Oplog::get_op_log_file_name()).expect("Could not remove the oplog file");''', 'C12.c', 'rotation deletes the full oplog file')
mut('C12', 'live_file_first', 'src/lib/disk_ops.rs',
    '''    let mut oplog_entries = get_op_log_entries_by_creation_date(); // newest first
    oplog_entries.reverse();''', '''    let oplog_entries = get_op_log_entries_by_creation_date(); // newest first''', 'C12.d', 'rotated files scanned newest first')
# ---- C13 ------------------------------------------------------------------------------------
mut('C13', 'conflict_record_not_written', 'src/lib/consensus_ops.rs',
    '''                            self.set_value(&conflict_register_change);

                            replicate_change(&conflict_register_change, &self, &dbs);
                            // Replicate''', '''                            replicate_change(&conflict_register_change, &self, &dbs);
                            // Replicate''', 'C13.a', 'conflict is sent to the arbiter but never recorded')
mut('C13', 'marker_stores_new_value', 'src/lib/consensus_ops.rs',
    '''                                &change.key,
                                &old_value.value,
                                IN_CONFLICT_RESOLUTION_KEY_VERSION,''', '''                                &change.key,
                                &change.value,
                                IN_CONFLICT_RESOLUTION_KEY_VERSION,''', 'C13.a', 'the conflicting value is applied while the conflict is open')
mut('C13', 'register_arbiter_polarity', 'src/lib/consensus_ops.rs',
    '''            if conflict_command.starts_with(RESOLVED_KEY_PREFIX) {''', '''            if !conflict_command.starts_with(RESOLVED_KEY_PREFIX) {''', 'C13.c', 'pending conflicts removed, resolved ones re-sent')
mut('C13', 'resolve_without_replication', 'src/lib/consensus_ops.rs',
    '''        self.set_value(&conflict_register_change);
        // Replicate conflict keys to other replicas
        replicate_change(&conflict_register_change, &self, &dbs);
        if self.has_pendding_conflict''', '''        self.set_value(&conflict_register_change);
        if self.has_pendding_conflict''', 'C13.b', 'resolved record not replicated')
mut('C13', 'next_version_order', 'src/lib/bo.rs',
    '''        if self.keep_in_conflict_resolution() {
            self.version
        } else if self.resolving_conflict() {''', '''        if self.version == -1 && !old_value.is_in_conflict_resolution() {
            old_value.version.saturating_add(1)
        } else if self.keep_in_conflict_resolution() {
            self.version
        } else if self.resolving_conflict() {''', 'C13.d', 'next_version tests the unversioned case first')
# ---- C14 ------------------------------------------------------------------------------------
mut('C14', 'replicate_set_forwards', 'src/lib/process_request.rs',
    '''                Some(db) => set_key_value(key.clone(), value.clone(), version, db, &dbs),
                _ => {
                    log::debug!("Not a valid database name");
                    Response::Error {
                        msg: "Not a valid database name".to_string(),
                    }
                }
            };
            respose
        }),

        Request::Snapshot''', '''                Some(db) => {
                    if !dbs.is_primary() {
                        send_message_to_primary(
                            get_replicate_message(name.to_string(), key.clone(), value.clone(), version),
                            dbs,
                        );
                    }
                    set_key_value(key.clone(), value.clone(), version, db, &dbs)
                }
                _ => {
                    log::debug!("Not a valid database name");
                    Response::Error {
                        msg: "Not a valid database name".to_string(),
                    }
                }
            };
            respose
        }),

        Request::Snapshot''', 'C14.a', 'a replicated set is forwarded back to the primary: ping-pong')
mut('C14', 'send_before_register', 'src/lib/replication_ops.rs',
    '''                    let message_to_replicate =
                        dbs.register_pending_opp(op_log_id, message.clone(), name);
                    replicate_if_some(&member.sender, &message_to_replicate, &member.name)''',
    '''                    replicate_if_some(&member.sender, &format!("rp {} {}", op_log_id, message), &member.name);
                    let _message_to_replicate =
                        dbs.register_pending_opp(op_log_id, message.clone(), name);''', 'C14.d', 'copy sent before it is registered as pending')
mut('C14', 'forwarder_sends_to_secondaries', 'src/lib/replication_ops.rs',
    '''            ClusterRole::Secoundary => (),
            ClusterRole::Primary => replicate_if_some(&member.sender, &message, &member.name),
            ClusterRole::StartingUp => (),
        }
    }
}

fn get_db_id''', '''            ClusterRole::Secoundary => replicate_if_some(&member.sender, &message, &member.name),
            ClusterRole::Primary => replicate_if_some(&member.sender, &message, &member.name),
            ClusterRole::StartingUp => (),
        }
    }
}

fn get_db_id''', 'anchor', 'the forwarder also sends to secondaries')
# ---- C15 ------------------------------------------------------------------------------------
mut('C15', 'ack_counts_unknown_server', 'src/lib/replication_ops.rs',
    '''                    log::warn!(
                        "trying to ack {} but not pedding from the server {}",
                        self.opp_id,
                        server_name
                    );
                    false''', '''                    self.ack_count.fetch_add(1, Ordering::Relaxed);
                    false''', 'C15', 'acknowledgements from unknown servers are counted')
mut('C15', 'remove_without_full_test', 'src/lib/replication_ops.rs',
    '''                    if replicated_opp.is_full_acknowledged() {
                        pending_opps.remove(&opp_id);''', '''                    if replicated_opp.count_acknowledged() > 0 {
                        pending_opps.remove(&opp_id);''', 'C15.c', 'the first acknowledgement removes the pending operation')
mut('C15', 'full_ack_le', 'src/lib/replication_ops.rs',
    '''        self.replicate_count.load(Ordering::Relaxed) == self.ack_count.load(Ordering::Relaxed)''',
    '''        self.replicate_count.load(Ordering::Relaxed) <= self.ack_count.load(Ordering::Relaxed) + 1''', 'C15.c', 'is_full_acknowledged is no longer equality')
mut('C15', 'ack_read_then_write', 'src/lib/replication_ops.rs',
    '''    pub fn acknowledge_pending_opp(&self, opp_id: u64, server_name: &String) -> bool {
        let mut pending_opps = self.pending_opps.write().unwrap();''',
    '''    pub fn acknowledge_pending_opp(&self, opp_id: u64, server_name: &String) -> bool {
        if !self.pending_opps.read().unwrap().contains_key(&opp_id) {
            return false;
        }
        let mut pending_opps = self.pending_opps.write().unwrap();''', 'C15.a', 'acknowledge checks under a read lock, then updates under another')
# ---- C16 ------------------------------------------------------------------------------------
mut('C16', 'key_id_without_invalidation', 'src/lib/replication_ops.rs',
    '''        invalidate_oplog(invalidate_stream, dbs).unwrap();
        id''', '''        let _ = invalidate_stream;
        id''', 'C16.a', 'new key ids no longer invalidate the on-disk flag')
mut('C16', 'valid_before_map', 'src/lib/disk_ops.rs',
    '''        write_keys_map_to_disk(keys_map);
        mark_op_log_as_valid(dbs).unwrap();''', '''        mark_op_log_as_valid(dbs).unwrap();
        write_keys_map_to_disk(keys_map);''', 'C16.b', 'log marked valid before the key map is written')
mut('C16', 'flag_writer_buffered', 'src/lib/disk_ops.rs',
    '''        Ok(f) => BufWriter::with_capacity(1, f),''', '''        Ok(f) => BufWriter::with_capacity(16, f),''', 'C16.a', 'the flag byte stays in a 16-byte buffer')
mut('C16', 'startup_memory_false', 'src/bin/main.rs',
    '''        // of the flag for the first new key, leaving disk = valid with a keys map that lacks it.
        true
    };''', '''        // of the flag for the first new key, leaving disk = valid with a keys map that lacks it.
        false
    };''', 'C16.b', 'after the clean the in-memory flag says invalid while the disk reads valid')
mut('C16', 'second_key_id_caller', 'src/lib/replication_ops.rs',
    '''pub fn add_as_secoundary(dbs: &Arc<Databases>, name: &String) {''',
    '''pub fn preallocate_key(dbs: &Arc<Databases>, key: String) -> u64 {
    let mut stream = get_invalidate_file_write_mode();
    generate_key_id(key, dbs, &mut stream)
}

pub fn add_as_secoundary(dbs: &Arc<Databases>, name: &String) {''', 'C16.c', 'key ids allocated outside the single-consumer loop')
# ---- C17 ------------------------------------------------------------------------------------
mut('C17', 'use_db_without_increment', 'src/lib/process_request.rs',
    '''                                let _ = std::mem::replace(&mut *db_name_state, Some(name.clone()));
                                db.inc_connections(); //Increment the number of connections
                                set_connection_counter(db, &dbs);
                                Response::Ok {}
                            } else {
                                Response::Error {
                                    msg: "Invalid token".to_string(),
                                }
                            }
                        }
                    }''', '''                                let _ = std::mem::replace(&mut *db_name_state, Some(name.clone()));
                                set_connection_counter(db, &dbs);
                                Response::Ok {}
                            } else {
                                Response::Error {
                                    msg: "Invalid token".to_string(),
                                }
                            }
                        }
                    }''', 'C17.a', 'database-token sessions are not counted')
mut('C17', 'left_without_decrement', 'src/lib/bo.rs',
    '''                        db.dec_connections();
                        set_connection_counter(db, &dbs);''', '''                        set_connection_counter(db, &dbs);''', 'C17.a', 'disconnect does not decrement')
mut('C17', 'ws_close_without_left', 'src/lib/network/ws_ops.rs',
    '''        process_request("unwatch-all", &self.dbs, &mut self.client);
        self.client.left(&self.dbs);''', '''        process_request("unwatch-all", &self.dbs, &mut self.client);''', 'C17.a', 'WebSocket close leaks the connection')
mut('C17', 'reselect_leaks', 'src/lib/process_request.rs',
    '''                                let mut db_name_state = client.selected_db.name.write().unwrap();
                                leave_previous_selection(&*db_name_state, &dbs_map, &dbs);''',
    '''                                let mut db_name_state = client.selected_db.name.write().unwrap();''', 'C17.a', 'use-db twice leaks a connection')
mut('C17', 'unchecked_decrement', 'src/lib/bo.rs',
    '''        *connections.get_mut() = connections.get_mut().saturating_sub(1);''', '''        *connections.get_mut() = *connections.get_mut() - 1;''', 'C17.c', 'decrement can underflow')
# ---- C18 ------------------------------------------------------------------------------------
mut('C18', 'partition_without_retry', 'src/lib/storage/s3_partition.rs',
    '''                    *NUN_S3_RETRY,
                ),
                |e: String| -> Result<(), String> {
                    log::error!("Fail to store partition {} in s3: {}", partition, e);
                    panic!("Fail to store partition {} in s3: {}", partition, e);
                },''', '''                    0,
                ),
                |e: String| -> Result<(), String> {
                    log::error!("Fail to store partition {} in s3: {}", partition, e);
                    Ok(())
                },''', 'C18', 'failed partition uploads are swallowed')
mut('C18', 'partition_uploads_changed_only', 'src/lib/storage/s3_partition.rs',
    '''                        let keys_in_patition = get_keys_by_filter(&db, &|key, _v| {
                            get_patirion_from_key(key) == partition
                        });''', '''                        let keys_in_patition: Vec<(String, Value)> = get_keys_to_update(db, reclame_space)
                            .into_iter()
                            .filter(|(key, _v)| get_patirion_from_key(key) == partition)
                            .collect();''', 'C18.2', 'partition objects hold only the changed keys')
mut('C18', 'partition_value_before_key', 'src/lib/storage/s3_partition.rs',
    '''                            //4 bytes
                            //file_buffer.put_slice(&value.state.to_le_bytes());
                            file_buffer.put_slice(&ValueStatus::Ok.to_le_bytes());

                            //4 bytes
                            file_buffer.put_slice(&value.version.to_le_bytes());''', '''                            //4 bytes
                            file_buffer.put_slice(&value.version.to_le_bytes());''', 'C18.5', 'partition record without its status field')
# ---- C19 ------------------------------------------------------------------------------------
mut('C19', 'newer_else_returns_error', 'src/lib/consensus_ops.rs',
    '''                        } else {
                            Response::Set {
                                key: key.clone(),
                                value: old_value.value.to_string(),
                            }
                        }''', '''                        } else {
                            Response::Error {
                                msg: format!("stale write to {} ignored, stored {}", key, old_value.value),
                            }
                        }''', 'C19.a', 'a stale write on a newer database is refused')
mut('C19', 'newer_comparison_flipped', 'src/lib/consensus_ops.rs',
    '''                        if change.opp_id > old_value.opp_id {''', '''                        if change.opp_id < old_value.opp_id {''', 'C19.b', 'the older change wins')
mut('C19', 'reapply_not_resolving', 'src/lib/consensus_ops.rs',
    '''                                &Change::new(key.clone(), change.value.clone(), old_version)
                                    .to_resolve_change(),''', '''                                &Change::new(key.clone(), change.value.clone(), old_version),''', 'C19.c', 're-applied change is not marked resolving')
mut('C19', 'default_strategy_none', 'src/lib/storage/disk.rs',
    '''        DatabaseMataData::new(dbs.map.read().unwrap().len(), ConsensuStrategy::Newer)''',
    '''        DatabaseMataData::new(dbs.map.read().unwrap().len(), ConsensuStrategy::None)''', 'C19.d', 'metadata-less databases load with strategy none')
# ---- C20 ------------------------------------------------------------------------------------
mut('C20', 'success_pushes_two', 'src/lib/network/http_ops.rs',
    '''                            Some(message) => {
                                responses.push(message);
                            }''', '''                            Some(message) => {
                                responses.push(message.clone());
                                if message.starts_with("value-version") {
                                    responses.push(message);
                                }
                            }''', 'C20.a', 'get-safe produces two entries')
mut('C20', 'cleanup_inside_loop', 'src/lib/network/http_ops.rs',
    '''    process_request("unwatch-all", dbs, client); //To dicsconect
    client.left(&dbs);

    return responses;''', '''    if responses.is_empty() {
        process_request("unwatch-all", dbs, client); //To dicsconect
        client.left(&dbs);
    }

    return responses;''', 'C', 'HTTP clean-up only for empty bodies')
mut('C20', 'get_sends_twice', 'src/lib/db_ops.rs',
    '''            .try_send(format_args!("value {}\\n", value.to_string()).to_string())
        {
            Err(e) => log::warn!("Request::Get sender.send Error: {}", e),
            _ => (),
        }''', '''            .try_send(format_args!("value {}\\n", value.to_string()).to_string())
        {
            Err(e) => log::warn!("Request::Get sender.send Error: {}", e),
            _ => (),
        }
        sender.clone().try_send(format!("key {}\\n", key)).unwrap_or(());''', 'C20.c', 'get queues two messages')
mut('C20', 'no_discard_on_error', 'src/lib/network/http_ops.rs',
    '''                    discard_queued_messages(receiver);
                    responses.push(msg.clone());
                    log::debug!("Http response Error: {}", msg);
                }
                Response::VersionError''', '''                    responses.push(msg.clone());
                    log::debug!("Http response Error: {}", msg);
                }
                Response::VersionError''', 'C20.b', 'refusal text left in the queue shifts later entries')


def main():
    only = sys.argv[1:]
    shutil.rmtree(OUT, ignore_errors=True) if not only else None
    n = 0
    for (pid, name, file, old, new, expect, what) in M:
        if only and pid not in only:
            continue
        src = open(os.path.join(REPO, file)).read()
        if src.count(old) != 1:
            print('!! %s/%s: anchor text found %d times in %s' % (pid, name, src.count(old), file))
            continue
        d = os.path.join(OUT, pid)
        os.makedirs(d, exist_ok=True)
        tmp = tempfile.mkdtemp()
        a = os.path.join(tmp, 'a', file)
        b = os.path.join(tmp, 'b', file)
        os.makedirs(os.path.dirname(a))
        os.makedirs(os.path.dirname(b))
        open(a, 'w').write(src)
        open(b, 'w').write(src.replace(old, new))
        p = subprocess.run(['diff', '-u', 'a/' + file, 'b/' + file], cwd=tmp, stdout=subprocess.PIPE, text=True)
        open(os.path.join(d, name + '.patch'), 'w').write(p.stdout)
        json.dump({'property': pid, 'expect': expect, 'what': what, 'file': file}, open(os.path.join(d, name + '.json'), 'w'), indent=1)
        shutil.rmtree(tmp)
        n += 1
    print('wrote %d mutants' % n)


if __name__ == '__main__':
    main()
