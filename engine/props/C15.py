"""C15 — pending-operation accounting is exact and acknowledgements are idempotent.

Decides the structure of the accounting code: (a) register and acknowledge update
`pending_opps` in one write section each; (b) the acknowledgement counter is increased only on
the branch "this server was registered and had not acknowledged"; unknown and duplicate
acknowledgements answer false; (c) an entry is removed only where is_full_acknowledged is true,
and that predicate is the equality of the two counters; (d) nothing decrements or overwrites a
counter; (e) the Acknowledge arm hands the parsed id and server name through unchanged.
Does NOT decide the counting outcome for arbitrary event orders (a value-level question).
"""
from nl import core, locks
from nl.core import origins, callee, callee_decl, is_log, bool_switches, enum_switches, const_val
from nl.model import short

RULES = {
    'C15.a': 'every body that mutates Databases.pending_opps does its read-modify-write in one write section',
    'C15.b': 'ReplicationMessage::ack increases ack_count only where the previous entry of the server exists and is false; '
             'the other branches return false',
    'C15.f': 'registering an expected acknowledgement is one unit: the insert of (server, false) into the message\'s replications '
             'and the increment of replicate_count are control-equivalent (each is executed exactly when the other is)',
    'C15.c': 'pending_opps.remove is dominated by is_full_acknowledged() == true; is_full_acknowledged is '
             'replicate_count == ack_count',
    'C15.d': 'no fetch_sub / store on ack_count or replicate_count anywhere',
    'C15.e': 'the Acknowledge arm passes the request\'s opp_id and server_name to the acknowledge function',
    'C15.g': 'a node names itself with ONE field of its Databases in every node-to-node message (ack signature, election candidate / alive, catch-up request, link announcement): placeholder origins are followed up the call chain; two different fields mean the other nodes know it under one name and hear from it under another',
    'C15.h': 'the acknowledgement is sent through a fresh clone of the session sender: a bounded futures channel guarantees one slot per '
             'Sender handle, so a long-lived handle is refused once the queue is full (a burst of replicated commands whose replies are '
             'not drained yet) and the refusal is only logged — the operation was applied but stays pending on the primary for ever',
    'C15.i': 'whoever reads pending_opps waits for it: no try_read / try_write on Databases.pending_opps — a report that falls back to 0 when '
             'the replication thread holds the map says "nothing pending" while operations are registered and unacknowledged',
    'C15.j': 'the reader of a node link hands each line to the dispatcher once: the line buffer that read_line APPENDS to is cleared on '
             'every path from the read back to the loop head — a `continue` around the clear makes every later line (each `ack <id> <name>`) '
             'arrive glued to the earlier ones and be swallowed: the acknowledgements are never counted',
}

PENDING = 'std::collections::HashMap::<u64, nundb::bo::ReplicationMessage>::'
REPLS = 'std::collections::HashMap::<std::string::String, bool>::'


def counter_field(b, operand):
    for r in origins(b, operand):
        for s in reversed(r[-1]):
            if s[0] == 'f' and s[3].endswith('bo::ReplicationMessage'):
                return s[2]
    return None


def run(ck, m):
    _run(ck, m)
    self_name_agrees(ck, m)
    ack_through_fresh_handle(ck, m)
    pending_map_read_blocking(ck, m)
    link_reader_clears_its_buffer(ck, m)


def _run(ck, m):
    for k, v in RULES.items():
        ck.rule(k, v)
    P = m.prog
    # ---- (a) ---------------------------------------------------------------------------
    mut = []
    for b in P.user_bodies():
        if b.kind not in ('fn', 'method') or b.id.startswith(('nundb::client::', 'nundb::command_line::')):
            continue
        if any(t['f'].get('dargs', '').startswith(PENDING) and callee_decl(t).split('::')[-1] in ('insert', 'remove', 'get_mut')
               for _, t in b.calls()):
            mut.append(b)
    ck.floor('C15.a', len(mut), 2, 'bodies mutating pending_opps')
    L = locks.LockModel(P)
    for b in mut:
        res = locks.rmw_findings(m, b, 'pending')
        acqs = [a for a in L.acq(b) if 'Databases.pending_opps' in a.ids]
        one = len(acqs) == 1 and acqs[0].mode == 'W'
        # every pending-map call sits inside that one region
        inside = all(any(bi in a.region for a in acqs) for bi, t in b.calls() if t['f'].get('dargs', '').startswith(PENDING))
        ok = not res and one and inside
        ck.ob('C15.a', short(b.id), 'single-write-section', ok,
              'one write acquisition of pending_opps covers every access in %s' % short(b.id) if ok else
              'pending_opps is accessed in %d sections (%s), all inside: %s, rmw: %s' % (len(acqs), [a.mode for a in acqs], inside, res),
              '%s:%s' % (b.file, b.line))
    # ---- (b) ---------------------------------------------------------------------------
    ackf = []
    for b in P.user_bodies():
        if b.kind == 'method' and b.locals[0] == 'bool' and b.argc == 2 and b.locals[1] == '&nundb::bo::ReplicationMessage':
            ackf.append(b)
    if len(ackf) > 1:
        # several (&ReplicationMessage, &String) -> bool methods: the acknowledging one writes the per-server map, a predicate only reads it
        ackf = [b for b in ackf if any(t['f'].get('dargs', '').startswith(REPLS) and callee_decl(t).endswith('::insert') for _, t in b.calls())]
    if len(ackf) != 1:
        ck.undecided('C15.b', 'ack', 'anchor', 'expected one (&ReplicationMessage, &String) -> bool method, found %d' % len(ackf))
    else:
        b = ackf[0]
        fn = short(b.id)
        ins = [(bi, t) for bi, t in b.calls() if t['f'].get('dargs', '').startswith(REPLS) and callee_decl(t).endswith('::insert')]
        adds = [(bi, t) for bi, t in b.calls() if callee_decl(t).startswith('std::sync::atomic::Atomic') and callee_decl(t).endswith('::fetch_add')]
        ok = False
        why = 'no insert into replications / no fetch_add found'
        if len(ins) == 1 and len(adds) == 1:
            ibi, it = ins[0]
            abi, at = adds[0]
            fld = counter_field(b, at['args'][0])
            sws = enum_switches(b, ibi)
            some_dom = False
            false_dom = False
            for (sbi, tm, els, adt) in sws:
                if b.dominates(tm.get('1', els), abi) and tm.get('1') != tm.get('0'):
                    some_dom = True
            # payload bool
            pay = None
            for bl in b.blocks:
                for s in bl['s']:
                    if s['k'] == 'assign' and s['r']['k'] == 'use':
                        o = s['r']['o']
                        p = o.get('c') or o.get('m')
                        if p and p['l'] == it['d']['l'] and any(e[0] == 'd' for e in p.get('p', ())):
                            pay = s['l']['l']
            if pay is not None:
                for (sbi, tt, ft) in bool_switches(b, local=pay):
                    if b.dominates(ft, abi) and not b.dominates(tt, abi):
                        false_dom = True
            # `Some(false) => …` matches on the payload in place: switchInt((_x as Some).0)
            for xb in b.reachable():
                tx = b.term(xb)
                if tx['k'] != 'switch':
                    continue
                pp = tx['o'].get('c') or tx['o'].get('m')
                if pp and pp['l'] == it['d']['l'] and any(e[0] == 'd' for e in pp.get('p', ())) and any(e[0] == 'f' for e in pp.get('p', ())):
                    zero = [tb for v, tb in tx['targets'] if str(v) == '0']
                    others_ = [tb for v, tb in tx['targets'] if str(v) != '0'] + [tx['else']]
                    if zero and b.dominates(zero[0], abi) and not any(b.dominates(o_, abi) for o_ in others_ if o_ != zero[0]):
                        false_dom = True
            newval = [const_val(r) for r in origins(b, it['args'][2])]
            ok = fld == 'ack_count' and some_dom and false_dom and newval == [True]
            why = ('ack_count.fetch_add is reached only when the server had an entry and it was false' if ok else
                   'counter=%s, under Some arm=%s, under previous==false=%s, stores true=%s' % (fld, some_dom, false_dom, newval))
            # return values: true only on that branch
            rets_true = []
            for (dbi, dsi, kind, pl) in b.defs().get(0, []):
                pass
        ck.ob('C15.b', fn, 'count-once', ok, why, '%s:%s' % (b.file, b.line))
        # the function's result is true exactly on the counting branch
        if len(adds) == 1:
            abi = adds[0][0]
            trues = []
            for r in core.place_origins(b, {'l': 0}):
                pass
            # find constant assignments that flow to _0 and their blocks
            srcs = const_sources(b, 0)
            bad = [(v, bi) for (v, bi) in srcs if v is True and not (b.dominates(abi, bi) or bi == abi or abi in b.dom().get(bi, ()))]
            good = [(v, bi) for (v, bi) in srcs if v is True]
            okr = bool(good) and not bad and any(v is False for v, _ in srcs)
            ck.ob('C15.b', fn, 'true-only-when-counted', okr,
                  'answers true only after the counter was increased, false otherwise' if okr else
                  'return constants: %s' % [(v, b.loc(bi)) for v, bi in srcs], '%s:%s' % (b.file, b.line))
    # ---- (f) ---------------------------------------------------------------------------
    nf = 0
    for b in P.user_bodies():
        if b.id.startswith(('nundb::client::', 'nundb::command_line::')):
            continue
        arms = [bi for bi, t in b.calls() if t['f'].get('dargs', '').startswith(REPLS) and callee_decl(t).endswith('::insert')
                and len(t['args']) > 2 and [const_val(r) for r in origins(b, t['args'][2])] == [False]]
        incs = [bi for bi, t in b.calls() if callee_decl(t).startswith('std::sync::atomic::Atomic') and callee_decl(t).endswith('::fetch_add')
                and counter_field(b, t['args'][0]) == 'replicate_count']
        if not arms and not incs:
            continue
        nf += 1

        def equivalent(x, y):
            first, second = (x, y) if b.dominates(x, y) else (y, x)
            return b.dominates(first, second) and b.postdominates(second, first)
        okf = bool(arms) and bool(incs) and all(any(equivalent(a, i) for i in incs) for a in arms) and all(any(equivalent(a, i) for a in arms) for i in incs)
        ck.ob('C15.f', short(b.id), 'register-is-one-unit', okf,
              'the expected-acknowledgement flag and replicate_count are updated together' if okf else
              '%s re-arms the server\'s flag (insert false: %s) and counts it (fetch_add: %s) under different conditions: ack_count can reach '
              'replicate_count while a targeted server never acknowledged, the op stops being pending too early'
              % (short(b.id), [b.loc(x) for x in arms], [b.loc(x) for x in incs]), '%s:%s' % (b.file, b.line))
    ck.floor('C15.f', nf, 1, 'functions registering an expected acknowledgement')
    # every copy that is sent is registered: the registration is not made to depend on what the per-server map already holds (an
    # acknowledgement that arrived from a node before it was registered has left an entry there — skipped, the later copy to that node
    # is never counted and the operation stops being pending while the node has not answered)
    from nl.locks import backward_slice
    regfns = {b.id for b in P.user_bodies() if not b.id.startswith(('nundb::client::', 'nundb::command_line::'))
              and any(t['f'].get('dargs', '').startswith(REPLS) and callee_decl(t).endswith('::insert') and len(t['args']) > 2
                      and [const_val(r) for r in origins(b, t['args'][2])] == [False] for _, t in b.calls())}
    readers = {b.id for b in P.user_bodies() if b.locals[0] == 'bool' and any(
        t['f'].get('dargs', '').startswith(REPLS) and callee_decl(t).split('::')[-1] in ('contains_key', 'get') for _, t in b.calls())} - regfns
    nr = 0
    for cb in P.user_bodies():
        if cb.id.startswith(('nundb::client::', 'nundb::command_line::')):
            continue
        for bi, t in cb.calls():
            if callee(t) not in regfns:
                continue
            nr += 1
            guards = []
            for sb_ in cb.reachable():
                ts = cb.term(sb_)
                if ts['k'] != 'switch' or not cb.dominates(sb_, bi):
                    continue
                succ = [x for x in cb.succ(sb_) if not cb.blocks[x].get('cleanup')]
                if all(bi in cb.reach_from([x], include_start=True) for x in succ):
                    continue
                calls, _p = backward_slice(cb, ts['o'])
                if any(callee(cb.term(c)) in readers or (cb.term(c)['f'].get('dargs', '').startswith(REPLS) and
                                                         callee_decl(cb.term(c)).split('::')[-1] in ('contains_key', 'get')) for c in calls):
                    guards.append(cb.loc(sb_))
            ck.ob('C15.f', short(cb.id), 'registration-unconditional', not guards,
                  'the copy sent to a server is registered whatever the per-server map holds' if not guards else
                  '%s registers the server only if the per-server map does not know it yet (%s): an early, refused acknowledgement of that '
                  'server has already left an entry there, so the copy sent to it later is not counted — the operation is removed from '
                  'pending_opps although that server never acknowledged it' % (short(cb.id), guards), cb.loc(bi))
    ck.floor('C15.f', nr, 1, 'call sites of the registering function')
    # ---- (c) ---------------------------------------------------------------------------
    full = [b for b in P.user_bodies() if b.kind == 'method' and b.locals[0] == 'bool' and b.argc == 1
            and b.locals[1] == '&nundb::bo::ReplicationMessage']
    isfull = None
    for b in full:
        # returns Eq of two loads of the two counters
        for r in core.place_origins(b, {'l': 0}):
            if r[0] == 'arith':
                rv = b.blocks[r[1]]['s'][r[2]]['r']
                if rv.get('op') == 'Eq':
                    flds = set()
                    for k in ('a', 'b'):
                        for r2 in origins(b, rv[k], stop_at_calls=True):
                            if r2[0] == 'call' and core.is_atomic_load(b.term(r2[1])):
                                flds.add(counter_field(b, b.term(r2[1])['args'][0]))
                    if flds == {'ack_count', 'replicate_count'}:
                        isfull = b
    ck.ob('C15.c', 'is_full_acknowledged', 'equality-of-counters', isfull is not None,
          'is_full_acknowledged returns replicate_count == ack_count' if isfull is not None else
          'no (&ReplicationMessage) -> bool method returning replicate_count == ack_count', '')
    # nothing but the removal of ONE fully acknowledged operation takes entries out of the table: a sweep (retain / clear / drain) forgets
    # operations that some node has not acknowledged yet
    sweeps = []
    for b in P.user_bodies():
        if b.id.startswith(('nundb::client::', 'nundb::command_line::')):
            continue
        for bi, t in b.calls():
            if t['f'].get('dargs', '').startswith(PENDING) and callee_decl(t).split('::')[-1] in ('retain', 'clear', 'drain', 'extract_if', 'remove_entry', 'shrink_to'):
                if callee_decl(t).split('::')[-1] != 'shrink_to':
                    sweeps.append('%s in %s (%s)' % (callee_decl(t).split('::')[-1], short(b.id), b.loc(bi)))
    ck.ob('C15.c', 'pending_opps', 'no-sweep-of-the-pending-table', not sweeps,
          'entries leave the pending table one at a time (HashMap::remove under the fullness test)' if not sweeps else
          'the pending table is swept: %s — operations that are still unacknowledged by some node stop being pending, and their late '
          'acknowledgements are refused as unknown' % sweeps[:3], sweeps[0].split('(')[-1].rstrip(')') if sweeps else '')
    nrem = 0
    for b in mut:
        for bi, t in b.calls():
            if t['f'].get('dargs', '').startswith(PENDING) and callee_decl(t).endswith('::remove'):
                nrem += 1
                ok = False
                if isfull is not None:
                    for fbi, ft in b.calls():
                        if callee(ft) == isfull.id:
                            for (sbi, tt, ff) in bool_switches(b, fbi):
                                if b.dominates(tt, bi) and not b.dominates(ff, bi):
                                    ok = True
                ck.ob('C15.c', short(b.id), 'remove-only-when-full', ok,
                      'the entry is removed only on the branch where is_full_acknowledged() answered true' if ok else
                      'pending_opps.remove is reachable without is_full_acknowledged() being true', b.loc(bi))
    ck.floor('C15.c', nrem, 1, 'removals from pending_opps')
    # the fullness test (and with it the removal) follows EVERY counted acknowledgement: an exit between the count and
    # the test leaves a fully acknowledged entry pending for ever (every later ack of it is a duplicate and is not counted)
    nack = 0
    for b in mut:
        for abi, at in b.calls():
            if len(ackf) != 1 or callee(at) != ackf[0].id:
                continue
            if isfull is None:
                continue
            tests = [fbi for fbi, ft in b.calls() if callee(ft) == isfull.id]
            rems = [bi for bi, t in b.calls() if t['f'].get('dargs', '').startswith(PENDING) and callee_decl(t).endswith('::remove')]
            for (sbi, tt, ff) in bool_switches(b, abi):
                nack += 1
                tested = any(b.postdominates(x, tt) or x == tt for x in tests)
                removed = all(any(b.postdominates(r, ft_) or r == ft_ for r in rems)
                              for x in tests for (_s, ft_, _f) in bool_switches(b, x))
                ok = tested and removed and bool(rems)
                ck.ob('C15.c', short(b.id), 'full-test-follows-every-counted-ack', ok,
                      'every path from a counted acknowledgement reaches the is_full_acknowledged() test, whose true branch always removes' if ok else
                      'a counted acknowledgement can leave the function without reaching the fullness test / the removal (test on every path: %s, '
                      'removal on every full path: %s): the last acknowledgement is counted, the entry stays in pending_opps, and no later '
                      'acknowledgement can remove it (duplicates are not counted) — the operation is pending for ever' % (tested, removed), b.loc(abi))
    ck.floor('C15.c', nack, 1, 'acknowledgement sites whose result guards the fullness test')
    # ---- (d) ---------------------------------------------------------------------------
    nw = 0
    for b in P.user_bodies():
        if b.id.startswith(('nundb::client::', 'nundb::command_line::')):
            continue
        for bi, t in b.calls():
            d = callee_decl(t)
            if d.startswith('std::sync::atomic::Atomic') and d.split('::')[-1] in ('fetch_sub', 'store', 'swap', 'fetch_add', 'compare_exchange'):
                fld = counter_field(b, t['args'][0])
                if fld in ('ack_count', 'replicate_count'):
                    nw += 1
                    meth = d.split('::')[-1]
                    ck.ob('C15.d', short(b.id), '%s:%s' % (fld, meth), meth == 'fetch_add',
                          '%s is only ever increased (%s in %s)' % (fld, meth, short(b.id)) if meth == 'fetch_add' else
                          '%s is modified by %s in %s' % (fld, meth, short(b.id)), b.loc(bi))
    ck.floor('C15.d', nw, 2, 'writes to the two counters')
    # ---- (e) ---------------------------------------------------------------------------
    ex = m.explorer()
    effs, raw = m.arm_effects('Acknowledge')
    n = 0
    ackers = {b.id for b in mut}
    for ev in raw:
        if ev.kind == 'local-call' and ev.name in ackers:
            n += 1
            a1 = ex.absvals(ev.frame, ev.term['args'][1])
            a2 = ex.absvals(ev.frame, ev.term['args'][2])
            d1 = sorted(ex.describe(v) for v in a1)
            d2 = sorted(ex.describe(v) for v in a2)
            ok = d1 == ['arg1.<Acknowledge>.opp_id'] and d2 == ['arg1.<Acknowledge>.server_name']
            ck.ob('C15.e', 'dispatcher', 'Acknowledge:arguments', ok,
                  'acknowledge(%s, %s)' % (d1, d2), ev.loc())
    ck.floor('C15.e', n, 1, 'calls to the acknowledge function in the Acknowledge arm')
    # an acknowledgement is counted whatever the node's role is at that moment: the election registers its candidacy copies while the node is
    # StartingUp and waits for exactly these acknowledgements; a node demoted a moment ago still owes its table the late ones
    ck.rule('C15.k', 'an acknowledgement that arrives is always handed to the pending table: in the Acknowledge arm no test of the node\'s own state '
                     '(is_primary / role / eligibility, or any other crate function) decides whether the acknowledge function is called — acks '
                     'received while the node is not primary (during its own election, just after a demotion) would be dropped and their operations '
                     'stay pending for ever')
    nk = 0
    for ev in raw:
        if ev.kind == 'local-call' and ev.name in ackers:
            nk += 1
            body = ev.frame.body
            bad = []
            for sw in locks.controlling_switches(body, ev.bi):
                calls_, _params = locks.backward_slice(body, body.term(sw)['o'], control=True)
                for c in sorted(calls_):
                    if P.bodies.get(callee(body.term(c))) is not None:
                        bad.append('%s (%s)' % (short(callee(body.term(c))), body.loc(c)))
            ck.ob('C15.k', 'dispatcher', 'Acknowledge:counted-whatever-the-role', not bad,
                  'the acknowledge function is called on every path of the arm that passed the administrator check' if not bad else
                  'the call of the acknowledge function is decided by %s: an acknowledgement that arrives in the other state is answered Ok and '
                  'dropped' % sorted(set(bad)), ev.loc())
    ck.floor('C15.k', nk, 1, 'calls to the acknowledge function in the Acknowledge arm')


def const_sources(b, local, _seen=None):
    """(constant value, block) pairs for constant assignments that may flow into `local`"""
    seen = _seen or set()
    if local in seen:
        return []
    seen.add(local)
    out = []
    for (bi, si, kind, pl) in b.defs().get(local, []):
        if kind != 'assign':
            continue
        if pl['k'] == 'use':
            o = pl['o']
            if 'k' in o:
                out.append((o['k'].get('v'), bi))
            else:
                p = o.get('c') or o.get('m')
                if p and not p.get('p'):
                    out += const_sources(b, p['l'], seen)
    return out


def ack_through_fresh_handle(ck, m):
    """C15.h — see RULES"""
    from nl import wire
    from props import C10
    P = m.prog
    _prods, sch = C10.wire_facts(m)
    n = 0
    for b in P.user_bodies():
        if b.id.startswith(('nundb::client::', 'nundb::command_line::')):
            continue
        for bi, t in b.calls():
            if not callee_decl(t).endswith('mpsc::Sender::try_send') or is_log(t) or len(t['args']) < 2:
                continue
            fmts, _o = wire.message_templates(P, b, t['args'][1])
            if not any(sch.get(wire.first_word(f), (None, None, None))[1] == ['Acknowledge'] for f in fmts):
                continue
            n += 1
            clones = [r[1] for r in origins(b, t['args'][0], stop_at_calls=True)
                      if r[0] == 'call' and callee_decl(b.term(r[1])) == 'std::clone::Clone::clone']
            ck.ob('C15.h', short(b.id), 'ack-sent-through-a-fresh-clone', bool(clones),
                  'the acknowledgement is sent through a clone of the session sender made for this send' if clones else
                  'the acknowledgement is sent on the long-lived session sender itself: a futures mpsc Sender has ONE guaranteed slot; once the '
                  'queue holds more replies than the buffer (a burst of rp commands read before their replies are written) try_send answers '
                  '"full", the ack is dropped with a log line, and the primary keeps the operation pending although it was applied', b.loc(bi))
    ck.floor('C15.h', n, 1, 'sends of the acknowledgement line')


def pending_map_read_blocking(ck, m):
    """C15.i — see RULES"""
    from nl.locks import lock_id_of
    P = m.prog
    TRY = ('std::sync::RwLock::try_read', 'std::sync::RwLock::try_write', 'std::sync::Mutex::try_lock')
    n, bad = 0, []
    for b in P.user_bodies():
        if b.id.startswith(('nundb::client::', 'nundb::command_line::')):
            continue
        for bi, t in b.calls():
            d = callee_decl(t)
            if d in TRY + ('std::sync::RwLock::read', 'std::sync::RwLock::write') and t['args'] and 'Databases.pending_opps' in lock_id_of(b, t['args'][0]):
                n += 1
                if d in TRY:
                    bad.append('%s@%s' % (short(b.id), b.loc(bi)))
    ck.ob('C15.i', 'pending_opps', 'no-try-lock', not bad,
          'every access of pending_opps takes the lock and waits (%d accesses)' % n if not bad else
          'pending_opps is read with a try-lock at %s: when the replication thread holds the map (it does while it registers or acknowledges) '
          'the fallback value is reported — `pending_ops: 0` while an operation is registered and nobody has acknowledged it' % bad, bad[0] if bad else '')
    ck.floor('C15.i', n, 4, 'lock acquisitions of Databases.pending_opps')


def link_reader_clears_its_buffer(ck, m):
    """C15.j — see RULES"""
    from props.C07 import natural_loops
    P = m.prog
    pr = m.reentry_names()
    n = 0
    for b in P.user_bodies():
        if b.id.startswith(('nundb::client::', 'nundb::command_line::')):
            continue
        rls = [bi for bi, t in b.calls() if callee_decl(t).endswith('read_line')]
        if not rls or not any(callee(t) in pr for _, t in b.calls()):
            continue
        clears = {bi for bi, t in b.calls() if callee_decl(t) == 'std::string::String::clear'}
        fresh = {bi for bi, t in b.calls() if callee_decl(t) in ('std::string::String::new', 'std::string::String::with_capacity')}
        for h, body in natural_loops(b):
            for r in [x for x in rls if x in body]:
                # a buffer created inside the loop needs no clear
                if any(f in body and b.dominates(f, r) for f in fresh):
                    continue
                n += 1
                back = b.reach_from([r], stop=lambda y: y in clears or y not in body)
                skips = r in back or any(h == y for y in back)
                ck.ob('C15.j', short(b.id), 'line-buffer-cleared-every-iteration', not skips,
                      'every path from the read of a line back to the loop head clears the buffer' if not skips else
                      'the link reader can start the next read_line without clearing the buffer the previous line is still in (a `continue` around '
                      'the clear): read_line appends, so after the first such line every later line — every `ack <id> <name>` of that node — reaches '
                      'the dispatcher glued to the earlier text and is not recognised; the acknowledgements are never counted and the count never '
                      'returns to zero', b.loc(r))
    ck.floor('C15.j', n, 1, 'line reads of a link reader that reuse one buffer')


def self_name_agrees(ck, m, rule='C15.g'):
    """C15.g (repeated as C05.k) — a node has two addresses (`tcp_address` it listens on, `external_tcp_address` it is known by); the
    other nodes register it, count its acknowledgements and address its catch-up under the name it announced.  Every node-to-node
    message in which a node names ITSELF must therefore take the name from one and the same field of its Databases.  The origin of each
    placeholder is followed up the call chain (parameters to call sites, coroutine captures to the async fn's arguments)."""
    from nl import wire
    from props import C10
    P = m.prog
    _prods, sch = C10.wire_facts(m)
    # which fields of Databases are names of the node: those that the code compares with the name of a cluster member
    name_fields = set()
    for b in P.user_bodies():
        if b.id.startswith(('nundb::client::', 'nundb::command_line::')):
            continue
        for bi, t in b.calls():
            if not callee_decl(t).endswith(('PartialEq::eq', 'PartialEq::ne')) or len(t['args']) < 2:
                continue
            sides = [core.deep_field_roots(P, b, a) for a in t['args'][:2]]
            for x, y in ((0, 1), (1, 0)):
                if any(adt.endswith('bo::ClusterMember') and fld == 'name' for adt, fld in sides[x]):
                    name_fields |= {fld for adt, fld in sides[y] if adt.endswith('bo::Databases')}
    ck.floor(rule, len(name_fields), 1, 'fields of Databases that are compared with a cluster member\'s name')
    uses = {}       # first word -> {field: loc}
    for b in P.user_bodies():
        if b.id.startswith(('nundb::client::', 'nundb::command_line::')):
            continue
        for bi, f in core.string_builders(b):
            w = wire.first_word(f)
            if w not in sch:
                continue
            for pc in f.pieces:
                if pc[0] != 'arg' or pc[1] is None or 'String' not in str(pc[2]) and not core.is_str_ty(pc[2]):
                    continue
                for (adt, fld) in core.deep_field_roots(P, b, pc[1]):
                    if adt.endswith('bo::Databases') and fld in name_fields:
                        uses.setdefault(w, {})[fld] = b.loc(bi)
    ackw = [w for w in uses if sch[w][1] == ['Acknowledge']]
    ck.floor(rule, len(ackw), 1, 'acknowledgement templates signed with a Databases field')
    ck.floor(rule, len([w for w in uses if w not in ackw]), 1, 'other node-to-node templates in which the node names itself')
    fields = {}
    for w, u in uses.items():
        for fld, loc in u.items():
            fields.setdefault(fld, []).append('%s (%s)' % (w, loc))
    ok = len(fields) == 1
    ck.ob(rule, 'wire', 'one-self-name-on-the-wire', ok,
          'every node-to-node message in which a node names itself (%s) takes the name from Databases.%s' % (sorted(uses), sorted(fields)[0]) if ok else
          'a node names itself from different fields of its Databases: %s — when the two addresses differ (a node started with an external '
          'address) the other nodes know it under one name and hear from it under another: its acknowledgements count as foreign and nothing '
          'sent to it is ever fully acknowledged, or its catch-up request names a member the primary does not have and nothing is sent'
          % {k: v for k, v in sorted(fields.items())}, '')
