#!/bin/sh
# usage: eval_patch_tree.sh <patch> [Cxx ...] — like eval_seed.sh but on a scratch copy of /repo under mktemp (for use while
# /repo must stay untouched, e.g. during a thorough run).  Prints the alarms of tools/eval_tree.py.
P="$1"; shift
D=$(mktemp -d /tmp/nlpt_XXXXXX)
for n in src Cargo.toml Cargo.lock benches tests; do [ -e /repo/$n ] && cp -r /repo/$n $D/; done
if ! (cd $D && patch -p1 -s --fuzz=3 -i "$P" >/dev/null 2>&1); then echo "PATCH DOES NOT APPLY: $P"; rm -rf $D; exit 2; fi
python3 /verif/tools/eval_tree.py $D "$@" | grep -v " 0 alarms$"
rm -rf $D
