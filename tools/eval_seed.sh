#!/bin/sh
# usage: eval_seed.sh <patch file>  — apply to /repo, run every quick check, report which fire, undo.
P="$1"
cd /repo || exit 2
if ! git apply --check "$P" 2>/dev/null; then echo "PATCH DOES NOT APPLY: $P"; exit 2; fi
git apply "$P"
cd /verif
for i in 01 02 03 04 05 06 07 08 09 10 11 12 13 14 15 16 17 18 19 20; do
  out=$(./check C$i 2>&1); rc=$?
  if [ $rc -ne 0 ]; then echo "C$i FIRES:"; echo "$out" | grep -A2 "^VIOLATION" | grep "rule=\|at " | cut -c1-420 | head -8; fi
done
git -C /repo checkout -- . ; git -C /repo status --short | head -3
