"""C06 — snapshot then restart restores exactly the snapshotted state.

Decides: (a) the per-state write plan of the disk snapshot is total and closed: for every
ValueStatus x {incremental, reclaiming} the arm performs its disk effect and leaves the entry either
marked Ok with offsets of the files just written, or removed from memory, or (Deleted, incremental)
written as deleted through the offset of the current file; (b) every Value inserted into the shared
map for an existing key carries the old entry's disk offsets and a state derived from the old state;
offsets 0 / state New only on the absent-key branch; (c) writer and loader agree on the key record,
the value record, the in-place update and the metadata file; (d) the deleted marker the loader tests
is the constant the writer stores; the ValueStatus / ConsensuStrategy byte tables are inverse;
(e) get_keys_to_update selects every entry whose state is not Ok, all entries when reclaiming;
(f) remove: New -> dropped, otherwise tombstone with the old offsets; the storage dispatch selects the
implementation its StorageStrategy arm names.
Does NOT decide offset arithmetic beyond the codec shape, multi-byte/empty values, equality over histories.
"""
from nl import core, codec
from nl.core import origins, callee, callee_decl, is_log, bool_switches, const_val
from nl.model import short
from props.C02 import remover_fn, store_fn, increment_fn, node_bodies
from props.C12 import enum_to_int

RULES = {
    'C06.a': 'disk snapshot write plan: 4 states x 2 modes, each cell ends Ok-with-new-offsets, removed from memory, or '
             'deleted-in-place through a current offset',
    'C06.b': 'Value inserted for an existing key: offsets from the old entry or the writer, state from the old state; '
             '0 / New only when the key was absent',
    'C06.c': 'codec agreement: key record 8·N·4·8, value record 8·N·4, in-place update 4·8, metadata 8·4 — writer = loader',
    'C06.d': 'deleted marker constant shared by writer and loader; ValueStatus and ConsensuStrategy encode/decode tables inverse',
    'C06.g': 'offset bases are measured on the file generation being written: in the snapshot writer no rename of a data file '
             '(.keys / .values) can follow the measurement of that file\'s size, neither inside one helper nor between helpers',
    'C06.i': 'an offset recorded for a record is the running offset BEFORE it is advanced past that record: in the snapshot writer no '
             'self-increment of a running offset (value_addr, next_key_addr) dominates, inside the same iteration, a call that '
             'records that offset for the entry (set_value_as_ok / write_new_key_value / update_key / write_key)',
    'C06.j': 'a client mutation (store, increment) never stores the state Ok: whatever it writes differs from the disk at least by its '
             'version, so the entry must be selected by the next incremental snapshot (state Updated / New)',
    'C06.k': 'the loader gets every byte of a payload: a read of a variable-length key / value goes straight to the File or uses '
             'read_exact — a plain `read` through a BufReader hands out at most what is left in its buffer and the rest of the value '
             'stays zero-filled',
    'C06.l': 'the state a refused write hands to the conflict resolver (VersionError.state, used for the in-conflict marker write) is the '
             'state after an update (New / Updated), so the marker version is selected by the next incremental snapshot',
    'C06.h': 'the loader advances its running key-record offset on every record it consumed: no path from a record read back to '
             'the loop head skips the advance',
    'C06.e': 'the snapshot selects state != Ok, or everything when reclaiming',
    'C06.f': 'remove: New -> drop from memory, else tombstone(Deleted, old offsets); storage dispatch arms call their own strategy',
    'C06.m': 'an entry of the shared map is marked clean (state Ok) only by replacing it whole with the copy the snapshot wrote: no '
             'field-wise `entry.state = Ok` through a mutable reference into Database.map — the value in memory may be newer than the '
             'one on disk, and marked Ok it is never written again',
    'C06.n': 'two snapshots of one database never overlap: every call of the storage dispatcher (and through it of a data-file writer, '
             'which is not re-entrant: it appends and records offsets as if alone) is made while the write guard of the snapshot '
             'queue Databases.to_snapshot is held — the one lock the declutter thread, the shutdown path and a client all pass',
    'C06.o': 'a key record that was APPENDED (reclaiming snapshot, new key) is remembered at the address it was appended at: a mark-as-saved '
             'call that can follow an append of the key record in the same iteration does not take its key address from the copied entry '
             '(that offset points into the OLD key file; the next in-place update overwrites another record of the rewritten file)',
    'C06.q': 'offsets keep their file: a running offset of the snapshot writer that is advanced by the size of a value record is an address in '
             'the value file, one advanced by the size of a key record an address in the key file (likewise the two offsets copied from the '
             'entry); every such offset reaches only parameters that are used for the same file (stored as Value.value_disk_addr or written '
             'into a key record as its pointer = value file; stored as Value.key_disk_addr or used as the seek position of the in-place update '
             '= key file) — both are u64, the compiler accepts them swapped',
    'C06.p': 'the loader keeps every key record it reads (C11.h, repeated): a record skipped on a size test — an empty value reads 0 bytes — is a live key missing after the restart',
}

STATUS = 'nundb::bo::ValueStatus'


_FRESH = {}


def fresh_ctors(m):
    """functions returning a Value whose disk offsets are literals (Value::from(..)): a from-scratch entry"""
    if _FRESH.get('prog') is not m.prog:
        _FRESH.clear()
        _FRESH['prog'] = m.prog
        ids = set()
        for b in m.prog.user_bodies():
            if b.locals[0] != 'nundb::bo::Value' or b.kind not in ('fn', 'method'):
                continue
            for r in core.place_origins(b, {'l': 0}):
                if r[0] == 'agg':
                    rv = b.blocks[r[1]]['s'][r[2]]['r']
                    if rv.get('adt', '').endswith('bo::Value') and 'value_disk_addr' in rv.get('fields', []):
                        op = rv['ops'][rv['fields'].index('value_disk_addr')]
                        ro = origins(b, op)
                        if ro and all(x[0] == 'const' for x in ro):
                            ids.add(b.id)
        changed = True
        while changed:
            changed = False
            for b in m.prog.user_bodies():
                if b.locals[0] != 'nundb::bo::Value' or b.id in ids or b.kind not in ('fn', 'method'):
                    continue
                for r in core.place_origins(b, {'l': 0}, stop_at_calls=True):
                    if r[0] == 'call' and callee(b.term(r[1])) in ids:
                        ids.add(b.id)
                        changed = True
        _FRESH['ids'] = ids
    return _FRESH['ids']


def writer_cells(m):
    """(writer body, {state: arm entry block}, {(state, mode): region}) of the disk snapshot writer: its switch over the
    entry state, each arm split on the reclaim parameter; raises AnchorError when not found"""
    P = m.prog
    wr = [b for b in P.user_bodies() if b.id.endswith('NodeDrive::storage_data_disk')]
    if len(wr) != 1:
        raise core.AnchorError('disk snapshot writer not found')
    wb = wr[0]
    ssw = None
    for bi in sorted(wb.reachable()):
        t = wb.term(bi)
        if t['k'] == 'switch':
            for r in origins(wb, t['o']):
                if r[0] == 'discr' and wb.blocks[r[1]]['s'][r[2]]['r']['adt'] == STATUS:
                    if ssw is None:
                        ssw = (bi, t)
    if ssw is None:
        raise core.AnchorError('no switch over ValueStatus in the snapshot writer')
    sbi, st = ssw
    tm = {P.variant_of_discr(STATUS, v): tb for v, tb in st['targets']}
    for n in [v['name'] for v in P.adts[STATUS]['variants']]:
        tm.setdefault(n, st['else'])
    out = {}
    for state, tb in sorted(tm.items()):
        arm = {x for x in wb.reachable() if wb.dominates(tb, x) and not any(wb.dominates(o, x) for s2, o in tm.items() if o != tb)}
        # split on the reclaim parameter (parameter 2)
        split = None
        for x in sorted(arm):
            t = wb.term(x)
            if t['k'] == 'switch':
                der = core.derived_bools(wb, 2)
                p = t['o'].get('c') or t['o'].get('m')
                if p and p['l'] in der:
                    zero = [tbb for v, tbb in t['targets'] if str(v) == '0'][0]
                    tt, ft = t['else'], zero
                    if not der[p['l']]:
                        tt, ft = ft, tt
                    split = (tt, ft)
                    break
        if split:
            out[(state, 'reclaim')] = {x for x in arm if wb.dominates(split[0], x)}
            out[(state, 'incremental')] = {x for x in arm if wb.dominates(split[1], x)}
            out[(state, 'both')] = {x for x in arm if not wb.dominates(split[0], x) and not wb.dominates(split[1], x)}
        else:
            out[(state, 'reclaim')] = out[(state, 'incremental')] = arm
            out[(state, 'both')] = set()
    return wb, tm, out


def run(ck, m):
    _run(ck, m)
    offsets_rules(ck, m)
    clean_mark_with_the_written_value(ck, m)
    writers_serialised(ck, m)
    appended_key_remembered_where_appended(ck, m)
    offset_roles(ck, m)
    from nl import alias
    alias.repeat(ck, m, 'C11', ('C11.h',), 'C06.p', runner=__import__('props.C11', fromlist=['x']).loader_keeps_every_record)
    __import__('props.C11', fromlist=['x']).one_mode_rule(ck, m, rule='C06.r')
    mark_as_saved_always_records(ck, m)
    key_record_written_once(ck, m)


def _run(ck, m):
    for k, v in RULES.items():
        ck.rule(k, v)
    P = m.prog
    # ---- (a) ---------------------------------------------------------------------------
    try:
        wb, tm, regions = writer_cells(m)
    except core.AnchorError as e:
        ck.undecided('C06.a', 'writer', 'anchor', str(e))
        return
    cells = 0

    def effects_in(region):
        # names of everything called in the region, looking into the private helpers of the writer (an arm's body may have been
        # extracted into a helper function)
        calls = []
        decls = []

        def visit(body, blocks, depth):
            for x in sorted(blocks):
                tx = body.term(x)
                if tx['k'] != 'call' or is_log(tx):
                    continue
                calls.append(callee(tx).split('::')[-1])
                decls.append(callee_decl(tx))
                cb_ = P.bodies.get(callee(tx))
                if cb_ is not None and depth < 3 and not tx['f'].get('ind') and cb_.id.startswith('nundb::storage::') \
                        and cb_.id != body.id:
                    visit(cb_, cb_.reachable(), depth + 1)
        visit(wb, region, 0)
        effects_in.decls = decls
        return calls
    for state, tb in sorted(tm.items()):
        modes = {'reclaim': regions[(state, 'reclaim')] | regions[(state, 'both')],
                 'incremental': regions[(state, 'incremental')] | regions[(state, 'both')]}
        for mode, region in sorted(modes.items()):
            cells += 1
            calls = effects_in(region)
            marks_ok = any(c in ('set_value_as_ok', 'write_new_key_value') for c in calls)
            removes = 'std::collections::HashMap::remove' in effects_in.decls
            in_place = 'update_key' in calls
            panics = any(wb.term(x)['k'] == 'call' and (callee_decl(wb.term(x)).startswith('std::panicking') or
                                                           callee(wb.term(x)).split('::')[-1] in ('panic_fmt', 'begin_panic', 'panic'))
                         for x in region)
            ok = marks_ok or removes or panics
            why = 'marks Ok with the offsets just written' if marks_ok else ('removes the entry from memory' if removes else
                                                                              ('unreachable by the selection (panics)' if panics else ''))
            if state == 'Deleted' and mode == 'incremental':
                ok = in_place and not removes
                why = 'writes the deleted marker in place through the entry\'s key offset (same file generation) and keeps the tombstone'
            if state == 'Ok' and mode == 'incremental':
                ok = panics or marks_ok
            ck.ob('C06.a', short(wb.id), 'cell:%s:%s' % (state, mode), ok,
                  '(%s, %s): %s' % (state, mode, why) if ok else
                  '(%s, %s): the entry is left in memory with its old state and offsets although the files were rewritten '
                  '(calls: %s)' % (state, mode, calls[:6]), wb.loc(tb))
    ck.floor('C06.a', cells, 8, 'state x mode cells')
    # offsets handed to set_value_as_ok are the addresses of this run (value_addr / next_key_addr / the entry's key offset when updating in place)
    # ---- (b) ---------------------------------------------------------------------------
    ex = m.explorer()
    fx = m.fx()
    nb = 0
    for b in node_bodies(m):
        top = None
        for bi, t in b.calls():
            if not (t['f'].get('dargs', '').startswith('std::collections::HashMap::<std::string::String, nundb::bo::Value>::') and
                    callee_decl(t).endswith('::insert')):
                continue
            if top is None:
                top = ex.top_frame(b)
            if not fx.guard_sources(top, t['args'][0]):
                continue
            for r in origins(b, t['args'][2], stop_at_calls=True):
                if r[0] == 'call' and callee(b.term(r[1])) in fresh_ctors(m):
                    # a Value built from scratch (state New, offsets 0): only for a key that is not in the map
                    from props.C02 import literal_ok
                    nb += 1
                    ok, why = literal_ok(m, b, [r[1]], 1)
                    ck.ob('C06.b', short(b.id), 'fresh-value:%s' % short(callee(b.term(r[1]))), ok,
                          'a Value built from scratch is inserted only on the branch where the key was absent' if ok else
                          'a Value built from scratch (state New, disk offsets 0) can replace an existing entry: %s — the snapshot then no '
                          'longer marks the old record deleted and the removed key comes back after a restart' % why, b.loc(r[1]))
                    continue
                if r[0] != 'agg':
                    continue
                rv = b.blocks[r[1]]['s'][r[2]]['r']
                if not rv.get('adt', '').endswith('bo::Value'):
                    continue
                nb += 1
                f = dict(zip(rv['fields'], rv['ops']))
                probs = []
                for fld in ('value_disk_addr', 'key_disk_addr'):
                    rs = origins(b, f[fld])
                    lit = [const_val(x) for x in rs if x[0] == 'const']
                    if lit:
                        # literal offset only on the absent branch
                        from props.C02 import literal_ok
                        ok, why = literal_ok(m, b, [r[1]], 1)
                        if not ok:
                            probs.append('%s = literal %s for a key that may exist' % (fld, lit))
                if 'New' in core.enum_variants_of(b, f['state'], stop_at_calls=True):
                    from props.C02 import literal_ok
                    ok, why = literal_ok(m, b, [r[1]], 1)
                    if not ok:
                        probs.append('state = New for a key that may exist')
                ck.ob('C06.b', short(b.id), 'insert:%d' % nb, not probs,
                      'the inserted Value takes its offsets and state from the old entry / its parameters' if not probs else '; '.join(probs),
                      b.loc(bi))
    ck.floor('C06.b', nb, 4, 'Value aggregates inserted into the shared map')
    # ---- (c) ---------------------------------------------------------------------------
    def lay(name, fn):
        bs = [b for b in P.user_bodies() if b.id.endswith(name)]
        return fn(bs[0]) if bs else None
    wk = lay('storage::disk::write_key', codec.write_layout)
    wv = lay('storage::disk::write_value', codec.write_layout)
    wm = lay('storage::disk::write_metadata_file', codec.write_layout)
    wu = lay('storage::disk::update_key', codec.write_layout)
    rl = lay('storage::disk::create_db_from_file_name', lambda b_: codec.read_layout_deep(P, b_))
    rm = lay('storage::disk::load_db_metadata_from_disk_or_empty', codec.read_layout)
    if None in (wk, wv, wm, wu, rl, rm):
        ck.undecided('C06.c', 'codec', 'anchors', 'writer / loader functions not all found')
    else:
        kw = [w for w, s, bi in wk]
        vw = [w for w, s, bi in wv]
        rw = [w if w is not None else 'N' for w, s, bi, base in rl]
        ok = kw == [8, 'N', 4, 8] and rw[:4] == kw
        ck.ob('C06.c', 'key-record', 'layout', ok, 'key record written %s, read %s' % (kw, rw[:4]), '')
        okv = vw == [8, 'N', 4] and rw[4:6] == vw[:2]
        ck.ob('C06.c', 'value-record', 'layout', okv, 'value record written %s, read %s (+ status not needed by the loader)' % (vw, rw[4:6]), '')
        # the update may assemble the tail in a buffer (extend_from_slice) and write that buffer once
        uw = [w for w, s, bi in wu if w != 'N']
        oku = uw == kw[2:] or uw == [12]
        ck.ob('C06.c', 'in-place-update', 'layout', oku, 'in-place update writes %s = the tail of the key record %s' % (uw, kw[2:]), '')
        mw = [w for w, s, bi in wm]
        mr = [w for w, s, bi, base in rm]
        ck.ob('C06.c', 'metadata', 'layout', mw == mr == [8, 4], 'metadata written %s, read %s' % (mw, mr), '')
        # sources: version and address go where the loader expects them
        srcs = [s for w, s, bi in wk]
        oks = 'version' in (srcs[2] or '') and 'addr' in (srcs[3] or '')
        ck.ob('C06.c', 'key-record', 'field-sources', oks, 'key record fields come from %s' % srcs, '')
    # ---- (d) ---------------------------------------------------------------------------
    consts = codec.const_items(P, 'storage::disk::VERSION_DELETED')
    users = set()
    for b in P.user_bodies():
        if not b.id.startswith('nundb::storage::disk::'):
            continue
        for bl in b.blocks:
            txt = str(bl)
            if 'storage::disk::VERSION_DELETED' in txt:
                users.add(short(b.id))
    okd = len(users) >= 2 and all(len(v) == 1 for v in consts.values())
    ck.ob('C06.d', 'deleted-marker', 'shared-constant', okd,
          'writer and loader use the same VERSION_DELETED item (%s) in %s' % (consts, sorted(users)) if okd else
          'the deleted marker is not one shared constant: %s used in %s' % (consts, sorted(users)), '')
    for adt, enc_name, dec_name in (('nundb::bo::ValueStatus', 'bo::ValueStatus::to_le_bytes', 'bo::ValueStatus as std::convert::From<i32>>::from'),
                                    ('nundb::bo::ConsensuStrategy', 'bo::ConsensuStrategy::to_le_bytes', 'bo::ConsensuStrategy as std::convert::From<i32>>::from')):
        eb = [b for b in P.user_bodies() if b.id.endswith(enc_name)]
        db_ = [b for b in P.user_bodies() if dec_name in b.id]
        if not eb or not db_:
            ck.undecided('C06.d', adt.split('::')[-1], 'tables', 'encode/decode functions not found')
            continue
        enc = enum_to_bytes(P, eb[0], adt)
        from props.C12 import int_to_enum
        dec = int_to_enum(P, db_[0])
        # default arm of the decoder
        default = decoder_default(db_[0])
        okt = bool(enc) and all(dec.get(v, default) == k for k, v in enc.items()) and len(enc) == len(P.adts[adt]['variants'])
        ck.ob('C06.d', adt.split('::')[-1], 'tables-inverse', okt,
              'encode %s / decode %s (default %s) are inverse' % (enc, dec, default) if okt else 'encode %s vs decode %s (default %s)' % (enc, dec, default), '')
    # ---- (e) ---------------------------------------------------------------------------
    shp = selection_shape(m)
    ok, okor = shp['compares_ok'], shp['or_reclaim']
    ck.ob('C06.e', 'get_keys_to_update', 'selection', ok and okor,
          'selects state != Ok, or everything when the reclaim flag is set' if ok and okor else 'selection predicate: state test=%s, || reclaim=%s' % (ok, okor), '')
    # ---- (f) ---------------------------------------------------------------------------
    rb = remover_fn(m)
    okf = False
    whyf = 'no comparison of the old state with New'
    for bi, t in rb.calls():
        if callee_decl(t) in ('std::cmp::PartialEq::eq', 'std::cmp::PartialEq::ne') and 'ValueStatus' in t['f'].get('dargs', ''):
            isnew = any(core.const_of(r) and core.const_of(r).get('variant') == 'New' for a in t['args'] for r in origins(rb, a))
            if not isnew:
                continue
            for (s2, tt, ft) in bool_switches(rb, bi):
                new_t = tt if callee_decl(t).endswith('::eq') else ft
                oth_t = ft if callee_decl(t).endswith('::eq') else tt
                new_reg = {x for x in rb.reachable() if rb.dominates(new_t, x) and not rb.dominates(oth_t, x)}
                oth_reg = {x for x in rb.reachable() if rb.dominates(oth_t, x) and not rb.dominates(new_t, x)}
                drops = [x for x in new_reg if rb.term(x)['k'] == 'call' and callee_decl(rb.term(x)) == 'std::collections::HashMap::remove']
                tombs = [x for x in oth_reg if rb.term(x)['k'] == 'call' and (callee_decl(rb.term(x)) == 'std::collections::HashMap::insert'
                                                                             or callee(rb.term(x)).endswith('set_value_version'))]
                deleted = False
                for x in tombs:
                    for a in rb.term(x)['args']:
                        for r in origins(rb, a, stop_at_calls=True):
                            if r[0] == 'agg':
                                rv = rb.blocks[r[1]]['s'][r[2]]['r']
                                if 'state' in rv.get('fields', []):
                                    if core.enum_variants_of(rb, rv['ops'][rv['fields'].index('state')]) == {'Deleted'}:
                                        deleted = True
                            elif r[0] == 'const':
                                c = core.const_of(r)
                                if c.get('variant') == 'Deleted':
                                    deleted = True
                okf = bool(drops) and bool(tombs) and deleted
                whyf = 'New -> dropped from memory; anything else -> tombstone (Deleted)' if okf else \
                    'New branch drops=%s, other branch tombstones=%s with Deleted=%s' % (bool(drops), bool(tombs), deleted)
    ck.ob('C06.f', short(rb.id), 'remove-decision', okf, whyf, '%s:%s' % (rb.file, rb.line))
    for name in ('load_all_dbs', 'storage_data'):
        bs = [b for b in P.user_bodies() if b.id.endswith('Databases>::' + name) or b.id.endswith('Databases::' + name)]
        if not bs:
            continue
        b = bs[0]
        arms = strategy_arms(P, b)
        want = {'Disk': 'NodeDrive', 'S3': 'S3Storage', 'S3Patition': 'S3PartitionStorage'}
        okd = bool(arms) and all(any(want[k] + '::' in c for c in v) and not any(w + '::' in c for kk, w in want.items() if kk != k for c in v)
                                 for k, v in arms.items()) and set(arms) == set(want)
        ck.ob('C06.f', short(b.id), 'dispatch', okd, 'each StorageStrategy arm calls its own implementation: %s' % {k: [c.split('::')[-2] for c in v] for k, v in arms.items()},
              '%s:%s' % (b.file, b.line))


def strategy_arms(P, b):
    adt = 'nundb::bo::StorageStrategy'
    for bi in sorted(b.reachable()):
        t = b.term(bi)
        if t['k'] != 'switch':
            continue
        for r in origins(b, t['o']):
            if r[0] == 'discr' and b.blocks[r[1]]['s'][r[2]]['r']['adt'] == adt:
                tm = {P.variant_of_discr(adt, v): tb for v, tb in t['targets']}
                for n in [v['name'] for v in P.adts[adt]['variants']]:
                    tm.setdefault(n, t['else'])
                out = {}
                for k, tb in tm.items():
                    reg = {x for x in b.reachable() if b.dominates(tb, x) and not any(b.dominates(o, x) for kk, o in tm.items() if o != tb)}
                    out[k] = [callee(b.term(x)) for x in reg if b.term(x)['k'] == 'call' and callee(b.term(x)).startswith('nundb::storage::')]
                return out
    return {}


def enum_to_bytes(P, b, adt):
    """{variant: int} for `match self { V => (k as i32).to_le_bytes() }`"""
    out = {}
    for bi in sorted(b.reachable()):
        t = b.term(bi)
        if t['k'] != 'switch':
            continue
        for r in origins(b, t['o']):
            if r[0] == 'discr' and b.blocks[r[1]]['s'][r[2]]['r']['adt'] == adt:
                tm = {P.variant_of_discr(adt, v): tb for v, tb in t['targets']}
                for n in [v['name'] for v in P.adts[adt]['variants']]:
                    tm.setdefault(n, t['else'])
                for name, tb in tm.items():
                    for x in b.reachable():
                        if b.dominates(tb, x) and not any(b.dominates(o, x) for kk, o in tm.items() if o != tb):
                            tt = b.term(x)
                            if tt['k'] == 'call' and callee_decl(tt).endswith('::to_le_bytes'):
                                vals = [const_val(q) for q in origins(b, tt['args'][0])]
                                if len(vals) == 1:
                                    out[name] = vals[0]
    return out


def decoder_default(b):
    for bi in sorted(b.reachable()):
        t = b.term(bi)
        if t['k'] == 'switch':
            p = t['o'].get('c') or t['o'].get('m')
            if p and p['l'] == 1:
                for x in b.reachable():
                    if b.dominates(t['else'], x):
                        for s in b.blocks[x]['s']:
                            if s['k'] == 'assign' and not s['l'].get('p') and s['l']['l'] == 0 and s['r']['k'] == 'agg':
                                return s['r'].get('variant')
    return None



def _transitive(P, body, pred, depth=0, seen=None):
    """blocks of body whose call (transitively, depth 3) satisfies pred(callee_decl)"""
    seen = seen if seen is not None else set()
    out = []
    for bi, t in body.calls():
        if pred(callee_decl(t)):
            out.append(bi)
            continue
        cb = P.bodies.get(callee(t))
        if cb is not None and depth < 3 and cb.id not in seen:
            seen.add(cb.id)
            if _transitive(P, cb, pred, depth + 1, seen):
                out.append(bi)
    return out


def _suffixes(P, body, depth=0, seen=None):
    """file-name suffix constants (.keys, .values, ...) used in the format strings of a body"""
    seen = seen if seen is not None else set()
    out = set()
    for bi, f in core.string_builders(body):
        for pc in f.pieces:
            if pc[0] == 'lit' and pc[1].startswith('.') and len(pc[1]) > 2:
                out.add(pc[1].split('.')[1])
    for bi, t in body.calls():
        cb = P.bodies.get(callee(t))
        if cb is not None and depth < 2 and cb.id not in seen and cb.id.startswith('nundb::storage::'):
            seen.add(cb.id)
            out |= _suffixes(P, cb, depth + 1, seen)
    return out


def offsets_rules(ck, m):
    P = m.prog
    try:
        wb, tm, regions = writer_cells(m)
    except core.AnchorError as e:
        ck.undecided('C06.g', 'writer', 'anchor', str(e))
        return
    is_rename = lambda d: d == 'std::fs::rename'
    is_measure = lambda d: d in ('std::fs::metadata', 'std::fs::File::metadata', 'std::io::Seek::stream_position', 'std::io::Seek::seek')
    R = _transitive(P, wb, is_rename)
    M = _transitive(P, wb, is_measure)
    # only measurements whose result the writer keeps (offset bases): the call's destination is used later
    kind = {}
    for bi in set(R) | set(M):
        cb = P.bodies.get(callee(wb.term(bi)))
        kind[bi] = _suffixes(P, cb) & {'keys', 'values'} if cb is not None else set()
    bad = []
    for mbi in M:
        for rbi in R:
            if not (kind[mbi] & kind[rbi]):
                continue
            if mbi == rbi:
                cb = P.bodies[callee(wb.term(mbi))]
                ren = _transitive(P, cb, is_rename)
                mea = _transitive(P, cb, is_measure)
                # only a measurement the helper hands back (the offset base), not a mere existence test
                from nl.locks import backward_slice
                kept, _ = backward_slice(cb, {'c': {'l': 0}})
                mea = [y for y in mea if y in kept]
                for y in mea:
                    after = cb.reach_from([y])
                    for x in ren:
                        if x in after and x != y:
                            bad.append('%s measures the file (%s) and renames it afterwards (%s)' % (short(cb.id), cb.loc(y), cb.loc(x)))
            elif rbi in wb.reach_from([mbi]):
                bad.append('%s measures the .%s file at %s, then %s renames it at %s' % (
                    short(callee(wb.term(mbi))), '/.'.join(sorted(kind[mbi] & kind[rbi])), wb.loc(mbi), short(callee(wb.term(rbi))), wb.loc(rbi)))
    ck.ob('C06.g', short(wb.id), 'size-measured-after-rename', not bad,
          'every file size used as an offset base is read after the reclaiming rename of that file' if not bad else
          '%s: after a reclaiming snapshot the offsets kept in memory are those of the OLD file; the next incremental snapshot '
          'updates records at wrong positions and the changes are lost on restart' % '; '.join(bad[:2]), '%s:%s' % (wb.file, wb.line))
    ck.floor('C06.g', len(R), 2, 'helpers of the writer that rename a data file')
    ck.floor('C06.g', len(M), 2, 'helpers of the writer that measure a data file')
    # ---- (j) mutations mark the entry dirty ---------------------------------------------------
    from props.C02 import store_fn, increment_fn
    nj = 0
    for mb in (store_fn(m), increment_fn(m)):
        for bi_, bl_ in enumerate(mb.blocks):
            if bl_.get('cleanup'):
                continue
            for s_ in bl_['s']:
                if s_['k'] == 'assign' and s_['r']['k'] == 'agg' and s_['r'].get('adt', '').endswith('bo::Value') and 'state' in s_['r'].get('fields', []):
                    nj += 1
                    vs = core.enum_variants_of(mb, s_['r']['ops'][s_['r']['fields'].index('state')], stop_at_calls=True)
                    clean = 'Ok' in vs
                    ck.ob('C06.j', short(mb.id), 'mutation-marks-dirty:%d' % nj, not clean,
                          'the entry written by %s is never marked Ok (states: %s)' % (short(mb.id), sorted(vs)) if not clean else
                          '%s can store an entry in state Ok (%s): the incremental snapshot selects state != Ok only, so the version written by '
                          'this mutation never reaches the key file and a restart restores the older version' % (short(mb.id), sorted(vs)), mb.loc(bi_))
    ck.floor('C06.j', nj, 3, 'Value aggregates built by the store and the increment')
    # ---- (l) the state carried by VersionError -------------------------------------------------
    sbod = store_fn(m)
    upd = [b for b in P.user_bodies() if b.kind == 'method' and b.argc == 1 and b.locals[0] == 'nundb::bo::ValueStatus' and b.locals[1] == '&nundb::bo::Value']
    nl_ = 0
    from props.C02 import version_error_sites
    for bi_, op, _b in version_error_sites(m, sbod):
        if True:
            if op is not None:
                nl_ += 1
                roots = origins(sbod, op, stop_at_calls=True)
                from_update = bool(roots) and bool(upd) and all(r[0] == 'call' and callee(sbod.term(r[1])) == upd[0].id for r in roots)
                ck.ob('C06.l', short(sbod.id), 'version-error-carries-updated-state', from_update,
                      'VersionError.state is the state after an update' if from_update else
                      'VersionError.state is %s, not the result of the update-state function: the arbiter path writes the in-conflict marker '
                      '(version -2) with that state; for a key that was clean on disk it stays Ok, the incremental snapshot skips it and a restart '
                      'brings the key back with its pre-conflict version while the conflict record survives'
                      % sorted({r[0] if r[0] != 'param' else 'old.' + '.'.join(q[2] for q in r[-1] if q[0] == 'f') for r in roots}), sbod.loc(bi_))
    ck.floor('C06.l', nl_, 1, 'VersionError aggregates in the store')
    # ---- (i) offsets recorded before they are advanced ------------------------------------------
    from props.C07 import natural_loops as _nl
    wloops = _nl(wb)
    inloop = set()
    for h_, body_ in wloops:
        inloop |= body_
    # running offsets: named u64 variables with a definition `R = R + x` inside the loop (MIR: t = copy R; s = Add(t, x); R = s.0)
    running_at = {}
    running = {}

    def copies_of(l_, seen_=None):
        """locals l_ may be a plain copy of"""
        seen_ = seen_ or set()
        out_ = {l_}
        for (b2, s2, k2, pl2) in wb.defs().get(l_, []):
            if k2 == 'assign' and pl2['k'] == 'use':
                q = pl2['o'].get('c') or pl2['o'].get('m')
                if q and not q.get('p') and q['l'] not in seen_:
                    seen_.add(q['l'])
                    out_ |= copies_of(q['l'], seen_)
        return out_
    for R in range(len(wb.locals)):
        if wb.locals[R] != 'u64' or not wb.var_name(R):
            continue
        for (b2, s2, k2, pl2) in wb.defs().get(R, []):
            if k2 != 'assign' or pl2['k'] != 'use' or b2 not in inloop:
                continue
            q = pl2['o'].get('c') or pl2['o'].get('m')
            if not q:
                continue
            for (b3, s3, k3, pl3) in wb.defs().get(q['l'], []):
                if k3 == 'assign' and pl3['k'] == 'bin' and pl3['op'].startswith('Add'):
                    for side in ('a', 'b'):
                        o_ = pl3[side]
                        p_ = (o_.get('c') or o_.get('m')) if isinstance(o_, dict) else None
                        if p_ and R in copies_of(p_['l']):
                            running.setdefault(R, set()).add(b2)
                            running_at.setdefault(R, set()).add((b2, s2))
    def chain(op_):
        """locals in the backward copy chain of an operand"""
        out, st = set(), []
        p0 = op_.get('c') or op_.get('m')
        if p0:
            st.append(p0['l'])
        while st:
            l_ = st.pop()
            if l_ in out:
                continue
            out.add(l_)
            for (b2, s2, k2, pl2) in wb.defs().get(l_, []):
                if k2 == 'assign' and pl2['k'] == 'use':
                    q = pl2['o'].get('c') or pl2['o'].get('m')
                    if q and not q.get('p'):
                        st.append(q['l'])
        return out
    late = []
    ncalls = 0
    for bi_, t_ in wb.calls():
        if bi_ not in inloop or is_log(t_):
            continue
        if callee(t_).split('::')[-1] not in ('set_value_as_ok', 'write_new_key_value', 'update_key', 'write_key'):
            continue
        for a_ in t_['args']:
            for R, incs in running.items():
                ch_ = chain(a_)
                if R in ch_:
                    ncalls += 1
                    # where the running offset is READ for this argument: the copies `x = R` on the chain (a value copied before the
                    # advance and handed on afterwards is the offset of THIS record), else the call itself
                    reads_ = {(b2, s2) for l_ in ch_ for (b2, s2, k2, pl2) in wb.defs().get(l_, [])
                              if k2 == 'assign' and pl2['k'] == 'use' and ((pl2['o'].get('c') or pl2['o'].get('m') or {}).get('l') == R)
                              and not (pl2['o'].get('c') or pl2['o'].get('m') or {}).get('p')} or {(bi_, 1 << 30)}
                    for (ib_, is_) in running_at.get(R, ()):
                        # reachable from the increment inside the same iteration (not through the loop head)
                        reach_ = wb.reach_from([ib_], stop=lambda q: any(q == h_ for h_, _ in wloops))
                        if any((ib_ != rb_ and rb_ in reach_) or (ib_ == rb_ and is_ < rs_) for rb_, rs_ in reads_):
                            late.append('%s gets %s after it was advanced at %s' % (callee(t_).split('::')[-1], wb.var_name(R), wb.loc(ib_)))
    ck.ob('C06.i', short(wb.id), 'offset-recorded-before-advance', not late,
          'every offset recorded for an entry is read before the running offset is advanced past the record' if not late else
          '%s: the entry remembers the offset of the NEXT record; the next incremental snapshot updates the neighbouring key in place '
          '(or writes past the end of the file) and the change is lost on restart' % '; '.join(sorted(set(late))[:2]), '%s:%s' % (wb.file, wb.line))
    ck.note('C06.i: %d running offsets found in the snapshot writer (named u64 variables advanced inside the loop); the rule is vacuous when the offsets live elsewhere (a parameter struct)' % len(running))
    # ---- (h) the loader's running offset ------------------------------------------------------
    from props.C07 import natural_loops
    ld = [b for b in P.user_bodies() if b.id.endswith('storage::disk::create_db_from_file_name')]
    if len(ld) != 1:
        ck.undecided('C06.h', 'loader', 'anchor', 'disk loader not found')
        return
    lb = ld[0]
    adv = set()
    for bi, bl in enumerate(lb.blocks):
        for s in bl['s']:
            if s['k'] == 'assign' and s['r']['k'] == 'agg' and s['r'].get('adt', '').endswith('bo::Value') and 'key_disk_addr' in s['r'].get('fields', []):
                op = s['r']['ops'][s['r']['fields'].index('key_disk_addr')]
                for r in origins(lb, op):
                    if r[0] == 'arith':
                        adv.add(r[1])
    loops = natural_loops(lb)
    okh = False
    whyh = 'no running offset found in the loader (advance sites: %s)' % sorted(adv)
    for h, body in loops:
        us = [u for u in adv if u in body]
        reads = [bi for bi in body if lb.term(bi)['k'] == 'call' and callee_decl(lb.term(bi)) == 'std::io::Read::read']
        if not us or not reads:
            continue
        skipping = []
        for r in reads:
            if any(lb.dominates(u, r) for u in us):
                continue
            seen = lb.reach_from([r], stop=lambda x: x in us or x not in body)
            # the head reached again without passing an advance?
            if any(h in lb.succ(x) for x in seen if x in body and x not in us) and r != h:
                skipping.append(lb.loc(r))
            elif r == h and any(h in lb.succ(x) for x in seen if x in body and x not in us and x != h):
                skipping.append(lb.loc(r))
        okh = not skipping
        whyh = ('every iteration that read a record advances the running key offset' if okh else
                'a record read at %s can be followed by the next iteration without advancing the running key offset: every later key is '
                'loaded with a key_disk_addr that is too small and the next in-place update overwrites another record' % skipping[:2])
    ck.ob('C06.h', short(lb.id), 'offset-advanced-per-record', okh, whyh, '%s:%s' % (lb.file, lb.line))
    # ---- (k) whole payloads -------------------------------------------------------------------
    short_reads = []
    nreads = 0
    for bi, t in lb.calls():
        if callee_decl(t) not in ('std::io::Read::read',):
            continue
        nreads += 1
        da = t['f'].get('dargs', '')
        recv = lb.locals[(t['args'][0].get('m') or t['args'][0].get('c') or {'l': 0})['l']] if (t['args'][0].get('m') or t['args'][0].get('c')) else ''
        buffered = 'BufReader' in da or 'BufReader' in recv or 'Take<' in da
        if buffered:
            short_reads.append(lb.loc(bi))
    ck.ob('C06.k', short(lb.id), 'payload-read-whole', not short_reads,
          'the loader reads its records straight from the files' if not short_reads else
          'the loader reads through a buffered reader with plain `read` at %s and ignores the count: a value longer than what is left in the '
          'buffer comes back as its first bytes followed by NULs (same length), or the start fails on a cut UTF-8 character' % short_reads[:3],
          '%s:%s' % (lb.file, lb.line))
    ck.floor('C06.k', nreads, 4, 'reads in the loader')



def clean_mark_with_the_written_value(ck, m):
    """C06.m — see RULES"""
    P = m.prog
    VM = 'std::collections::HashMap::<std::string::String, nundb::bo::Value>::'
    MUTS = ('get_mut', 'entry', 'values_mut', 'iter_mut', 'index_mut', 'or_insert', 'or_insert_with', 'and_modify')
    n, bad = 0, []
    for b in P.user_bodies():
        if b.id.startswith(('nundb::client::', 'nundb::command_line::')):
            continue
        for bi, bl in enumerate(b.blocks):
            if bl.get('cleanup'):
                continue
            for s in bl['s']:
                if s['k'] != 'assign' or not s['l'].get('p'):
                    continue
                pr = s['l']['p']
                if not (pr[-1][0] == 'f' and pr[-1][-1] == 'state' and pr[-1][2].endswith('bo::Value')):
                    continue
                n += 1
                rv = s['r']
                ops = [rv['o']] if rv['k'] in ('use', 'cast') else rv.get('ops', [])
                variants = set()
                if rv['k'] == 'agg' and rv.get('variant'):
                    variants.add(rv['variant'])
                for o in ops:
                    variants |= set(core.enum_variants_of(b, o, stop_at_calls=True))
                if 'Ok' not in variants and variants:
                    continue
                base_roots = origins(b, {'m': {'l': s['l']['l']}})
                from_map = any(r[0] == 'call' and b.term(r[1])['f'].get('dargs', '').startswith(VM) and
                               callee_decl(b.term(r[1])).split('::')[-1] in MUTS for r in base_roots)
                if from_map or not variants:
                    bad.append('%s@%s' % (short(b.id), b.loc(bi)))
    ck.ob('C06.m', 'Database.map', 'clean-mark-replaces-the-entry', not bad,
          'no entry of the shared map gets its state set to Ok field-wise (%d field stores to Value.state examined)' % n if not bad else
          'an entry of the shared map is marked Ok in place at %s: the value it holds at that moment may be newer than the copy the '
          'snapshot wrote (a client write landed since the dirty keys were collected); flagged Ok it is skipped by every later '
          'incremental snapshot and a restart returns the older value' % bad, bad[0] if bad else '')



def writers_serialised(ck, m):
    """C06.n — see RULES"""
    from nl import locks
    P = m.prog
    L = locks.LockModel(P)
    try:
        wb, tm, regions = writer_cells(m)
    except core.AnchorError as e:
        ck.undecided('C06.n', 'writer', 'anchor', str(e))
        return
    # the dispatcher(s): bodies outside the storage modules that call a data writer directly
    disp = set()
    for b in P.user_bodies():
        if b.id.startswith(('nundb::client::', 'nundb::command_line::', 'nundb::storage::')):
            continue
        if any(callee(t) == wb.id for _, t in b.calls()):
            disp.add(b.id)
    targets = disp or {wb.id}
    n, bad = 0, []
    for b in P.user_bodies():
        if b.id.startswith(('nundb::client::', 'nundb::command_line::')) or b.id in targets:
            continue
        for bi, t in b.calls():
            if callee(t) not in targets:
                continue
            n += 1
            held = [a for a in L.held_at(b, bi) if 'Databases.to_snapshot' in a.ids and a.mode == 'W']
            if not held:
                bad.append('%s@%s' % (short(b.id), b.loc(bi)))
    ck.ob('C06.n', 'snapshot-queue', 'writers-run-under-the-queue-lock', not bad and n > 0,
          'every call of the storage dispatcher (%d) is made under the write guard of Databases.to_snapshot' % n if not bad else
          'the storage dispatcher is called at %s without the write guard of the snapshot queue: the declutter thread, a shutdown and a '
          'client `snapshot` can then write the same database at once — the writer is not re-entrant, the appends interleave, each '
          'records offsets as if it were alone, and a restart loads garbage' % bad, bad[0] if bad else '')
    ck.floor('C06.n', n, 1, 'calls of the storage dispatcher')



def appended_key_remembered_where_appended(ck, m):
    """C06.o — see RULES"""
    from props.C07 import natural_loops
    P = m.prog
    try:
        wb, tm, regions = writer_cells(m)
    except core.AnchorError as e:
        ck.undecided('C06.o', 'writer', 'anchor', str(e))
        return
    marks = [b for b in P.user_bodies() if b.id.endswith('bo::Database::set_value_as_ok')]
    appends = [b for b in P.user_bodies() if b.id.endswith('storage::disk::write_key')]
    if not marks or not appends:
        ck.undecided('C06.o', 'writer', 'anchor', 'mark-as-saved / key appender not found')
        return
    n = 0
    scope = [wb] + [h for h in P.private_helpers(wb)]
    for b in scope:
        loops = natural_loops(b)
        ws = [bi for bi, t in b.calls() if callee(t) == appends[0].id]
        cs = [bi for bi, t in b.calls() if callee(t) == marks[0].id]
        for c in cs:
            t = b.term(c)
            # the key-address argument: the parameter of the mark function named after the key file offset (position 4: key, value,
            # value addr, KEY addr, op id)
            if len(t['args']) < 5:
                continue
            heads = [h for h, body in loops if c in body]
            stop = (lambda y: y in heads) if heads else None
            after_append = [w for w in ws if c in b.reach_from([w], stop=stop)]
            if not after_append:
                continue
            n += 1
            # the value the operand has on a path THROUGH the append: when the operand's local is (re)defined between the append and
            # the mark call (`let (key_addr, key_size) = if .. { (entry addr, 0) } else { (running offset, write_key(..)) }`), only
            # those definitions count; a definition made on the other branch is not on such a path
            op4 = t['args'][4]
            pl4 = op4.get('c') or op4.get('m')
            between = set()
            for w in after_append:
                fw = b.reach_from([w], stop=stop, include_start=True)
                between |= {x for x in fw if c in b.reach_from([x], stop=stop, include_start=True)}
            ops_on_path = []
            seen_l = set()

            def resolve(op_, depth=0):
                """operands that give `op_` its value on a path through the append"""
                q_ = op_.get('c') or op_.get('m')
                if q_ is None or depth > 8:
                    return [op_]
                fidx = [e[1] for e in (q_.get('p') or []) if e[0] == 'f']
                if (q_['l'], tuple(fidx)) in seen_l:
                    return []
                seen_l.add((q_['l'], tuple(fidx)))
                defs_ = [(dbi, rv) for (dbi, dsi, kind, rv) in b.defs().get(q_['l'], []) + b.defs().get(('partial', q_['l']), [])
                         if kind == 'assign' and dbi in between]
                if not defs_:
                    return [op_]
                out_ = []
                for dbi, rv in defs_:
                    rv_ = rv if 'k' in rv and rv['k'] != 'assign' else rv.get('r', rv)
                    if rv_['k'] in ('use', 'cast') and not fidx:
                        out_ += resolve(rv_['o'], depth + 1)
                    elif rv_['k'] == 'agg' and fidx and fidx[0] < len(rv_['ops']):
                        out_ += resolve(rv_['ops'][fidx[0]], depth + 1)
                    elif rv_['k'] in ('use', 'cast') and fidx:
                        src = rv_['o'].get('c') or rv_['o'].get('m')
                        if src is not None:
                            o2 = {'c': {'l': src['l'], 'p': list(src.get('p') or []) + [['f', fidx[0]]]}}
                            out_ += resolve(o2, depth + 1)
                        else:
                            out_.append(rv_['o'])
                    else:
                        out_.append(op_)
                return out_
            ops_on_path = resolve(op4)
            probe = ops_on_path or [op4]
            from_entry = [r for o_ in probe for r in origins(b, o_) if any(q and q[0] == 'f' and q[2] == 'key_disk_addr' for q in (r[-1] or ()))]
            ck.ob('C06.o', short(b.id), 'appended-key-remembered-where-appended:%d' % n, not from_entry,
                  'after an append the entry is remembered at the running offset of the key file' if not from_entry else
                  'the mark-as-saved at %s can follow an append of the key record (%s) and still takes the key address from the copied entry: after '
                  'a reclaiming snapshot the entry keeps its offset into the OLD key file — the next incremental snapshot writes its 12-byte '
                  'in-place update into another key\'s record of the rewritten file' % (b.loc(c), [b.loc(w) for w in after_append]), b.loc(c))
    ck.floor('C06.o', n, 1, 'mark-as-saved calls that can follow an append of the key record')


def selection_shape(m):
    """the snapshot's selection of entries (`state != Ok || reclaim`), as a bool closure handed to the generic filter or as a loop in the
    selecting function itself: -> dict(found, compares_ok, or_reclaim, total_when_reclaim, why)"""
    from props.C07 import natural_loops
    P = m.prog
    out = {'found': False, 'compares_ok': False, 'or_reclaim': False, 'total_when_reclaim': False, 'why': 'selection not found', 'body': None}
    sel_fns = [b for b in P.user_bodies() if b.kind in ('fn', 'method') and b.locals[0].startswith('std::vec::Vec<(std::string::String, nundb::bo::Value)>')
               and 'bool' in b.locals[1:b.argc + 1]]
    for sb in sel_fns:
        flag = [i for i in range(1, sb.argc + 1) if sb.locals[i] == 'bool']

        def ok_compares(body):
            return [bi for bi, t in body.calls() if callee_decl(t) in ('std::cmp::PartialEq::ne', 'std::cmp::PartialEq::eq')
                    and any(core.const_of(r) and core.const_of(r).get('variant') == 'Ok' for a in t['args'] for r in origins(body, a))]
        closures = [cb for k, cb in P.bodies.items() if k.startswith(sb.id + '::{closure') and not cb.promoted and cb.locals[0] == 'bool']
        if closures:
            cb = closures[0]
            out.update(found=True, body=cb)
            cmp_ = ok_compares(cb)
            out['compares_ok'] = bool(cmp_)
            roots = list(core.place_origins(cb, {'l': 0}))
            site = P.closure_sites().get(cb.id)

            def is_flag(r):
                return r[0] == 'capture' and site is not None and r[1] < len(site[3]) and any(
                    r2[0] == 'param' and r2[1] in flag for r2 in origins(site[0], site[3][r[1]]))
            for bi in cmp_:
                for (s2, tt, ft) in bool_switches(cb, bi):
                    eq = callee_decl(cb.term(bi)).endswith('::eq')
                    ok_edge = tt if eq else ft          # the edge on which the state IS Ok
                    reg = {x for x in cb.reachable() if cb.dominates(ok_edge, x)}
                    for (dbi, dsi, kind, pl) in cb.defs().get(0, []):
                        if dbi in reg and kind == 'assign' and pl['k'] == 'use' and any(is_flag(r) for r in origins(cb, pl['o'])):
                            out['or_reclaim'] = True
            bad = [r for r in roots if not ((r[0] == 'const' and const_val(r) is True) or is_flag(r))]
            out['total_when_reclaim'] = bool(roots) and not bad
            out['why'] = 'closure form: returns %s' % sorted({r[0] if r[0] != 'const' else 'const:%s' % const_val(r) for r in roots})
            return out
        # loop form
        pushes = [bi for bi, t in sb.calls() if callee_decl(t) == 'std::vec::Vec::push']
        cmp_ = ok_compares(sb)
        if not pushes or not cmp_:
            continue
        out.update(found=True, body=sb, compares_ok=True)
        flag_sw = []
        for bi in sb.reachable():
            ts = sb.term(bi)
            if ts['k'] == 'switch' and any(r[0] == 'param' and r[1] in flag for r in origins(sb, ts['o'])):
                zero = [tb for v, tb in ts['targets'] if str(v) == '0']
                if zero:
                    flag_sw.append((bi, ts['else'], zero[0]))
        for bi in cmp_:
            for (s2, tt, ft) in bool_switches(sb, bi):
                eq = callee_decl(sb.term(bi)).endswith('::eq')
                ok_edge = tt if eq else ft
                for (fbi, f_t, f_f) in flag_sw:
                    if sb.dominates(ok_edge, fbi) or fbi == ok_edge:
                        if any(p_ in sb.reach_from([f_t], include_start=True) for p_ in pushes) and not any(
                                sb.dominates(f_f, p_) for p_ in pushes):
                            out['or_reclaim'] = True
        # with the flag true: inside an iteration nothing reaches the loop head around the push
        blocked = {f_f for (_b, _t, f_f) in flag_sw}
        total = True
        for h, body in natural_loops(sb):
            if not any(p_ in body for p_ in pushes):
                continue
            nexts = [x for x in body if sb.term(x)['k'] == 'call' and callee_decl(sb.term(x)) == 'std::iter::Iterator::next']
            for nx in nexts:
                for (sbi, tm, els, adt) in core.enum_switches(sb, nx):
                    some_t = tm.get('1')
                    if some_t is None:
                        continue
                    seen = sb.reach_from([some_t], stop=lambda y: y in pushes or y in blocked or y not in body, include_start=True)
                    if h in seen and some_t != h:
                        total = False
        out['total_when_reclaim'] = total
        out['why'] = 'loop form'
        return out
    return out


# ---- (q) offset roles --------------------------------------------------------------------------
def _back_locals(body, op):
    """locals an operand is computed from: backwards through copies, casts, arithmetic, references and tuples (calls are not followed)"""
    out, st = set(), []
    p0 = (op.get('c') or op.get('m')) if isinstance(op, dict) else None
    if p0:
        st.append(p0['l'])
    while st:
        l_ = st.pop()
        if l_ in out:
            continue
        out.add(l_)
        for (b2, s2, k2, rv) in body.defs().get(l_, []):
            if k2 != 'assign':
                continue
            ops = []
            if rv['k'] in ('use', 'cast'):
                ops = [rv['o']]
            elif rv['k'] == 'bin':
                ops = [rv['a'], rv['b']]
            elif rv['k'] in ('ref', 'rawptr'):
                st.append(rv['p']['l'])
            elif rv['k'] == 'agg' and rv.get('ak') == 'tuple':
                ops = rv['ops']
            for o in ops:
                q = (o.get('c') or o.get('m')) if isinstance(o, dict) else None
                if q:
                    st.append(q['l'])
    return out


def _size_roles(P, body, roots, depth=0):
    """what a record size stands for: the result of the value-record writer is a distance in the value file, of the key-record writer (or of
    the key-size function) a distance in the key file; a helper's result is followed into the helper"""
    out = set()
    for r in roots:
        if r[0] != 'call':
            continue
        c = callee(body.term(r[1]))
        leaf = c.split('::')[-1]
        if leaf == 'write_value':
            out.add('value')
        elif leaf in ('write_key', 'get_key_disk_size'):
            out.add('key')
        elif P.bodies.get(c) is not None and depth < 3:
            g = P.bodies[c]
            out |= _size_roles(P, g, core._local_origins(g, 0, tuple(r[-1]), (), set(), True), depth + 1)
    return out


def _param_roles(P, g, memo, depth=0):
    """role of every u64 parameter of g, from what g does with it: stored as Value.value_disk_addr / written into a record with to_le_bytes
    (only key records hold a pointer, and it points into the value file) -> 'value'; stored as Value.key_disk_addr / turned into a seek
    position (the only positional write is the in-place key update) -> 'key'; handed to another function -> that parameter's role"""
    if g.id in memo:
        return memo[g.id]
    memo[g.id] = {}
    roles = {}
    params = [i for i in range(1, g.argc + 1) if g.locals[i] == 'u64']
    if not params or depth > 4:
        return roles

    def note(op, role_set):
        bl = _back_locals(g, op)
        for i in params:
            if i in bl:
                roles.setdefault(i, set()).update(role_set)
    for bi, t in g.calls():
        if is_log(t):
            continue
        d = callee_decl(t)
        if d == 'std::num::to_le_bytes' and t['args']:
            a0 = t['args'][0]
            q = a0.get('c') or a0.get('m')
            if q and g.locals[q['l']] == 'u64' and not q.get('p'):
                note(a0, {'value'})
            continue
        h = P.bodies.get(callee(t))
        if h is None or h.id == g.id:
            continue
        hr = _param_roles(P, h, memo, depth + 1)
        for j, a in enumerate(t['args']):
            if hr.get(j + 1):
                note(a, hr[j + 1])
    for bl_ in g.blocks:
        if bl_.get('cleanup'):
            continue
        for s in bl_['s']:
            if s['k'] != 'assign' or s['r']['k'] != 'agg' or s.get('exp'):
                continue
            rv = s['r']
            if rv.get('adt', '').endswith('bo::Value'):
                for fname, role in (('value_disk_addr', 'value'), ('key_disk_addr', 'key')):
                    if fname in rv.get('fields', []):
                        note(rv['ops'][rv['fields'].index(fname)], {role})
            elif rv.get('adt') == 'std::io::SeekFrom' and rv.get('variant') == 'Start' and rv['ops']:
                note(rv['ops'][0], {'key'})
    memo[g.id] = roles
    return roles


def offset_roles(ck, m):
    """C06.q — see RULES"""
    from props.C07 import natural_loops as _nl
    P = m.prog
    try:
        wb, tm, regions = writer_cells(m)
    except core.AnchorError as e:
        ck.undecided('C06.q', 'writer', 'anchor', str(e))
        return
    memo = {}
    units = [wb] + [h for h in P.private_helpers(wb) if 'storage::' in h.id]
    npairs = 0
    bad = []
    for ub in units:
        inloop = set()
        for h_, body_ in _nl(ub):
            inloop |= body_
        # running offsets of this body and what they count
        run_roles = {}
        for R in range(len(ub.locals)):
            if ub.locals[R] != 'u64' or not ub.var_name(R):
                continue
            for (b2, s2, k2, rv) in ub.defs().get(R, []):
                if k2 != 'assign' or rv['k'] != 'use' or b2 not in inloop:
                    continue
                q = rv['o'].get('c') or rv['o'].get('m')
                if not q:
                    continue
                for (b3, s3, k3, rv3) in ub.defs().get(q['l'], []):
                    if k3 == 'assign' and rv3['k'] == 'bin' and rv3['op'].startswith('Add'):
                        sides = [rv3['a'], rv3['b']]
                        selfs = [R in _back_locals(ub, o) for o in sides]
                        if any(selfs) and not all(selfs):
                            inc = sides[selfs.index(False)]
                            run_roles.setdefault(R, set()).update(_size_roles(P, ub, origins(ub, inc, stop_at_calls=True)))
        own_params = _param_roles(P, ub, memo)

        def source_roles(op):
            out = set()
            bl = _back_locals(ub, op)
            for R, rs in run_roles.items():
                if R in bl:
                    out |= rs
            for r in origins(ub, op, stop_at_calls=True):
                fs = [q[2] for q in r[-1] if q[0] == 'f'] if r and isinstance(r[-1], tuple) else []
                if fs and fs[-1] == 'value_disk_addr':
                    out.add('value')
                elif fs and fs[-1] == 'key_disk_addr':
                    out.add('key')
            return out
        for bi, t in ub.calls():
            if is_log(t):
                continue
            g = P.bodies.get(callee(t))
            if g is None:
                continue
            gr = _param_roles(P, g, memo)
            for j, a in enumerate(t['args']):
                want = gr.get(j + 1)
                if not want:
                    continue
                have = source_roles(a)
                if not have:
                    continue
                npairs += 1
                if not (have & want):
                    bad.append('%s passes a %s-file offset where %s expects a %s-file offset (argument %d, %s)' % (
                        short(ub.id), '/'.join(sorted(have)), short(g.id), '/'.join(sorted(want)), j + 1, ub.loc(bi)))
        # a parameter that ends up in both roles inside one helper is a swap or a mix-up there
        for i, rs in own_params.items():
            if len(rs) > 1:
                bad.append('%s uses its parameter %s both as a value-file and as a key-file offset' % (short(ub.id), ub.var_name(i) or i))
    ck.ob('C06.q', short(wb.id), 'offsets-keep-their-file', not bad,
          'every offset the snapshot writer hands on (running offsets advanced by the size of a value record / a key record, offsets copied from '
          'the entry) arrives in a parameter that is used as an offset of the same file' if not bad else
          '%s: the key record points at an address of the other file and the entry remembers the wrong one — after a restart the key shows '
          'another key\'s value or garbage, and the next in-place update writes into the middle of a neighbouring record' % '; '.join(sorted(set(bad))[:3]),
          '%s:%s' % (wb.file, wb.line))
    ck.floor('C06.q', npairs, 1, 'offset arguments of the snapshot writer whose role is known on both sides')


def mark_as_saved_always_records(ck, m, rule='C06.s'):
    """C06.s — see RULES"""
    P = m.prog
    ck.rule(rule, 'the mark-as-saved function records the offsets it is handed on every call: its write of the entry (the raw writer call) is '
                  'reached on every path — an early return for an entry that "is clean already" keeps, after a space-reclaiming snapshot that '
                  'rewrote every record, the offsets of the deleted files in memory; the next in-place update lands in another record')
    mk = [b for b in P.user_bodies() if b.kind == 'method' and b.id.endswith('bo::Database::set_value_as_ok')]
    if len(mk) != 1:
        ck.undecided(rule, 'mark-as-saved', 'anchor', 'Database::set_value_as_ok: found %d' % len(mk))
        return
    b = mk[0]
    writes = [bi for bi, t in b.calls() if callee(t).endswith('set_value_version')
              or t['f'].get('dargs', '').startswith('std::collections::HashMap::<std::string::String, nundb::bo::Value>::insert')]
    okf = bool(writes) and any(b.postdominates(x, 0) for x in writes)
    ck.ob(rule, short(b.id), 'mark-as-saved-always-records-the-offsets', okf,
          'the entry write post-dominates the entry of the function' if okf else
          'set_value_as_ok can return without writing the entry (writes at %s do not post-dominate its entry): offsets handed over by the '
          'snapshot writer are dropped for some entries' % [b.loc(x) for x in writes], '%s:%s' % (b.file, b.line))


def key_record_written_once(ck, m, rule='C06.t'):
    """C06.t — see RULES"""
    from nl import locks
    P = m.prog
    ck.rule(rule, 'one key, one key record: whether the writer updates the key record of a changed entry in place or appends a new one is decided '
                  'by the reclaim flag alone — a further test (the offsets are 0, so "there is no record yet": true of the very first key of a '
                  'database) appends a second record for a key that has one; the tombstone of a later remove patches only one of them and the '
                  'other brings the key back after a restart')
    try:
        wb, tm, regions = writer_cells(m)
    except core.AnchorError as e:
        ck.undecided(rule, 'writer', 'anchor', str(e))
        return
    arm = {x for x in wb.reachable() if 'Updated' in tm and wb.dominates(tm['Updated'], x)}
    flags = [i for i in range(1, wb.argc + 1) if wb.locals[i] == 'bool']
    keyw = [bi for bi in sorted(arm) if wb.term(bi)['k'] == 'call' and callee(wb.term(bi)).split('::')[-1] in ('write_key', 'update_key', 'write_new_key_value')]
    bad = []
    for kb in keyw:
        for sw in locks.controlling_switches(wb, kb):
            if sw not in arm:
                continue
            calls_, params_ = locks.backward_slice(wb, wb.term(sw)['o'], control=True)
            extra = [short(callee(wb.term(c))) for c in calls_ if P.bodies.get(callee(wb.term(c))) is not None and not is_log(wb.term(c))]
            others = [p for p in params_ if p not in flags]
            if extra or others:
                bad.append('%s at %s also depends on %s' % (callee(wb.term(kb)).split('::')[-1], wb.loc(kb), sorted(set(extra)) or ['parameter %s' % wb.var_name(p) for p in others]))
    ck.ob(rule, short(wb.id), 'key-record-written-once', bool(keyw) and not bad,
          'in the Updated arm the %d key-record writes are chosen by the reclaim flag alone' % len(keyw) if keyw and not bad else
          'the Updated arm chooses between in-place update and append on more than the reclaim flag: %s' % sorted(set(bad))[:3], '%s:%s' % (wb.file, wb.line))
    ck.floor(rule, len(keyw), 2, 'key-record writes in the Updated arm')
