#!/usr/bin/env python3
"""reconfirm_baseline.py <worktree> <outdir> <n> : a confirmation whose only failed step was the baseline run (a timing-flaky integration test
under load) is completed by repeating that step alone: patch applied to the clean worktree, tools/baseline.py, confirm<n>.json updated."""
import sys, subprocess, json, os
wt, out, n = sys.argv[1], sys.argv[2], sys.argv[3]
cf = os.path.join(out, 'confirm%s.json' % n)
res = json.load(open(cf))
need = ('demo_applies', 'unchanged_plus_demo', 'patch_applies_on_demo', 'patch_plus_demo_fails', 'patch_applies_alone')
if res.get('confirmed') or not all(res.get(k) for k in need):
    print(cf, 'nothing to do', res.get('confirmed'))
    sys.exit(0)
sh = lambda c: subprocess.run(c, shell=True, cwd=wt, stdout=subprocess.PIPE, stderr=subprocess.STDOUT, text=True)
sh('git checkout -- . && git clean -fdq src tests')
assert sh('git apply %s' % os.path.join(out, 'patch%s.diff' % n)).returncode == 0
r = subprocess.run(['python3', '/verif/tools/baseline.py', wt], stdout=subprocess.PIPE, stderr=subprocess.STDOUT, text=True)
res['patch_alone_baseline'] = r.stdout[-600:]
res['patch_alone_baseline_ok'] = r.returncode == 0
sh('git checkout -- . && git clean -fdq src tests')
res['confirmed'] = all(res[k] for k in need + ('patch_alone_baseline_ok',))
json.dump(res, open(cf, 'w'), indent=1)
print(cf, 'CONFIRMED' if res['confirmed'] else 'NOT CONFIRMED', res['patch_alone_baseline'][-200:])
