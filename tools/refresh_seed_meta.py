#!/usr/bin/env python3
"""refresh_seed_meta.py <seed> ... : re-evaluate the TARGETED property of stored seeds on a scratch copy of /repo's HEAD commit with the
seed applied, and update caught_by[<property>] / caught_by_targeted_property in seeded/<seed>/meta.json (the other properties' entries
are left as stored).  Used after rules were added, so that the thorough tier replays the seed under its own property."""
import sys, os, json, subprocess, tempfile, shutil
V = os.path.dirname(os.path.dirname(os.path.abspath(__file__)))
sys.path.insert(0, os.path.join(V, 'engine'))
from nl import selftest, report
known = {(k['property'], k['key']) for k in json.load(open(report.KNOWN)) if k.get('status') == 'known'}
for seed in sys.argv[1:]:
    mp = os.path.join(V, 'seeded', seed, 'meta.json')
    meta = json.load(open(mp))
    pid = meta['property']
    d = tempfile.mkdtemp(prefix='nlrs_')
    try:
        subprocess.check_call('git -C /repo archive HEAD | tar x -C %s && cp /repo/Cargo.lock %s/' % (d, d), shell=True)
        subprocess.check_call(['git', 'apply', os.path.join(V, 'seeded', seed, 'patch.diff')], cwd=d)
        obs, err = selftest.run_on(pid, d)
        if obs is None:
            print(seed, 'EXTRACT FAILED'); continue
        keys = [o['key'] for o in obs if o['verdict'] != 'discharged' and (pid, o['key']) not in known]
        if keys:
            meta.setdefault('caught_by', {})[pid] = keys
        else:
            meta.get('caught_by', {}).pop(pid, None)
        meta['caught_by_targeted_property'] = pid in meta.get('caught_by', {})
        json.dump(meta, open(mp, 'w'), indent=1)
        print(seed, pid, keys[:3])
    finally:
        shutil.rmtree(d, ignore_errors=True)
