"""Classification of explorer events into nun-db specific effects.

Sinks are recognised by the *types* the type checker resolved (the HashMap instantiation, the
field of the struct a lock / channel / atomic lives in), never by variable names.
"""
import json, re
from . import core
from .core import callee, callee_decl

VALUE_MAP = 'std::collections::HashMap::<std::string::String, nundb::bo::Value>::'
WATCH_MAP = 'std::collections::HashMap::<std::string::String, std::vec::Vec<futures::futures_channel::mpsc::Sender<std::string::String>>>::'
DBS_MAP = 'std::collections::HashMap::<std::string::String, nundb::bo::Database>::'
MEMBERS_MAP = 'std::collections::HashMap::<std::string::String, nundb::bo::ClusterMember>::'
PENDING_MAP = 'std::collections::HashMap::<u64, nundb::bo::ReplicationMessage>::'
KEYS_MAP = 'std::collections::HashMap::<std::string::String, u64>::'
IDKEYS_MAP = 'std::collections::HashMap::<u64, std::string::String>::'
REPLICATIONS_MAP = 'std::collections::HashMap::<std::string::String, bool>::'

KEYED_READ = {'get', 'contains_key', 'get_key_value'}
KEYED_WRITE = {'insert', 'remove', 'get_mut', 'entry', 'remove_entry'}
BULK_READ = {'iter', 'values', 'keys', 'len', 'is_empty', 'clone', 'into_iter'}
BULK_WRITE = {'retain', 'clear', 'drain', 'extend', 'iter_mut', 'values_mut'}

LOCK_FNS = {
    'std::sync::RwLock::read': 'R', 'std::sync::RwLock::write': 'W',
    'std::sync::Mutex::lock': 'W',
    'std::sync::RwLock::try_read': 'R', 'std::sync::RwLock::try_write': 'W',
    'std::sync::Mutex::try_lock': 'W',
}

SEND_FNS = ('futures::futures_channel::mpsc::Sender::try_send',
            'futures::futures_channel::mpsc::Sender::start_send',
            'futures::channel::mpsc::Sender::try_send')

ELEMENT_OF = (
    'std::iter::Iterator::next', 'std::iter::IntoIterator::into_iter', 'std::slice::iter',
    'std::vec::Vec::iter', 'std::collections::HashMap::get',
    'std::collections::HashMap::get_mut', 'std::collections::HashMap::iter',
    'std::collections::HashMap::values', 'std::slice::iter_mut',
    'std::ops::Deref::deref', 'std::ops::DerefMut::deref_mut', 'std::ops::Index::index',
    'std::slice::last', 'std::slice::first',
)


def field_steps(path):
    return [s for s in path if s[0] == 'f']


def last_named_field(path):
    """('Adt', 'field') of the last struct-field step of an access path"""
    for s in reversed(path):
        if s[0] == 'f' and s[3] and not s[3].startswith('{closure}') and s[3] != '()':
            return (s[3], s[2])
    return None


def short_adt(a):
    return a.split('::')[-1]


class Fx:
    def __init__(self, ex):
        self.ex = ex
        self._lock_memo = {}

    # ---- locks ----
    def lock_ids(self, fr, operand, depth=0):
        """lock identities ('Database.map', …) that `operand` (the &RwLock/&Mutex receiver)
        may denote"""
        out = set()
        for v in self.ex.absvals(fr, operand):
            out |= self._lock_ids_of_val(v)
        return out

    def _lock_ids_of_val(self, v):
        out = set()
        path = v[-1] if isinstance(v[-1], tuple) else ()
        lf = last_named_field(path)
        if lf:
            out.add('%s.%s' % (short_adt(lf[0]), lf[1]))
        else:
            out.add('?' + self.ex.describe(v))
        return out

    def guard_sources(self, fr, operand, depth=0, want=None):
        """which lock acquisitions the value of `operand` may derive from (through deref,
        unwrap, iterators …): set of (lock_id, mode).  Follows element-of style calls."""
        out = set()
        seen = set()

        def visit(frx, vals, d):
            for v in vals:
                if (v, ) in seen or d > 12:
                    continue
                seen.add((v, ))
                if v[0] == 'call':
                    f2 = self.ex.frames[v[1]]
                    t = f2.body.term(v[2])
                    decl = callee_decl(t)
                    if decl in LOCK_FNS:
                        for lid in self.lock_ids(f2, t['args'][0]):
                            out.add((lid, LOCK_FNS[decl]))
                    elif decl in ELEMENT_OF or decl.endswith('::clone') or decl in core.LOOK_THROUGH:
                        if t['args']:
                            visit(f2, self.ex.absvals(f2, t['args'][0]), d + 1)
                    else:
                        cb = self.ex.prog.bodies.get(callee(t))
                        if cb is not None:
                            # a local helper returning a guard / reference (acquire_dbs_read_lock)
                            visit(f2, self.ex.ret_abs(f2, v[2], cb), d + 1)
        visit(fr, self.ex.absvals(fr, operand), 0)
        return out

    # ---- channels ----
    def chan_kind(self, fr, operand):
        kinds = set()
        seen = set()

        def visit(vals, d):
            for v in vals:
                if v in seen or d > 12:
                    continue
                seen.add(v)
                path = v[-1] if isinstance(v[-1], tuple) else ()
                lf = last_named_field(path)
                if lf:
                    adt, fld = short_adt(lf[0]), lf[1]
                    if adt == 'Client' and fld == 'sender':
                        kinds.add('client')
                        continue
                    if adt == 'ClusterMember' and fld == 'sender':
                        kinds.add('member')
                        continue
                    if adt == 'Databases' and fld == 'replication_sender':
                        kinds.add('repl')
                        continue
                    if adt == 'Databases' and fld == 'replication_supervisor_sender':
                        kinds.add('supervisor')
                        continue
                    if adt == 'Server' and fld == 'out':
                        kinds.add('ws-out')
                        continue
                if v[0] == 'call':
                    f2 = self.ex.frames[v[1]]
                    t = f2.body.term(v[2])
                    decl = callee_decl(t)
                    if decl in LOCK_FNS:
                        for lid in self.lock_ids(f2, t['args'][0]):
                            if lid == 'Watchers.map':
                                kinds.add('watcher')
                            elif lid == 'ClusterState.members':
                                kinds.add('member')
                            else:
                                kinds.add('lock:' + lid)
                        continue
                    if (decl in ELEMENT_OF or decl in core.LOOK_THROUGH or decl.endswith('::clone')) and t['args']:
                        visit(self.ex.absvals(f2, t['args'][0]), d + 1)
                        continue
                    cb = self.ex.prog.bodies.get(callee(t))
                    if cb is not None:
                        visit(self.ex.ret_abs(f2, v[2], cb), d + 1)
                        continue
                    kinds.add('ret:' + callee(t).split('::')[-1])
                elif v[0] == 'top':
                    kinds.add('top%d%s' % (v[1], ''.join('.' + s[2] for s in path if s[0] == 'f')))
                elif v[0] == 'agg':
                    kinds.add('agg')
                else:
                    kinds.add(v[0])
        visit(self.ex.absvals(fr, operand), 0)
        return kinds

    # ---- main classification ----
    def classify(self, ev):
        """-> list of (kind, info dict)"""
        t = ev.term
        if ev.kind == 'store':
            si, st = ev.extra
            fr = ev.frame
            base = {'c': {'l': st['l']['l']}}
            srcs = self.guard_sources(fr, base)
            ids = set()
            for v in self.ex.absvals(fr, {'c': st['l']}):
                ids |= self._lock_ids_of_val(v)
            val = frozenset()
            rv = st['r']
            if rv['k'] == 'use':
                val = self.ex.absvals(fr, rv['o'])
            elif rv['k'] == 'agg':
                val = frozenset([('agg', fr.id, ev.bi, si, ())])
            elif rv['k'] in ('bin', 'un'):
                val = frozenset([('arith', fr.id, ev.bi, si, ())])
            return [('store', {'locks': srcs, 'target': ids, 'value': val})]
        if t is None or ev.kind in ('assert', 'bound'):
            return []
        f = t['f']
        if f.get('ind'):
            return []
        decl = ev.decl
        dargs = f.get('dargs', '')
        rargs = f.get('rargs', '') or dargs
        fr = ev.frame
        out = []
        meth = decl.split('::')[-1]

        def keyvals(i=1):
            if len(t['args']) > i:
                return self.ex.absvals(fr, t['args'][i])
            return frozenset()

        for prefix, tag in ((VALUE_MAP, 'map'), (WATCH_MAP, 'watch'), (DBS_MAP, 'dbs'),
                            (MEMBERS_MAP, 'members'), (PENDING_MAP, 'pending'), (KEYS_MAP, 'keysmap'),
                            (IDKEYS_MAP, 'idkeys'), (REPLICATIONS_MAP, 'replications')):
            if dargs.startswith(prefix) or rargs.startswith(prefix):
                srcs = self.guard_sources(fr, t['args'][0]) if t['args'] else set()
                info = {'locks': srcs, 'method': meth}
                if meth in KEYED_READ:
                    info['key'] = keyvals()
                    out.append((tag + '-read', info))
                elif meth in KEYED_WRITE:
                    info['key'] = keyvals()
                    if meth == 'insert' and len(t['args']) > 2:
                        info['value'] = self.ex.absvals(fr, t['args'][2])
                    out.append((tag + '-write', info))
                elif meth in BULK_READ:
                    out.append((tag + '-bulk-read', info))
                elif meth in BULK_WRITE:
                    out.append((tag + '-bulk-write', info))
                break
        if decl == 'std::clone::Clone::clone' and t['args']:
            t0 = f.get('t0', '')
            for tprefix, tag in (('std::collections::HashMap<std::string::String, nundb::bo::Value', 'map'),
                                 ('std::collections::HashMap<std::string::String, std::vec::Vec<futures::futures_channel::mpsc::Sender<', 'watch'),
                                 ('std::collections::HashMap<std::string::String, u64', 'keysmap'),
                                 ('std::collections::HashMap<std::string::String, nundb::bo::ClusterMember', 'members')):
                if t0.startswith(tprefix):
                    srcs = self.guard_sources(fr, t['args'][0])
                    out.append((tag + '-bulk-read', {'locks': srcs, 'method': 'clone'}))
        if decl in SEND_FNS:
            kinds = self.chan_kind(fr, t['args'][0])
            out.append(('send', {'chan': kinds, 'msg': keyvals(1)}))
        if decl in LOCK_FNS:
            out.append(('lock', {'ids': self.lock_ids(fr, t['args'][0]), 'mode': LOCK_FNS[decl]}))
        if decl.startswith('std::sync::atomic::Atomic') and meth in ('store', 'swap', 'fetch_add', 'fetch_sub',
                                                                      'compare_exchange', 'fetch_or', 'fetch_and'):
            ids = set()
            for v in self.ex.absvals(fr, t['args'][0]):
                ids |= self._lock_ids_of_val(v)
            out.append(('atomic-write', {'ids': ids, 'method': meth, 'value': keyvals(1)}))
        if decl.startswith('std::sync::atomic::Atomic') and meth == 'load':
            ids = set()
            for v in self.ex.absvals(fr, t['args'][0]):
                ids |= self._lock_ids_of_val(v)
            out.append(('atomic-read', {'ids': ids}))
        if decl in ('std::mem::replace', 'std::mem::swap', 'std::mem::take', 'std::option::Option::take', 'std::option::Option::replace',
                    'std::option::Option::insert', 'std::option::Option::get_or_insert', 'std::option::Option::take_if'):
            srcs = self.guard_sources(fr, t['args'][0])
            if srcs:
                out.append(('guarded-replace', {'locks': srcs, 'value': keyvals(1)}))
        if decl == 'std::vec::Vec::push' or decl == 'std::vec::Vec::dedup' or \
                decl == 'std::vec::Vec::pop':
            srcs = self.guard_sources(fr, t['args'][0])
            if srcs:
                out.append(('guarded-vec-' + meth, {'locks': srcs, 'value': keyvals(1)}))
        return out


def const_strings(ex, vals):
    """constant string values among AbsVals (only whole constants, no path)"""
    out = []
    for v in vals:
        if v[0] == 'const' and not v[2]:
            c = json.loads(v[1])
            x = c.get('v')
            if isinstance(x, dict) and 's' in x:
                out.append(x['s'])
    return out
