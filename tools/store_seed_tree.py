#!/usr/bin/env python3
"""store_seed_tree.py <property> <n> <outdir> <stored-number> : like store_seed.py, but the 20 quick rule sets are evaluated on a scratch copy
of /repo's HEAD commit with the patch applied (under mktemp, removed at once) instead of on /repo itself, so several seeds can be stored side
by side while /repo stays untouched.  caught_by = keys of the obligations that are neither discharged nor a listed known finding."""
import sys, os, json, subprocess, shutil, tempfile
pid, n, out, sid = sys.argv[1], sys.argv[2], sys.argv[3], sys.argv[4]
V = os.path.dirname(os.path.dirname(os.path.abspath(__file__)))
sys.path.insert(0, os.path.join(V, 'engine'))
from nl import selftest, report
conf = json.load(open(os.path.join(out, 'confirm%s.json' % n)))
if not conf.get('confirmed'):
    print('NOT CONFIRMED, not stored:', pid, n)
    sys.exit(1)
dst = os.path.join(V, 'seeded', '%s-%s' % (pid, sid))
os.makedirs(dst, exist_ok=True)
shutil.copy(os.path.join(out, 'patch%s.diff' % n), os.path.join(dst, 'patch.diff'))
shutil.copy(os.path.join(out, 'demo%s.diff' % n), os.path.join(dst, 'demo.diff'))
shutil.copy(os.path.join(out, 'README%s.md' % n), os.path.join(dst, 'README.md'))
json.dump({k: v for k, v in conf.items() if not k.endswith('_tail') or k == 'patch_plus_demo_tail'}, open(os.path.join(dst, 'confirm.json'), 'w'), indent=1)
D = tempfile.mkdtemp(prefix='nlst_', dir='/tmp')
try:
    subprocess.check_call('git -C /repo archive HEAD | tar x -C %s && cp /repo/Cargo.lock %s/' % (D, D), shell=True)
    r = subprocess.run('git apply %s || patch -p1 -s --fuzz=3 -i %s' % (os.path.join(dst, 'patch.diff'), os.path.join(dst, 'patch.diff')), shell=True, cwd=D,
                       stdout=subprocess.PIPE, stderr=subprocess.STDOUT, text=True)
    if r.returncode != 0:
        print('PATCH DOES NOT APPLY to HEAD:', pid, n, r.stdout[-300:])
        sys.exit(2)
    known = {(k['property'], k['key']) for k in json.load(open(report.KNOWN)) if k.get('status') == 'known'}
    fires = {}
    for i in range(1, 21):
        c = 'C%02d' % i
        obs, err = selftest.run_on(c, D)
        if obs is None:
            fires[c] = ['EXTRACT FAILED']
            continue
        bad = [o['key'] for o in obs if o['verdict'] != 'discharged' and (c, o['key']) not in known]
        if bad:
            fires[c] = bad
finally:
    shutil.rmtree(D, ignore_errors=True)
meta = {
    'property': pid,
    'seed': '%s-%s' % (pid, sid),
    'author': 'independent sub-agent given only the property text and a scratch worktree',
    'needs_to_manifest': 'see README.md (author\'s description of the interleaving / crash point / sequence / input)',
    'demonstration': 'demo.diff adds the test(s) %s; on the unchanged tree they pass, with patch.diff applied they fail' % conf.get('tests'),
    'what_i_ran': [
        'scratch worktree of /repo (commit 04fd8e6) under /tmp (removed afterwards), every cargo run in private /tmp, network and pid namespaces (tools/iso_run.sh)',
        'git apply demo.diff; cargo test --offline --lib <test>  -> passes',
        'git apply patch.diff (on top); cargo test --offline --lib <test>  -> fails',
        'git apply patch.diff alone; tools/baseline.py <worktree>  -> every stable_pass test of /root/.vp/BASELINE.json passes',
        'scratch copy of /repo HEAD + patch.diff under mktemp; the quick rules of C01..C20 (tools/store_seed_tree.py); copy removed',
    ],
    'caught_by': fires,
    'caught_by_targeted_property': pid in fires,
}
if conf.get('note'):
    meta['confirmation_note'] = conf['note']
json.dump(meta, open(os.path.join(dst, 'meta.json'), 'w'), indent=1)
print(pid, n, '->', sid, 'stored; caught by', {k: v[:2] for k, v in fires.items()})
