"""Lock analysis (family A) and panic census (family N) over the MIR facts.

Lock identity = 'Adt.field' of the RwLock / Mutex (class-level, instance-insensitive).
Per body: acquisitions, the blocks in which each guard is live, the calls made while holding.
Summaries (transitive over local callees and closures): locks acquired, may-panic sites.
"""
import json
from . import core
from .core import origins, callee, callee_decl, is_log

LOCK_FNS = {
    'std::sync::RwLock::read': 'R', 'std::sync::RwLock::write': 'W', 'std::sync::Mutex::lock': 'W',
}
UNWRAP_LIKE = ('std::result::Result::unwrap', 'std::result::Result::expect', 'std::option::Option::unwrap',
               'std::option::Option::expect')

SINGLETON_CLASSES = ('Databases.', 'ClusterState.')


def lock_id_of(body, operand):
    ids = set()
    for r in origins(body, operand):
        lf = [s for s in r[-1] if s[0] == 'f' and s[3] and not s[3].startswith('{closure}') and s[3] != '()']
        if lf:
            ids.add('%s.%s' % (lf[-1][3].split('::')[-1], lf[-1][2]))
        else:
            ids.add('?')
    return ids


class Acq:
    __slots__ = ('body', 'bi', 'ids', 'mode', 'guards', 'region', 'end_blocks', 'returned')

    def __init__(self, body, bi, ids, mode):
        self.body = body
        self.bi = bi
        self.ids = ids
        self.mode = mode
        self.guards = set()
        self.region = set()
        self.end_blocks = set()
        self.returned = False

    def loc(self):
        return self.body.loc(self.bi)


def _aliases(body, start_local):
    """locals that hold the guard: the lock call's Result, its unwrap/expect, and moves of it;
    also the payload binding of `match lock() { Ok(g) => … }`"""
    al = {start_local}
    changed = True
    while changed:
        changed = False
        for bi, b in enumerate(body.blocks):
            if b['cleanup']:
                continue
            for s in b['s']:
                if s['k'] != 'assign' or s['l'].get('p'):
                    continue
                r = s['r']
                if r['k'] == 'use':
                    o = r['o']
                    p = o.get('m') or o.get('c')
                    if p and p['l'] in al and s['l']['l'] not in al:
                        # whole move, or move of the Ok/Some payload
                        if all(e[0] in ('d', 'f') for e in p.get('p', ())):
                            al.add(s['l']['l'])
                            changed = True
            t = b['t']
            if t['k'] == 'call' and callee_decl(t) in UNWRAP_LIKE and t['args']:
                a = t['args'][0]
                p = a.get('m') or a.get('c')
                if p and not p.get('p') and p['l'] in al and not t['d'].get('p') and t['d']['l'] not in al:
                    al.add(t['d']['l'])
                    changed = True
    return al


def acquisitions(body):
    out = []
    for bi, t in body.calls():
        d = callee_decl(t)
        if d not in LOCK_FNS:
            continue
        ids = lock_id_of(body, t['args'][0])
        a = Acq(body, bi, ids, LOCK_FNS[d])
        if t['d'].get('p') or t['t'] is None:
            out.append(a)
            continue
        a.guards = _aliases(body, t['d']['l'])
        # live region: from the successor of the call until a drop of a guard alias / a move
        # of the guard into the return place
        seen = set()
        st = [t['t']]
        while st:
            b = st.pop()
            if b in seen:
                continue
            seen.add(b)
            tt = body.term(b)
            ends = False
            if tt['k'] == 'drop':
                p = tt['p']
                if not p.get('p') and p['l'] in a.guards:
                    # the Result/Option wrapper of an already-moved guard is dropped as a no-op:
                    # only a drop of the innermost live alias ends the region.  Conservatively
                    # end on the *last* alias (highest in move chain) or any alias when no later
                    # alias is assigned from it.
                    if not _moved_from(body, p['l'], a.guards):
                        ends = True
            if tt['k'] == 'return':
                if 0 in a.guards:
                    a.returned = True
                ends = True
            if ends:
                a.end_blocks.add(b)
                continue
            st.extend(body.succ(b))
        a.region = seen
        if 0 in a.guards:
            a.returned = True
        out.append(a)
    return out


def _moved_from(body, local, aliases):
    """is `local` moved into another alias (then its own drop is a no-op)?"""
    for b in body.blocks:
        if b['cleanup']:
            continue
        for s in b['s']:
            if s['k'] == 'assign' and s['r']['k'] == 'use':
                o = s['r']['o']
                p = o.get('m')
                if p and p['l'] == local and not s['l'].get('p') and s['l']['l'] in aliases and s['l']['l'] != local:
                    return True
        t = b['t']
        if t['k'] == 'call' and callee_decl(t) in UNWRAP_LIKE and t['args']:
            p = t['args'][0].get('m')
            if p and not p.get('p') and p['l'] == local and not t['d'].get('p') and t['d']['l'] in aliases:
                return True
    return False


class LockModel:
    def __init__(self, prog):
        self.prog = prog
        self._acq = {}
        self._sum = None
        self._edges = None

    def acq(self, body):
        r = self._acq.get(body.id)
        if r is None:
            r = acquisitions(body)
            self._acq[body.id] = r
        return r

    # ---- call graph helpers ----
    def callees(self, body):
        """local bodies that run when `body` runs: (bi, callee_body, via) — direct calls, closures
        created in body (assumed to run where created unless spawned), closures passed on"""
        out = []
        for bi, t in body.calls():
            n = callee(t)
            cb = self.prog.bodies.get(n)
            if cb is not None and not t['f'].get('ind'):
                out.append((bi, cb, 'call'))
        return out

    def closures_created(self, body):
        out = []
        for bi, bl in enumerate(body.blocks):
            if bl['cleanup']:
                continue
            for si, s in enumerate(bl['s']):
                if s['k'] == 'assign' and s['r']['k'] == 'agg' and s['r'].get('ak') in ('closure', 'coroutine'):
                    cb = self.prog.bodies.get(s['r']['def'])
                    if cb is not None:
                        out.append((bi, si, cb))
        return out

    def closure_use_blocks(self, body, bi, si):
        """call blocks of `body` that receive (a reference to) the closure created at (bi,si):
        the closure is assumed to run during those calls.  Returns [(call_bi, callee_decl)]"""
        dest = body.blocks[bi]['s'][si]['l']['l']
        # forward: locals derived from dest by ref/use/cast
        der = {dest}
        changed = True
        while changed:
            changed = False
            for b in body.blocks:
                if b['cleanup']:
                    continue
                for s in b['s']:
                    if s['k'] != 'assign' or s['l'].get('p'):
                        continue
                    r = s['r']
                    src = None
                    if r['k'] in ('use', 'cast'):
                        o = r['o']
                        p = o.get('m') or o.get('c')
                        if p:
                            src = p['l']
                    elif r['k'] == 'ref':
                        src = r['p']['l']
                    elif r['k'] == 'agg':
                        for o in r['ops']:
                            p = o.get('m') or o.get('c')
                            if p and p['l'] in der:
                                src = p['l']
                    if src in der and s['l']['l'] not in der:
                        der.add(s['l']['l'])
                        changed = True
        out = []
        for cbi, t in body.calls():
            for a in t['args']:
                p = a.get('m') or a.get('c')
                if p and p['l'] in der:
                    out.append((cbi, callee_decl(t)))
                    break
        return out

    # ---- summaries ----
    def summaries(self):
        """body id -> {'locks': {(id, mode)}, 'panics': [(body id, bi, desc)]} transitively
        (closures included where they are handed to a call; thread::spawn excluded)"""
        if self._sum is not None:
            return self._sum
        direct = {}
        edges = {}
        for b in self.prog.user_bodies():
            locks = set()
            for a in self.acq(b):
                for i in a.ids:
                    locks.add((i, a.mode))
            direct[b.id] = locks
            es = set()
            for bi, cb, via in self.callees(b):
                es.add(cb.id)
            for (bi, si, cb) in self.closures_created(b):
                uses = self.closure_use_blocks(b, bi, si)
                if any(d in ('std::thread::spawn',) for _, d in uses):
                    continue
                es.add(cb.id)
            edges[b.id] = es
        # fixpoint
        S = {k: set(v) for k, v in direct.items()}
        changed = True
        while changed:
            changed = False
            for k, es in edges.items():
                for e in es:
                    add = S.get(e, set()) - S[k]
                    if add:
                        S[k] |= add
                        changed = True
        self._sum = S
        self._edges_cg = edges
        return S

    def held_at(self, body, bi):
        """locks held (by acquisitions in this body) when the terminator of block bi runs"""
        out = []
        for a in self.acq(body):
            if bi in a.region and bi != a.bi:
                out.append(a)
        return out

    def order_edges(self):
        """(held lock id, acquired lock id) -> witness list [(body id, loc held, loc acquired, via)]"""
        if self._edges is not None:
            return self._edges
        S = self.summaries()
        E = {}
        for b in self.prog.user_bodies():
            acqs = self.acq(b)
            if not acqs:
                continue
            for a in acqs:
                for bi in a.region:
                    t = b.term(bi)
                    if t['k'] != 'call' or bi == a.bi:
                        continue
                    d = callee_decl(t)
                    inner = set()
                    via = None
                    if d in LOCK_FNS:
                        for i in lock_id_of(b, t['args'][0]):
                            inner.add((i, LOCK_FNS[d]))
                        via = 'direct'
                    else:
                        cb = self.prog.bodies.get(callee(t))
                        if cb is not None and not t['f'].get('ind'):
                            inner = S.get(cb.id, set())
                            via = cb.id
                        # closures passed to this call run inside it
                        for (cbi, csi, ccb) in self.closures_created(b):
                            if any(u == bi for u, _ in self.closure_use_blocks(b, cbi, csi)):
                                inner = inner | S.get(ccb.id, set())
                                via = via or ccb.id
                    for (i2, m2) in inner:
                        for i1 in a.ids:
                            E.setdefault((i1, i2), []).append(
                                {'body': b.id, 'held_at': a.loc(), 'held_mode': a.mode, 'acquired_at': b.loc(bi),
                                 'acq_mode': m2, 'via': via})
        self._edges = E
        return E


# --------------------------------------------------------------------------------------
# data dependence (backward slice)
# --------------------------------------------------------------------------------------

def backward_slice(body, operand, _seen=None):
    """call blocks and params the value of `operand` transitively depends on (through every
    rvalue kind and through call arguments)"""
    seen_locals = set()
    calls = set()
    params = set()

    def visit_op(o):
        if 'k' in o or 'rt' in o:
            return
        p = o.get('c') or o.get('m')
        visit_local(p['l'])
        for e in p.get('p', ()):
            if e[0] == 'i':
                visit_local(e[1])

    def visit_local(l):
        if l in seen_locals:
            return
        seen_locals.add(l)
        if 1 <= l <= body.argc:
            params.add(l)
        for (bi, si, kind, pl) in body.defs().get(l, []) + body.defs().get(('partial', l), []):
            if kind == 'call':
                calls.add(bi)
                for a in pl['args']:
                    visit_op(a)
            else:
                rv = pl if 'k' in pl and pl['k'] != 'assign' else pl['r']
                k = rv['k']
                if k in ('use', 'cast', 'repeat'):
                    visit_op(rv['o'])
                elif k in ('ref', 'rawptr', 'discr'):
                    visit_local(rv['p']['l'])
                elif k == 'bin':
                    visit_op(rv['a'])
                    visit_op(rv['b'])
                elif k == 'un':
                    visit_op(rv['a'])
                elif k == 'agg':
                    for o in rv['ops']:
                        visit_op(o)
        # values written through &mut arguments: a local passed by &mut to a call may be
        # modified by it (e.g. Vec::retain, read()).  Treat calls taking &mut l as defs.
        for bi, t in body.calls():
            for a in t['args']:
                p = a.get('m') or a.get('c')
                if p and not p.get('p'):
                    # is that arg a &mut borrow of l ?
                    for (dbi, dsi, dk, dpl) in body.defs().get(p['l'], []):
                        if dk == 'assign' and dpl['k'] == 'ref' and dpl.get('mut') and dpl['p']['l'] == l:
                            if bi not in calls:
                                calls.add(bi)
                                for a2 in t['args']:
                                    visit_op(a2)
    visit_op(operand)
    return calls, params
