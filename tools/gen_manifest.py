#!/usr/bin/env python3
"""Regenerates MANIFEST.json from the table below (kept in one place so the manifest is always valid)."""
import json, os, importlib, sys
HERE = os.path.dirname(os.path.dirname(os.path.abspath(__file__)))
sys.path.insert(0, os.path.join(HERE, 'engine'))
props = [json.loads(l) for l in open(os.path.join(HERE, 'properties.jsonl'))]

def rules_suffix(pid):
    """the rule ids the check evaluates today (texts in RULES.md), taken from the rule table of engine/props/<pid>.py"""
    import importlib, os, sys
    sys.path.insert(0, os.path.join(os.path.dirname(os.path.dirname(os.path.abspath(__file__))), 'engine'))
    try:
        mod = importlib.import_module('props.' + pid)
        ids = list(getattr(mod, 'RULES', {}))
        try:
            ev = json.load(open(os.path.join(HERE, 'evidence', pid + '.json')))['coverage'].get('rules') or {}
            ids += [k for k in ev if k not in ids]
        except (OSError, ValueError, KeyError):
            pass
    except Exception:
        ids = []
    return (' Rules evaluated (texts in RULES.md): ' + ', '.join(ids) + '.') if ids else ''


# property -> (claimed?, level text, level note (what is NOT decided / trusted base), technique)
CLAIMS = json.load(open(os.path.join(HERE, 'tools', 'claims.json')))

checks = []
na = []
for p in props:
    pid = p['id']
    c = CLAIMS.get(pid)
    if c and c.get('claimed') and os.path.exists(os.path.join(HERE, 'engine', 'props', pid + '.py')):
        checks.append({
            'property_id': pid,
            'quick_cmd': './check %s --tier quick' % pid,
            'thorough_cmd': './check %s --tier thorough' % pid,
            'evidence_file': '/verif/evidence/%s.json' % pid,
            'replay_cmd_template': './check %s --replay {path}' % pid,
            'engine': 'nl',
            'level_claimed': {'category': 'other', 'text': c['text'] + rules_suffix(pid), 'design_ref': 'DESIGN.md section 4, ' + pid + '; RULES.md'},
            'level_note': c['note'],
            'technique': c['technique'],
        })
    else:
        na.append({'property_id': pid, 'reason': (c or {}).get('na_reason', 'check not built yet (design in DESIGN.md section 4)')})
m = {
    'version': 1,
    'setup_cmd': './setup.sh',
    'hooks': {
        'guard': 'none',
        'enable': 'no hooks: the analysis reads the unmodified sources of /repo through a rustc_private driver',
        'baseline_off_cmd': 'python3 /verif/tools/baseline.py /repo',
        'source_commits': [],
        'add_only': True,
    },
    'engines': [{
        'name': 'nl',
        'path': 'engine/',
        'serves_properties': [c['property_id'] for c in checks],
        'kind_free_text': 'static analysis: rustc_private MIR fact extractor (engine/driver) + python rule evaluators '
                          '(guard dominance, path rules, lock analysis, wire/table agreement, decision tables, panic census)',
    }],
    'checks': checks,
    'notes': 'Every check re-extracts MIR facts from /repo\'s working tree (cached by content hash) and decides structural '
             'clauses only; see DESIGN.md for what each property\'s check does and does not decide. '
             'known_findings.json lists recorded and fixed defects.',
    'not_applicable': na,
}
json.dump(m, open(os.path.join(HERE, 'MANIFEST.json'), 'w'), indent=1)
print('checks:', [c['property_id'] for c in checks], 'n/a:', len(na))
