"""Rename normalisation.

The rule evaluators locate some of their anchors by the path of a function of nun-db (the reviewed
tables of C01.b / C10, `Client::left`, `is_primary`, `storage_data_disk`, ...).  A behaviour-preserving
rename or a move of such a function to another module must not turn into an alarm.  This module keeps a
committed reference table (engine/ref_symbols.json: one structural fingerprint per function of the
reference tree) and, when the facts of a tree are loaded, matches every reference function that is
*missing* from the tree against the functions of the tree that the reference does *not* know, by
fingerprint.  A pair that is each other's best match, with a score above the threshold and a clear
margin, is treated as a rename: the facts are rewritten to the reference path (closures and coroutines
nested in the function follow), so rules, obligation keys, reviewed tables and known findings keep
referring to the same function.  File and line of every report stay those of the analysed tree; the
applied renames are listed in the evidence.

A wrong match cannot hide a violation of a rule evaluated *inside* a function (rules judge the body that
is there); it could only misplace an anchor, which makes the anchored rule fail closed.  Functions the
reference does not know and that match nothing keep their own names (new code).
"""
import json, os, re
from collections import Counter

HERE = os.path.dirname(os.path.abspath(__file__))
REF = os.path.join(os.path.dirname(HERE), 'ref_symbols.json')

THRESHOLD = 0.5
MARGIN = 0.12

_GEN = re.compile(r'::<[^<>]*(?:<[^<>]*(?:<[^<>]*>[^<>]*)*>[^<>]*)*>')


def _strip_generics(s):
    prev = None
    while prev != s:
        prev = s
        s = _GEN.sub('', s)
    return s


def _leaf(path):
    return path.rsplit('::', 1)[-1]


def _module(path):
    return path.rsplit('::', 1)[0] if '::' in path else ''


def fingerprints(crate_facts):
    """{fn id: fingerprint} for the named functions / methods of the crates (closures, coroutines and
    promoteds are folded into the function they are nested in)"""
    bodies = [b for d in crate_facts for b in d['bodies']]
    named = {}
    for b in bodies:
        if b.get('promoted'):
            continue
        if b['kind'] in ('fn', 'method') and '{closure' not in b['id'] and '{constant' not in b['id']:
            named[b['id']] = b
    user = set(named)
    order = {}
    for b in sorted(named.values(), key=lambda x: (x['file'], x['line'])):
        order.setdefault(b['file'], []).append(b['id'])
    fp = {}
    for fid, b in named.items():
        fp[fid] = {'sig': [b['locals'][i] for i in range(0, b['argc'] + 1)], 'feats': Counter(), 'calls': Counter(),
                   'file': b['file'], 'kind': b['kind'], 'public': bool(b.get('public'))}
    for b in bodies:
        owner = b['id']
        # fold nested bodies into the named function whose id is the longest prefix
        while owner not in named and '::' in owner:
            owner = owner.rsplit('::', 1)[0]
        if owner not in named:
            continue
        f = fp[owner]
        for bl in b['blocks']:
            if bl.get('cleanup'):
                continue
            t = bl['t']
            if t['k'] == 'call' and not t['f'].get('ind'):
                name = t['f'].get('res') or t['f']['def']
                base = _strip_generics(name)
                if base in user or _owner_of(base, user) is not None:
                    f['calls'][_owner_of(base, user) or base] += 1
                else:
                    f['feats']['c:' + _strip_generics(t['f']['def'])] += 1
            elif t['k'] == 'switch':
                f['feats']['sw'] += 1
            elif t['k'] == 'assert':
                f['feats']['as:' + t.get('msg', '')[:12]] += 1
            for s in bl['s']:
                if s['k'] != 'assign':
                    continue
                _feats_of(s['r'], f['feats'])
    for file, ids in order.items():
        for i, fid in enumerate(ids):
            fp[fid]['prev'] = ids[i - 1] if i > 0 else ''
            fp[fid]['next'] = ids[i + 1] if i + 1 < len(ids) else ''
    return fp


def _owner_of(name, user):
    n = name
    while n and n not in user and '::' in n:
        n = n.rsplit('::', 1)[0]
    return n if n in user else None


def _feats_of(rv, feats):
    k = rv.get('k')
    if k == 'use' or k == 'cast':
        _op(rv.get('o'), feats)
    elif k == 'bin':
        feats['op:' + rv['op']] += 1
        _op(rv.get('a'), feats)
        _op(rv.get('b'), feats)
    elif k == 'agg':
        feats['agg:%s:%s' % (rv.get('adt', rv.get('ak', '')), rv.get('variant', ''))] += 1
        for o in rv.get('ops', ()):
            _op(o, feats)
    elif k == 'discr':
        feats['discr:' + rv.get('adt', '')] += 1
    elif k in ('ref', 'addr'):
        _place(rv.get('p'), feats)


def _op(o, feats):
    if not isinstance(o, dict):
        return
    if 'k' in o and isinstance(o['k'], dict):
        c = o['k']
        v = c.get('v')
        if isinstance(v, dict) and 's' in v:
            feats['s:' + v['s'][:40]] += 1
        elif isinstance(v, (int, bool)) and not isinstance(v, bool) and abs(v) > 1:
            feats['i:%d' % v] += 1
        if c.get('variant'):
            feats['v:%s' % c.get('variant')] += 1
    else:
        _place(o.get('c') or o.get('m'), feats)


def _place(p, feats):
    if not isinstance(p, dict):
        return
    for e in p.get('p', ()):
        if e and e[0] == 'f' and len(e) > 3:
            feats['f:%s.%s' % (e[2], e[3])] += 1


def _jacc(a, b):
    if not a and not b:
        return 1.0
    inter = sum((a & b).values())
    union = sum((a | b).values())
    return inter / union if union else 1.0


def score(r, n, rid, nid, resolved):
    """similarity of reference fingerprint r (path rid) and tree fingerprint n (path nid); `resolved`
    maps tree paths to reference paths for the renames already accepted"""
    fe = _jacc(r['feats'], n['feats'])
    weight = min(1.0, (sum(r['feats'].values()) + sum(n['feats'].values())) / 16.0)
    if weight >= 0.3 and fe < 0.3:
        return 0.0      # bodies with enough content that share almost nothing are not the same function
    sig = 1.0 if r['sig'] == n['sig'] else (0.5 if len(r['sig']) == len(n['sig']) else 0.0)
    ncalls = Counter({resolved.get(k, k): v for k, v in n['calls'].items()})
    ca = _jacc(r['calls'], ncalls) if (r['calls'] or ncalls) else None
    ctx = 0.0
    if _module(rid) == _module(nid):
        ctx += 0.5
    if r.get('prev') and r.get('prev') == resolved.get(n.get('prev'), n.get('prev')):
        ctx += 0.25
    if r.get('next') and r.get('next') == resolved.get(n.get('next'), n.get('next')):
        ctx += 0.25
    # small bodies carry little information in their features: lean on signature and context instead
    parts = [(fe, 0.45 * weight + 0.1), (sig, 0.25), (ctx, 0.2 + 0.25 * (1 - weight))]
    if ca is not None:
        parts.append((ca, 0.2))
    tot = sum(w for _, w in parts)
    return sum(v * w for v, w in parts) / tot


def load_ref():
    try:
        raw = json.load(open(REF))
    except (OSError, ValueError):
        return None
    for v in raw.values():
        v['feats'] = Counter(v['feats'])
        v['calls'] = Counter(v['calls'])
    return raw


def match(ref, cur):
    """{tree path: reference path} for the functions judged renamed / moved"""
    missing = [r for r in ref if r not in cur]
    extra = [n for n in cur if n not in ref]
    if not missing or not extra:
        return {}, []
    resolved = {}
    log = []
    # a function that kept its name and moved (to another module, into an impl block: free function <-> method) is matched by that
    # name when it is the only missing function and the only new function called so, and the bodies are alike — twins such as
    # replicate_message_to_all / _to_secoundary score too close to each other for the margin test below
    by_leaf_r, by_leaf_n = {}, {}
    for r in missing:
        by_leaf_r.setdefault(_leaf(_strip_generics(r)), []).append(r)
    for n in extra:
        by_leaf_n.setdefault(_leaf(_strip_generics(n)), []).append(n)
    for leaf, rs in by_leaf_r.items():
        ns = by_leaf_n.get(leaf, [])
        if len(rs) == 1 and len(ns) == 1 and not leaf.startswith('{') and ref[rs[0]]['kind'] in ('fn', 'method') and cur[ns[0]]['kind'] in ('fn', 'method') \
                and len(ref[rs[0]]['sig']) == len(cur[ns[0]]['sig']):
            s_ = score(ref[rs[0]], cur[ns[0]], rs[0], ns[0], resolved)
            if s_ >= THRESHOLD * 0.8:
                resolved[ns[0]] = rs[0]
                log.append({'tree': ns[0], 'reference': rs[0], 'score': round(s_, 3), 'by': 'same name, moved'})
    for rnd in range(4):
        miss = [r for r in missing if r not in resolved.values()]
        ext = [n for n in extra if n not in resolved]
        if not miss or not ext:
            break
        S = {}
        for r in miss:
            for n in ext:
                if ref[r]['kind'] != cur[n]['kind'] and len(ref[r]['sig']) != len(cur[n]['sig']):
                    continue
                S[(r, n)] = score(ref[r], cur[n], r, n, resolved)
        best_r = {}
        best_n = {}
        for (r, n), s in S.items():
            best_r.setdefault(r, []).append((s, n))
            best_n.setdefault(n, []).append((s, r))
        new = {}
        for r, lst in best_r.items():
            lst.sort(reverse=True)
            s, n = lst[0]
            second = lst[1][0] if len(lst) > 1 else 0.0
            back = sorted(best_n[n], reverse=True)
            if back[0][1] != r:
                continue
            second_n = back[1][0] if len(back) > 1 else 0.0
            if s >= THRESHOLD and s - max(second, second_n) >= MARGIN:
                new[n] = r
                log.append({'tree': n, 'reference': r, 'score': round(s, 3), 'runner_up': round(max(second, second_n), 3)})
        if not new:
            break
        resolved.update(new)
    return resolved, log


def rewrite(texts, mapping):
    """apply the renames to the raw JSON texts of the facts"""
    if not mapping:
        return texts
    keys = sorted(mapping, key=len, reverse=True)
    rx = re.compile('(' + '|'.join(re.escape(json.dumps(k)[1:-1]) for k in keys) + r')(?![A-Za-z0-9_])')
    esc = {json.dumps(k)[1:-1]: json.dumps(v)[1:-1] for k, v in mapping.items()}
    return [rx.sub(lambda m: esc[m.group(1)], t) for t in texts]


def dump_ref(crate_facts, path=REF):
    fp = fingerprints(crate_facts)
    out = {}
    for k, v in sorted(fp.items()):
        out[k] = dict(v, feats=dict(v['feats']), calls=dict(v['calls']))
    with open(path, 'w') as fh:
        json.dump(out, fh, indent=0, sort_keys=True)
    return len(out)


# --------------------------------------------------------------------------------------------------
# types: renamed structs / enums, renamed variants, renamed fields
# --------------------------------------------------------------------------------------------------
REF_ADTS = os.path.join(os.path.dirname(HERE), 'ref_adts.json')
ADT_THRESHOLD = 0.55


def user_adts(parsed):
    out = {}
    for d in parsed:
        for k, v in d['adts'].items():
            if k.startswith(('nundb::', 'nun_db::')):
                out[k] = v
    return out


def _ty_norm(ty):
    # a field type that mentions another type of the crate is compared by shape only
    return re.sub(r'nun_?db::[A-Za-z0-9_:]+', '@', ty)


def _adt_tokens(a, own_leaf):
    c = Counter()
    for v in a['variants']:
        if v['name'] != own_leaf:
            c['v:' + v['name']] += 1
        for f in v['fields']:
            c['f:' + f['name']] += 1
            c['t:' + _ty_norm(f['ty'])] += 1
    return c


def match_adt_paths(ref, cur):
    missing = [r for r in ref if r not in cur]
    extra = [n for n in cur if n not in ref]
    out, log = {}, []
    if not missing or not extra:
        return out, log
    S = {}
    for r in missing:
        tr = _adt_tokens(ref[r], _leaf(r))
        for n in extra:
            if ref[r]['kind'] != cur[n]['kind']:
                continue
            shape = 1.0 if [[_ty_norm(f['ty']) for f in v['fields']] for v in ref[r]['variants']] == \
                [[_ty_norm(f['ty']) for f in v['fields']] for v in cur[n]['variants']] else 0.0
            S[(r, n)] = 0.6 * _jacc(tr, _adt_tokens(cur[n], _leaf(n))) + 0.4 * shape
    for r in missing:
        cand = sorted(((s, n) for (r2, n), s in S.items() if r2 == r), reverse=True)
        if not cand:
            continue
        s, n = cand[0]
        second = cand[1][0] if len(cand) > 1 else 0.0
        back = sorted(((s2, r2) for (r2, n2), s2 in S.items() if n2 == n), reverse=True)
        if back[0][1] != r:
            continue
        if s >= ADT_THRESHOLD and s - max(second, back[1][0] if len(back) > 1 else 0.0) >= MARGIN:
            out[n] = r
            log.append({'tree': n, 'reference': r, 'score': round(s, 3), 'kind': 'type'})
    return out, log


def match_members(ref, cur):
    """for every type present in both tables: ({(adt, tree variant): ref variant}, {(adt, ref variant, tree
    field): ref field}).  A variant / field is considered renamed only when its reference name is gone,
    its tree name is unknown to the reference, and position and field types agree."""
    vmap, fmap, log = {}, {}, []
    for adt, ra in ref.items():
        ca = cur.get(adt)
        if ca is None or ca['kind'] != ra['kind']:
            continue
        rv = {v['name']: v for v in ra['variants']}
        cv = {v['name']: v for v in ca['variants']}
        miss = [v for v in ra['variants'] if v['name'] not in cv]
        ext = [v for v in ca['variants'] if v['name'] not in rv]
        pairs = []
        if ra['kind'] != 'enum':
            # a struct's single variant carries the struct's name
            if len(ra['variants']) == 1 and len(ca['variants']) == 1:
                pairs.append((ra['variants'][0], ca['variants'][0]))
        else:
            def sig(v):
                return tuple(_ty_norm(f['ty']) for f in v['fields'])
            for m in list(miss):
                same_pos = [e for e in ext if e['idx'] == m['idx'] and sig(e) == sig(m) and e['discr'] == m['discr']]
                same_sig = [e for e in ext if sig(e) == sig(m)]
                same_sig_ref = [x for x in miss if sig(x) == sig(m)]
                pick = None
                if len(same_pos) == 1:
                    pick = same_pos[0]
                elif len(same_sig) == 1 and len(same_sig_ref) == 1 and sig(m):
                    pick = same_sig[0]
                if pick is not None:
                    ext.remove(pick)
                    miss.remove(m)
                    vmap[(adt, pick['name'])] = m['name']
                    log.append({'tree': '%s::%s' % (adt, pick['name']), 'reference': '%s::%s' % (adt, m['name']), 'kind': 'variant'})
                    pairs.append((m, pick))
            for n, v in rv.items():
                if n in cv:
                    pairs.append((v, cv[n]))
        for r_v, c_v in pairs:
            if r_v['name'] != c_v['name'] and ra['kind'] != 'enum':
                vmap[(adt, c_v['name'])] = r_v['name']
            rf = [f['name'] for f in r_v['fields']]
            cf = [f['name'] for f in c_v['fields']]
            fm = [f for f in r_v['fields'] if f['name'] not in cf]
            fe = [f for f in c_v['fields'] if f['name'] not in rf]
            for i, f in enumerate(r_v['fields']):
                if f not in fm:
                    continue
                cand = None
                if i < len(c_v['fields']) and c_v['fields'][i] in fe and _ty_norm(c_v['fields'][i]['ty']) == _ty_norm(f['ty']):
                    cand = c_v['fields'][i]
                else:
                    same = [g for g in fe if _ty_norm(g['ty']) == _ty_norm(f['ty'])]
                    same_r = [g for g in fm if _ty_norm(g['ty']) == _ty_norm(f['ty'])]
                    if len(same) == 1 and len(same_r) == 1:
                        cand = same[0]
                if cand is not None:
                    fe.remove(cand)
                    fmap[(adt, c_v['name'], cand['name'])] = f['name']
                    log.append({'tree': '%s::%s.%s' % (adt, c_v['name'], cand['name']),
                                'reference': '%s::%s.%s' % (adt, r_v['name'], f['name']), 'kind': 'field'})
    return vmap, fmap, log


def apply_members(parsed, vmap, fmap):
    """rename variants and fields in place (facts already carry reference type paths)"""
    if not vmap and not fmap:
        return
    # variant context of a field projection: the downcast element before it, else the struct's variant
    struct_variant = {}
    for d in parsed:
        for k, a in d['adts'].items():
            if a['kind'] != 'enum' and len(a['variants']) == 1:
                struct_variant[k] = a['variants'][0]['name']
    uniq = Counter(v for (_, v) in vmap)

    def proj(plist):
        for i, e in enumerate(plist):
            if not isinstance(e, list) or not e:
                continue
            if e[0] == 'f' and len(e) >= 4:
                adt = e[2]
                var = None
                if i > 0 and isinstance(plist[i - 1], list) and plist[i - 1] and plist[i - 1][0] == 'd':
                    var = plist[i - 1][1]
                else:
                    var = struct_variant.get(adt)
                new = fmap.get((adt, var, e[3]))
                if new is not None:
                    e[3] = new
        for i, e in enumerate(plist):
            if isinstance(e, list) and e and e[0] == 'd':
                adt = None
                if i + 1 < len(plist) and isinstance(plist[i + 1], list) and plist[i + 1] and plist[i + 1][0] == 'f':
                    adt = plist[i + 1][2]
                if adt is not None:
                    new = vmap.get((adt, e[1]))
                elif uniq.get(e[1]) == 1:
                    new = [r for (a, v), r in vmap.items() if v == e[1]][0]
                else:
                    new = None
                if new is not None:
                    e[1] = new

    def walk(x):
        if isinstance(x, dict):
            if x.get('ak') == 'adt' and 'adt' in x:
                adt, var = x['adt'], x.get('variant')
                if 'fields' in x:
                    x['fields'] = [fmap.get((adt, var, f), f) for f in x['fields']]
                if (adt, var) in vmap:
                    x['variant'] = vmap[(adt, var)]
            if 'enum' in x and 'variant' in x and (x['enum'], x['variant']) in vmap:
                x['variant'] = vmap[(x['enum'], x['variant'])]
            if 'p' in x and isinstance(x['p'], list) and 'l' in x:
                proj(x['p'])
            for v in x.values():
                walk(v)
        elif isinstance(x, list):
            for v in x:
                walk(v)

    for d in parsed:
        for b in d['bodies']:
            walk(b)
        for k, a in d['adts'].items():
            for v in a['variants']:
                old = v['name']
                for f in v['fields']:
                    f['name'] = fmap.get((k, old, f['name']), f['name'])
                if (k, old) in vmap:
                    v['name'] = vmap[(k, old)]


def dump_ref_adts(parsed, path=REF_ADTS):
    a = user_adts(parsed)
    with open(path, 'w') as fh:
        json.dump(a, fh, indent=0, sort_keys=True)
    return len(a)


def normalise(texts):
    """texts: raw JSON of the crates' facts -> (parsed facts with reference names, log of renames)"""
    parsed = [json.loads(x) for x in texts]
    log = []
    try:
        ref_adts = json.load(open(REF_ADTS))
    except (OSError, ValueError):
        ref_adts = None
    if ref_adts:
        amap, alog = match_adt_paths(ref_adts, user_adts(parsed))
        if amap:
            texts = rewrite(texts, amap)
            parsed = [json.loads(x) for x in texts]
            log += alog
        vmap, fmap, mlog = match_members(ref_adts, user_adts(parsed))
        if vmap or fmap:
            apply_members(parsed, vmap, fmap)
            texts = [json.dumps(p) for p in parsed]
            # variant names also occur inside paths (discriminant constants `Adt::Variant::{constant#0}`, constructor fns)
            pmap = {'%s::%s' % (a, v): '%s::%s' % (a, r) for (a, v), r in vmap.items()}
            if pmap:
                texts = rewrite(texts, pmap)
                parsed = [json.loads(x) for x in texts]
            log += mlog
    ref = load_ref()
    if ref:
        mapping, flog = match(ref, fingerprints(parsed))
        if mapping:
            parsed = [json.loads(x) for x in rewrite(texts, mapping)]
            log += [dict(l, kind='function') for l in flog]
        # functions the reference tree does not have and that serve one function only are extracted helpers: spliced back (inline.py)
        from . import inline
        for l in inline.inline_new_helpers(parsed, ref):
            log.append({'kind': 'inlined-helper', 'tree': l['helper'], 'reference': ', '.join(l['into']), 'sites': l['sites']})
    return parsed, log
