"""C01 — reads return the latest successful write (single-node key-value semantics).

Decides: (a) a refused command changes nothing — in the mutators of Database no write to the map lies
on a path to an exit that returns a locally built Error / VersionError; (b) tombstone discipline —
every body that reads entries of the shared Database.map either branches on the entry state or is a
reviewed sentinel-preserving reader; (c) the listing filters on state, on flag || !starts_with("$$") and
on the pattern function, sorts before returning, and the pattern selector maps `x*` / `*x` / other to
prefix / suffix / contains; (d) the sentinel written by a tombstone equals the default returned for an
absent key; (e) increment stores add(current, inc) of the parsed current value and the request's
argument, the absent default parses to 0.
Does NOT decide equivalence with a reference map over arbitrary histories, nor value parsing.
"""
from nl import core
from nl.core import origins, callee, callee_decl, is_log, bool_switches, const_str, const_val
from nl.model import short
from props.C02 import store_fn, increment_fn, remover_fn

RULES = {
    'C01.a': 'no write to Database.map on a path that ends in a locally built Response::Error / VersionError',
    'C01.b': 'a reader of Database.map entries compares the entry state (ValueStatus) or is a reviewed reader',
    'C01.c': 'listing: state != Deleted && (flag || !starts_with($$)) && pattern(key); result sorted; pattern selector table',
    'C01.d': 'the tombstone sentinel and the absent-key default are the same constant',
    'C01.e': 'increment: stored = add(parse(current or "0"), inc argument)',
    'C01.f': 'tombstone typestate: on a branch that established that an entry of the shared map is Deleted, the only writes of that '
             'map are the removal of the entry or an insert that keeps the state Deleted (background code never revives a removed key)',
    'C01.g': 'a live write brings a removed key back: the function that computes the state of a rewritten entry answers only New or '
             'Updated (never the old state passed through, which would keep Deleted on a key that was just set)',
    'C01.h': 'a mutation command that answers success did mutate: in the Set / Increment / Remove arms a locally built success reply '
             'is dominated by the call of the mutator (or, on a non-primary node, of the forwarder)',
    'C01.i': 'the request entry hands the command text to the parser with nothing but its line end removed (no trim / trim_end / split_whitespace between the transport and Request::parse): the value is the tail of the line',
    'C01.j': 'an entry is taken out of the shared map only on a test of its CURRENT content: every HashMap::remove on Database.map is '
             'controlled by a branch whose condition derives from a lookup of the same map that dominates it (taken under the same '
             'guard) — a removal decided on an earlier copy deletes a key that a client has set again in the meantime',
}

VALUE_MAP = 'std::collections::HashMap::<std::string::String, nundb::bo::Value>::'

REVIEWED_READERS = {
    'get_key_value_new': 'returns the stored sentinel by design: a tombstone holds the sentinel value, an absent key gets the same default (C01.d)',
    'Database::get_value': 'raw copy of the entry, state included: its callers are judged instead',
    'Database::set_value': 'the store: a tombstone supplies the version and the disk offsets for the write that re-creates the key',
    'is_valid_token': 'reads the database token, which can never be tombstoned: remove refuses it (C08.d)',
    'Databases::add_database': 'looks the admin database up to register the new name (no value is read)',
}


def node_bodies(m):
    for b in m.prog.user_bodies():
        if b.id.startswith(('nundb::client::', 'nundb::command_line::', '<nundb::client::')):
            continue
        yield b


def state_tests(m, b):
    """comparisons of a ValueStatus in b or its closures"""
    n = 0
    bodies = [b] + [c for c in m.prog.user_bodies() if c.id.startswith(b.id + '::{closure')]
    for x in bodies:
        for bi, t in x.calls():
            if callee_decl(t) in ('std::cmp::PartialEq::eq', 'std::cmp::PartialEq::ne') and 'ValueStatus' in t['f'].get('dargs', ''):
                n += 1
        for bl in x.blocks:
            for s in bl['s']:
                if s['k'] == 'assign' and s['r']['k'] == 'discr' and s['r']['adt'].endswith('bo::ValueStatus'):
                    n += 1
    return n


def run(ck, m):
    from nl import alias as _alias01
    from props import C02 as _C02b
    ck.rule('C01.k', 'an acknowledged write is a committed write (C02.d, repeated): every success reply of the store and the increment lies behind an '
                     'insert into the map — a "nothing to do, the value is the same" shortcut acknowledges a set on a tombstone (whose text is the '
                     'sentinel) and leaves the key removed')
    _alias01.repeat(ck, m, 'C02', ('C02.d',), 'C01.k', runner=_C02b.success_implies_write)
    for k, v in RULES.items():
        ck.rule(k, v)
    P = m.prog
    ex = m.explorer()
    fx = m.fx()
    # ---- (a) ---------------------------------------------------------------------------
    for b in (store_fn(m), increment_fn(m), remover_fn(m)):
        top = ex.top_frame(b)
        writes = [bi for bi, t in b.calls() if t['f'].get('dargs', '').startswith(VALUE_MAP)
                  and callee_decl(t).split('::')[-1] in ('insert', 'remove', 'get_mut', 'clear', 'retain')
                  and fx.guard_sources(top, t['args'][0])]
        # also writes through local callees
        for bi, t in b.calls():
            cb = P.bodies.get(callee(t))
            if cb is not None and cb.id.endswith('set_value_version'):
                writes.append(bi)
        errs = [bi for bi in b.reachable() for s in b.blocks[bi]['s']
                if s['k'] == 'assign' and s['r']['k'] == 'agg' and s['r'].get('adt', '').endswith('bo::Response')
                and s['r'].get('variant') in ('Error', 'VersionError')]
        bad = [(b.loc(w), b.loc(e)) for w in writes for e in errs if e in b.reach_from([w])]
        ck.ob('C01.a', short(b.id), 'refusal-writes-nothing', bool(writes) and not bad,
              '%d write(s), %d refusing exit(s): no write precedes a refusal' % (len(writes), len(errs)) if writes and not bad else
              'a write at %s can be followed by the refusal built at %s' % bad[0] if bad else 'no write found', '%s:%s' % (b.file, b.line))
    # ---- (b) ---------------------------------------------------------------------------
    readers = []
    for b in node_bodies(m):
        if b.kind not in ('fn', 'method'):
            pass
        top = None
        hit = False
        for bi, t in b.calls():
            da = t['f'].get('dargs', '')
            meth = callee_decl(t).split('::')[-1]
            if da.startswith(VALUE_MAP) and meth in ('get', 'iter', 'values', 'into_iter', 'get_mut'):
                if top is None:
                    top = ex.top_frame(b)
                if fx.guard_sources(top, t['args'][0]):
                    hit = True
            if callee_decl(t) == 'std::clone::Clone::clone' and t['f'].get('t0', '').startswith('std::collections::HashMap<std::string::String, nundb::bo::Value'):
                if top is None:
                    top = ex.top_frame(b)
                if fx.guard_sources(top, t['args'][0]):
                    hit = True
        if hit:
            # closures belong to their parent function
            owner = b
            while owner.parent and owner.parent in P.bodies:
                owner = P.bodies[owner.parent]
            if owner.id not in [r.id for r in readers]:
                readers.append(owner)
    ck.floor('C01.b', len(readers), 9, 'readers of the shared Database.map')
    for b in readers:
        n = state_tests(m, b)
        fn = short(b.id)
        base = b.id.split('::')[-1]
        if n:
            ck.ob('C01.b', fn, 'state-tested', True, '%s compares the entry state (%d comparison(s))' % (fn, n), '%s:%s' % (b.file, b.line))
            continue
        # a reader that hands every entry to a caller-supplied predicate: the callers are judged
        dyn = [i for i in range(1, b.argc + 1) if b.locals[i].startswith('&dyn ') and 'nundb::bo::Value' in b.locals[i] and '-> bool' in b.locals[i]]
        if dyn:
            # snapshot/export callers in the storage strategies are judged by C06 / C18
            callers = [(cb, bi) for cb, bi in P.callers().get(b.id, []) if not cb.id.startswith('nundb::storage::s3')]
            # with no caller left outside the S3 strategies (the snapshot selection inlined its own loop) there is nothing for C01 to judge
            okc = all(state_tests(m, cb) > 0 for cb, _ in callers)
            ck.ob('C01.b', fn, 'delegates-to-caller-predicate', okc,
                  'every caller of %s supplies a predicate that looks at the entry state (%s)' % (fn, [short(cb.id) for cb, _ in callers]) if okc else
                  'a caller of %s supplies a predicate that ignores the entry state' % fn, '%s:%s' % (b.file, b.line))
            continue
        rv = None
        for k, why in REVIEWED_READERS.items():
            if b.id.endswith(k):
                rv = why
        if rv:
            ck.ob('C01.b', fn, 'reviewed-reader', True, 'reviewed: ' + rv, '%s:%s' % (b.file, b.line))
        else:
            ck.ob('C01.b', fn, 'state-tested', False,
                  '%s reads entries of Database.map and never looks at their state: a removed key (tombstone kept until the next '
                  'snapshot) is treated as a live value' % fn, '%s:%s' % (b.file, b.line))
    # ---- (c) ---------------------------------------------------------------------------
    lb = m.lister()
    fn = short(lb.id)
    cls = [c for c in P.user_bodies() if c.parent == lb.id]
    filt = None
    for c in cls:
        if c.locals[0] == 'bool':
            filt = c
    okf = False
    # the filter is a bool closure handed to the iterator chain, or (loop form) sits in the lister's own body
    for filt in ([filt] if filt is not None else [lb]):
        has_state = state_tests(m, filt) > 0
        has_sys = any(P.bodies.get(callee(t)) is not None and P.bodies[callee(t)].locals[0] == 'bool' and P.bodies[callee(t)].argc == 2
                      and P.bodies[callee(t)].locals[1] == 'bool' for _, t in filt.calls())
        has_pat = any(t['f'].get('ind') for _, t in filt.calls())
        okf = has_state and has_sys and has_pat
        # the state compared is Deleted
        dele = any(core.const_of(r) and core.const_of(r).get('variant') == 'Deleted'
                   for _, t in filt.calls() if callee_decl(t) in ('std::cmp::PartialEq::ne', 'std::cmp::PartialEq::eq')
                   for a in t['args'] for r in origins(filt, a))
        okf = okf and dele
        if filt is lb and okf:
            # loop form: the three tests must decide the push — the push is not reachable when any of them answers "no"
            pushes = [bi for bi, t in lb.calls() if callee_decl(t) == 'std::vec::Vec::push']
            tests_ = [bi for bi, t in lb.calls() if t['f'].get('ind') or callee_decl(t) in ('std::cmp::PartialEq::ne', 'std::cmp::PartialEq::eq')
                      or (P.bodies.get(callee(t)) is not None and P.bodies[callee(t)].locals[0] == 'bool' and P.bodies[callee(t)].argc == 2
                          and P.bodies[callee(t)].locals[1] == 'bool')]
            okf = bool(pushes) and all(any(lb.dominates(tt, p_) != lb.dominates(ft, p_) or not _reaches_with_flags(lb, ft, set(pushes))
                                           for (s2, tt, ft) in bool_switches(lb, x))
                                       for x in tests_ for p_ in pushes)
    ck.ob('C01.c', fn, 'filter-terms', okf,
          'the listing filter combines the system-key test, state != Deleted and the pattern function' if okf else
          'listing filter misses one of: system-key test, Deleted test, pattern function', '%s:%s' % (lb.file, lb.line))
    sorts = [bi for bi, t in lb.calls() if callee_decl(t) in ('std::slice::sort', 'std::slice::sort_unstable', 'std::slice::sort_by')]
    oks = bool(sorts) and all(lb.postdominates(s_, 0) for s_ in sorts)
    ck.ob('C01.c', fn, 'sorted', oks, 'the result is sorted on every path before it is returned' if oks else 'the key list is returned unsorted',
          lb.loc(sorts[0]) if sorts else '%s:%s' % (lb.file, lb.line))
    # every answer is computed by this call: the scan of the shared map (its read lock) lies on every path to the return — an answer kept
    # from an earlier call was filtered with THAT call's flag and state of the map
    from nl import locks as _locks
    scans = [bi for bi, t in lb.calls() if callee_decl(t) in _locks.LOCK_FNS and 'Database.map' in _locks.lock_id_of(lb, t['args'][0])]
    fresh = bool(scans) and any(lb.postdominates(x, 0) for x in scans)
    ck.ob('C01.c', fn, 'answer-computed-by-this-call', fresh,
          'every path of the listing scans the shared map under its lock' if fresh else
          'the listing can answer without scanning the map (a remembered answer): it was filtered with the flag and the pattern of an earlier '
          'call — a non-administrator is handed the administrator\'s listing, or a listing older than the last write', '%s:%s' % (lb.file, lb.line))
    # the matcher is handed the pattern the client sent: no rewriting of the pattern text between the request and the matcher (the
    # prefix / suffix matchers strip the wildcard themselves; the contains matcher takes the text literally, `*` included)
    nm_, rew = 0, []
    for cb_ in [lb] + [P.bodies[k_] for k_ in P.bodies if k_.startswith(lb.id + '::{closure')]:
        for bi_, t_ in cb_.calls():
            if not t_['f'].get('ind') or len(t_['args']) < 2:
                continue
            nm_ += 1
            for a_ in t_['args']:
                roots_ = core.deep_field_roots  # noqa (kept for symmetry)
                srcs = origins(cb_, a_)
                for r_ in srcs:
                    if r_[0] != 'capture':
                        continue
                    site = P.closure_sites().get(cb_.id)
                    if site is None:
                        continue
                    pb_, sbi_, ssi_, ops_ = site
                    if r_[1] >= len(ops_):
                        continue
                    from nl.locks import backward_slice as _bs2
                    calls_, params_ = _bs2(pb_, ops_[r_[1]])
                    if 2 not in params_:
                        continue        # not the pattern
                    bad_ = sorted({callee_decl(pb_.term(c_)).split('::')[-1] for c_ in calls_
                                   if callee_decl(pb_.term(c_)).startswith(('std::str::', 'std::string::String::'))
                                   and callee_decl(pb_.term(c_)).split('::')[-1] in ('replace', 'replacen', 'trim', 'trim_matches', 'trim_start_matches',
                                                                                      'trim_end_matches', 'trim_start', 'trim_end', 'to_lowercase',
                                                                                      'to_uppercase', 'strip_prefix', 'strip_suffix', 'split', 'truncate')})
                    if bad_:
                        rew.append((bad_, pb_.loc(sbi_)))
    ck.ob('C01.c', fn, 'matcher-gets-the-pattern-as-sent', not rew,
          'the pattern reaches the matcher as the client sent it' if not rew else
          'the listing rewrites the pattern (%s) before it hands it to the matcher: the contains matcher takes the text literally, so '
          '`keys price*qty` lists `priceqty` and hides the key `price*qty`' % rew, rew[0][1] if rew else '')
    ck.floor('C01.c', nm_, 1, 'matcher calls in the listing')
    # pattern selector
    sel = [b for b in P.user_bodies() if b.kind == 'fn' and b.locals[0].startswith("for<'a, 'b> fn(&'a std::string::String, &'b std::string::String) -> bool")]
    if len(sel) != 1:
        ck.undecided('C01.c', 'pattern-selector', 'anchor', 'expected one fn returning a (key, pattern) -> bool function pointer, found %d' % len(sel))
    else:
        sb = sel[0]
        table = {}
        ew = [bi for bi, t in sb.calls() if callee_decl(t) == 'std::str::ends_with']
        sw_ = [bi for bi, t in sb.calls() if callee_decl(t) == 'std::str::starts_with']

        def fn_in(region):
            out = set()
            for (dbi, dsi, kind, pl) in [d for l in sb.defs() if isinstance(l, int) for d in sb.defs()[l]]:
                if dbi in region and kind == 'assign' and pl['k'] in ('use', 'cast'):
                    o = pl['o']
                    if 'k' in o and o['k'].get('fn'):
                        out.add(o['k']['fn'])
            return out

        def behaviour(fid):
            fb = P.bodies.get(fid)
            if fb is None:
                return '?'
            names = {callee_decl(t) for _, t in fb.calls()}
            for n, lab in (('std::str::starts_with', 'prefix'), ('std::str::ends_with', 'suffix'), ('std::str::contains', 'contains')):
                if n in names:
                    return lab
            return '?'
        ok = False
        if len(ew) == 1 and len(sw_) == 1:
            star = all(const_val(r) == '*' for bi in ew + sw_ for r in origins(sb, sb.term(bi)['args'][1]))
            for (s2, tt, ft) in bool_switches(sb, ew[0]):
                t_reg = {x for x in sb.reachable() if sb.dominates(tt, x) and not sb.dominates(ft, x)}
                table['ends_with(*)'] = {behaviour(f) for f in fn_in(t_reg)}
            for (s2, tt, ft) in bool_switches(sb, sw_[0]):
                t_reg = {x for x in sb.reachable() if sb.dominates(tt, x) and not sb.dominates(ft, x)}
                f_reg = {x for x in sb.reachable() if sb.dominates(ft, x) and not sb.dominates(tt, x)}
                table['starts_with(*)'] = {behaviour(f) for f in fn_in(t_reg)}
                table['otherwise'] = {behaviour(f) for f in fn_in(f_reg)}
            ok = star and table.get('ends_with(*)') == {'prefix'} and table.get('starts_with(*)') == {'suffix'} and table.get('otherwise') == {'contains'}
        ck.ob('C01.c', short(sb.id), 'pattern-table', ok,
              'x* -> prefix match, *x -> suffix match, otherwise contains' if ok else 'pattern selector table is %s' % table, '%s:%s' % (sb.file, sb.line))
    # ---- (d) ---------------------------------------------------------------------------
    rb = remover_fn(m)
    tomb = set()
    for bi, t in rb.calls():
        if t['f'].get('dargs', '').startswith(VALUE_MAP) and callee_decl(t).endswith('::insert'):
            for r in origins(rb, t['args'][2], stop_at_calls=True):
                if r[0] == 'agg':
                    rv = rb.blocks[r[1]]['s'][r[2]]['r']
                    if 'value' in rv.get('fields', []):
                        for r2 in origins(rb, rv['ops'][rv['fields'].index('value')]):
                            if const_str(r2) is not None:
                                tomb.add(const_str(r2))
        if callee(t).endswith('set_value_version') and len(t['args']) > 2:
            for r2 in origins(rb, t['args'][2]):
                if const_str(r2) is not None:
                    tomb.add(const_str(r2))
    getters = [b for b in P.user_bodies() if b.kind == 'fn' and b.locals[0] == 'nundb::bo::Response' and b.argc == 2
               and core.is_str_ty(b.locals[1]) and b.locals[2] == '&nundb::bo::Database']
    dflt = set()
    for g in getters:
        for bl in g.blocks:
            pass
        for bi, t in g.calls():
            for a in t['args']:
                for r in origins(g, a):
                    s = const_str(r)
                    if s is not None and s.startswith('<'):
                        dflt.add(s)
    ck.ob('C01.d', short(rb.id), 'sentinel-agreement', bool(tomb) and tomb == dflt,
          'tombstones store %s and an absent key reads as %s' % (sorted(tomb), sorted(dflt)), '%s:%s' % (rb.file, rb.line))
    # ---- (e) ---------------------------------------------------------------------------
    ib = increment_fn(m)
    adds = [(bi, t) for bi, t in ib.calls() if callee_decl(t) in ('std::num::checked_add', 'std::num::wrapping_add', 'std::num::saturating_add')
            and any(('::<impl %s>::' % ty) in t['f'].get('dargs', '') or ty in t['f'].get('dargs', '') for ty in ('i8', 'i16', 'i32', 'i64', 'i128', 'isize'))]
    bins = [s for bl in ib.blocks for s in bl['s'] if s['k'] == 'assign' and s['r']['k'] == 'bin' and s['r']['op'].startswith('Add')]
    oke = False
    whye = 'no addition found in the increment'
    cand = [(t['args'][0], t['args'][1], ib.loc(bi)) for bi, t in adds] + [(s['r']['a'], s['r']['b'], '') for s in bins]
    for a, b_, loc in cand:
        ra = origins(ib, a, stop_at_calls=True)
        rb_ = origins(ib, b_)
        from_parse = any(r[0] == 'call' and callee_decl(ib.term(r[1])) == 'std::num::from_str_radix' for r in ra)
        from_arg = any(r[0] == 'param' and r[1] == 3 for r in rb_)
        if from_parse and from_arg:
            oke = True
            whye = 'stored number = add(parsed current value, the increment argument)'
    if not oke:
        # the addition may live in a private helper of the increment (`checked_increment(current, inc)`): its operands are mapped back
        # through the helper's parameters to the arguments of the call
        ADDS = ('std::num::checked_add', 'std::num::wrapping_add', 'std::num::saturating_add')
        for hb_ in P.private_helpers(ib):
            for hbi, ht in hb_.calls():
                if callee_decl(ht) not in ADDS or len(ht['args']) < 2:
                    continue
                pa = [r[1] for r in origins(hb_, ht['args'][0]) if r[0] == 'param']
                pb_ = [r[1] for r in origins(hb_, ht['args'][1]) if r[0] == 'param']
                for cbi, ct in ib.calls():
                    if callee(ct) != hb_.id:
                        continue
                    fp_ = any(r[0] == 'call' and callee_decl(ib.term(r[1])) == 'std::num::from_str_radix'
                              for i_ in pa if i_ - 1 < len(ct['args']) for r in origins(ib, ct['args'][i_ - 1], stop_at_calls=True))
                    fa_ = any(r[0] == 'param' and r[1] == 3 for i_ in pb_ if i_ - 1 < len(ct['args']) for r in origins(ib, ct['args'][i_ - 1]))
                    if fp_ and fa_:
                        oke = True
                        whye = 'stored number = add(parsed current value, the increment argument) (in the helper %s)' % short(hb_.id)
                        if callee_decl(ht) != 'std::num::checked_add':
                            adds.append((cbi, {'f': ht['f'], 'args': [ct['args'][pa[0] - 1], ct['args'][pb_[0] - 1]], 'k': 'call', 'd': ht['d']}))
    # exactness: near the i32 bounds the sum must be refused, not clamped or wrapped (reply Ok while the value grew by less than asked)
    inexact = [(callee_decl(t).split('::')[-1], ib.loc(bi)) for bi, t in adds if callee_decl(t) in ('std::num::wrapping_add', 'std::num::saturating_add')
               and any(r[0] == 'param' and r[1] == 3 for r in origins(ib, t['args'][1]))]
    ck.ob('C01.e', short(ib.id), 'adds-exactly-or-refuses', not inexact,
          'the sum is computed with an overflow check: a result outside i32 is refused' if not inexact else
          'the increment computes the sum with %s: when value + argument leaves the i32 range the command answers Ok and stores a value that '
          'is NOT value + argument (clamped / wrapped) instead of refusing and leaving the value unchanged' % inexact, inexact[0][1] if inexact else '')
    zero = any(const_str(r) == '0' for bi, t in ib.calls() for a in t['args'] for r in origins(ib, a))
    ck.ob('C01.e', short(ib.id), 'adds-its-argument', oke and zero, whye + ('; absent default "0"' if zero else '; no "0" default'),
          '%s:%s' % (ib.file, ib.line))

    # the text handed to the number parser is the stored value as it is: a blank-stripping call in between (trim, trim_end …) makes
    # `"7 "` a number — the increment then REPLACES a value it has to refuse
    from nl.locks import backward_slice as _bsl
    STRIP = ('trim', 'trim_start', 'trim_end', 'trim_matches', 'trim_start_matches', 'trim_end_matches', 'trim_ascii', 'trim_ascii_start',
             'trim_ascii_end', 'strip_prefix', 'strip_suffix', 'split_whitespace', 'split_ascii_whitespace', 'replace', 'replacen',
             'to_lowercase', 'to_uppercase', 'split', 'splitn', 'rsplit', 'lines', 'chars', 'filter', 'trim_left', 'trim_right')
    parses = [(bi, t) for bi, t in ib.calls() if callee_decl(t) in ('std::num::from_str_radix', 'std::str::parse', 'std::str::FromStr::from_str')]
    np_ = 0
    for bi, t in parses:
        if not t['args']:
            continue
        np_ += 1
        cleaned = sorted({callee_decl(ib.term(c)).split('::')[-1] for c in _bsl(ib, t['args'][0])[0]
                          if callee_decl(ib.term(c)).startswith(('std::str::', 'std::string::String::', 'std::iter::Iterator::'))
                          and callee_decl(ib.term(c)).split('::')[-1] in STRIP})
        ck.ob('C01.e', short(ib.id), 'parses-the-stored-text-as-it-is', not cleaned,
              'the stored text reaches the number parser unmodified' if not cleaned else
              'the increment applies %s to the stored value before parsing it: a value that is not an integer (`"7 "`, `" 7"`, `"7\\r"`) is '
              'accepted and replaced by a number instead of being refused unchanged' % cleaned, ib.loc(bi))
    ck.floor('C01.e', np_, 1, 'number parses in the increment')
    # ---- (f) tombstone typestate ----------------------------------------------------------
    ADT = 'nundb::bo::ValueStatus'
    ex = m.explorer()
    vfields = [f['name'] for f in P.adts['nundb::bo::Value']['variants'][0]['fields']] if 'nundb::bo::Value' in P.adts else []
    nsw = 0
    for b in node_bodies(m):
        for bi in sorted(b.reachable()):
            tt = b.term(bi)
            if tt['k'] != 'switch':
                continue
            hit = False
            for r in origins(b, tt['o']):
                if r[0] == 'discr' and b.blocks[r[1]]['s'][r[2]]['r']['adt'] == ADT:
                    hit = True
            if not hit:
                continue
            tm = {P.variant_of_discr(ADT, v): tb for v, tb in tt['targets']}
            if 'Deleted' not in tm:
                continue
            others = {x for k, x in tm.items() if k != 'Deleted'} | {tt['else']}
            others.discard(tm['Deleted'])
            reg = {x for x in b.reachable() if b.dominates(tm['Deleted'], x) and not any(b.dominates(o, x) for o in others)}
            effs, raw = m.effects_from(b, block_filter=reg)
            writes = [(ev, inf) for ev, kind, inf in effs if kind == 'map-write']
            if not writes and not any(kind.startswith('map-') for ev, kind, inf in effs):
                continue      # a switch that only formats / serialises the state
            nsw += 1
            bad = []
            for ev, inf in writes:
                if inf.get('method') != 'insert':
                    continue
                states = set()
                for v in inf.get('value', ()):
                    if 'state' in vfields:
                        for s_ in ex.extend(v, (('f', vfields.index('state'), 'state', 'nundb::bo::Value'),)):
                            states.add(ex.describe(s_))
                if not states or any('Deleted' not in s_ for s_ in states):
                    bad.append((ev.where(), sorted(states)))
            ck.ob('C01.f', short(b.id), 'deleted-arm-keeps-tombstone', not bad,
                  'on the Deleted branch the entry is only dropped or kept Deleted' if not bad else
                  'on the branch where the entry is known to be Deleted, %s stores it with state %s: the removed key is listed again '
                  'and increment treats the sentinel as a value' % (bad[0][0], bad[0][1]), b.loc(bi))
    ck.floor('C01.f', nsw, 1, 'state switches with a Deleted branch that touches the shared map')

    # ---- (g) state after a live write ---------------------------------------------------------
    upd = [b for b in P.user_bodies() if b.kind == 'method' and b.argc == 1 and b.locals[0] == 'nundb::bo::ValueStatus' and b.locals[1] == '&nundb::bo::Value']
    if len(upd) != 1:
        ck.undecided('C01.g', 'state-after-write', 'anchor', 'expected one (&Value) -> ValueStatus method, found %d' % len(upd))
    else:
        ub = upd[0]
        vs = core.enum_variants_of(ub, {'c': {'l': 0}}, stop_at_calls=True) if False else set()
        for r in core.place_origins(ub, {'l': 0}):
            if r[0] == 'const':
                c = core.const_of(r)
                vs.add(c.get('variant') or '?')
            elif r[0] == 'agg':
                vs.add(ub.blocks[r[1]]['s'][r[2]]['r'].get('variant') or '?')
            else:
                vs.add('?')
        okg = bool(vs) and vs <= {'New', 'Updated'}
        ck.ob('C01.g', short(ub.id), 'rewritten-entry-is-live', okg,
              'a rewritten entry becomes New or Updated' if okg else
              'the state of a rewritten entry can be %s (the old state handed through): a set / increment on a removed key stores the new value '
              'still marked Deleted — keys hides it and the next increment treats it as absent' % sorted(vs), '%s:%s' % (ub.file, ub.line))
        # ... and only an entry that is NOT on disk stays New: the table of the function over the four states, by path enumeration.
        # `remove` drops a New entry from memory without a tombstone and the snapshot appends a New entry as a fresh key record; an entry that
        # has a record on disk (Ok, Updated, Deleted) answered New is removed without a trace (the full synchronisation sends no
        # replicate-remove, a restart brings the key back) or gets a second key record
        table = state_table(P, ub)
        want = {'New': {'New'}}
        badt = {st_: sorted(res) for st_, res in table.items() if res != want.get(st_, {'Updated'})}
        ck.ob('C01.g', short(ub.id), 'only-an-unsaved-entry-stays-new', bool(table) and not badt,
              'state after a write: New -> New, Ok / Updated / Deleted -> Updated' if table and not badt else
              'state after a write: %s (expected New -> New, every state that has a record on disk -> Updated): a rewritten tombstone marked New '
              'is dropped by the next remove without leaving a tombstone — the key is back after a restart and the full synchronisation never '
              'tells the other nodes to remove it' % (badt or 'the function could not be tabulated'), '%s:%s' % (ub.file, ub.line))
    # ---- (h) success implies the mutator ran ------------------------------------------------
    from props import repl
    d, sw = m.dispatcher()
    muts = {store_fn(m).id, increment_fn(m).id, remover_fn(m).id}
    # helpers that (transitively, depth 3) call a mutator
    def reaches_mut(bid, depth=0, seen=None):
        seen = seen if seen is not None else set()
        if bid in muts:
            return True
        if bid in seen or depth > 3:
            return False
        seen.add(bid)
        cb = P.bodies.get(bid)
        return cb is not None and any(reaches_mut(callee(t), depth + 1, seen) for _, t in cb.calls() if not t['f'].get('ind'))
    try:
        fwd = repl.forwarder(m).id
    except core.AnchorError:
        fwd = None
    nh = 0
    for v in ('Set', 'Increment', 'Remove'):
        if v not in sw[1]:
            continue
        reg = m.arm_region(d, sw, v)
        closures = [P.bodies[s['r']['def']] for x in sorted(reg) for s in d.blocks[x]['s']
                    if s['k'] == 'assign' and s['r']['k'] == 'agg' and s['r'].get('ak') == 'closure' and s['r']['def'] in P.bodies]
        for cb in closures:
            acts = [bi for bi, t in cb.calls() if reaches_mut(callee(t)) or (fwd and callee(t) == fwd)]
            succ = [bi for bi, bl in enumerate(cb.blocks) if not bl.get('cleanup') for s in bl['s']
                    if s['k'] == 'assign' and s['r']['k'] == 'agg' and s['r'].get('adt', '').endswith('bo::Response') and s['r'].get('variant') in ('Ok', 'Set')]
            if not acts and not succ:
                continue
            nh += 1
            bad = [cb.loc(x) for x in succ if not any(cb.dominates(a, x) for a in acts)]
            ck.ob('C01.h', short(cb.id), '%s:success-after-mutation' % v, not bad,
                  'a success reply of the %s arm follows the mutator / the forward to the primary' % v if not bad else
                  'the %s arm answers success at %s without having called the mutator: the command is acknowledged, nothing is stored '
                  '(e.g. `increment k 0` on an absent key leaves it <Empty> and unlisted, on a non-numeric value answers Ok)' % (v, bad),
                  '%s:%s' % (cb.file, cb.line))
    ck.floor('C01.h', nh, 3, 'mutation arm closures')


    # ---- C01.i: the command text reaches the parser with nothing but its line end removed ---------
    # The value is the tail of the line: a blank-stripping call between the transport and the parser
    # (trim, trim_end, split_whitespace…) changes what `set k "v  "` stores, and what increment accepts.
    from nl.locks import backward_slice
    IDENT = ('std::string::String::from', 'std::convert::From::from', 'std::ops::Deref::deref', 'std::string::ToString::to_string',
             'std::string::String::as_str', 'std::borrow::Borrow::borrow', 'std::convert::AsRef::as_ref', 'std::clone::Clone::clone',
             'std::borrow::ToOwned::to_owned', 'std::str::to_owned', 'std::str::to_string', 'std::string::String::as_ref',
             'std::str::len', 'std::str::is_empty', 'std::string::String::len', 'std::string::String::is_empty')
    PATTERNED = ('std::str::trim_matches', 'std::str::trim_start_matches', 'std::str::trim_end_matches',
                 'std::str::strip_suffix', 'std::str::strip_prefix')
    ne = 0
    for name in sorted(m.reentry_names()):
        eb = P.bodies.get(name)
        if eb is None:
            continue
        for x, tx in eb.calls():
            if not callee(tx).endswith('Request>::parse'):
                continue
            ne += 1
            extra = []
            for c in sorted(backward_slice(eb, tx['args'][0])[0]):
                tc = eb.term(c)
                dcl = callee_decl(tc)
                if dcl in IDENT or is_log(tc) or not (dcl.startswith('std::str::') or dcl.startswith('std::string::String::')):
                    continue
                if dcl in PATTERNED:
                    pats = [const_val(r) for a_ in tc['args'][1:] for r in origins(eb, a_) if r[0] == 'const']
                    if pats and all(p_ in (10, '\n', 13, '\r') or (isinstance(p_, str) and p_ and set(p_) <= set('\r\n')) for p_ in pats):
                        continue
                extra.append(dcl.split('::')[-1])
            ck.ob('C01.i', short(eb.id), 'text-reaches-parser-verbatim', not extra,
                  'the request entry hands the command text to the parser with only its line end removed' if not extra else
                  'the request entry applies %s to the command text before parsing: the value is the tail of the line, so '
                  '`set k "v  "` stores "v" and `set k "5 "` becomes a number that increment accepts — get returns a value that was never written'
                  % extra, eb.loc(x))
    ck.floor('C01.i', ne, 1, 'request entries that call the parser')
    # ... and inside Request::parse: what reaches the parser of the command word is the text it was handed, cut only at the first blanks
    # (splitn / split_once keep the tail whole), with line breaks and the terminating `;` removed — a `split(';')`, a trim, a case change
    # between the two shortens or alters the value that `set` stores (`set style color:red;margin:0` would store `color:red`)
    KEEP_TAIL = ('std::str::splitn', 'std::str::split_once')
    npar = 0
    for pb in [b for b in P.user_bodies() if b.id.endswith('Request>::parse') and b.kind != 'closure']:
        for x, tx in pb.calls():
            if not tx['f'].get('ind') or not tx['args']:
                continue
            npar += 1
            extra = []
            for c in sorted(backward_slice(pb, tx['args'][-1])[0]):
                tc = pb.term(c)
                dcl = callee_decl(tc)
                if dcl in IDENT or dcl in KEEP_TAIL or is_log(tc) or not (dcl.startswith('std::str::') or dcl.startswith('std::string::String::')):
                    continue
                if dcl in PATTERNED or dcl == 'std::str::replace':
                    pats = [const_val(r) for a_ in tc['args'][1:2] for r in origins(pb, a_) if r[0] == 'const']
                    tail_only = dcl in ('std::str::trim_end_matches', 'std::str::strip_suffix')
                    okset = set('\r\n;') if tail_only else set('\r\n')
                    if pats and all((p_ in (10, 13) or (p_ == 59 and tail_only)) or (isinstance(p_, str) and p_ and set(p_) <= okset) for p_ in pats):
                        continue
                extra.append(dcl.split('::')[-1])
            ck.ob('C01.i', short(pb.id), 'parser-gets-the-whole-tail', not extra,
                  'Request::parse hands the parser of the command word the text it received, cut only at the first blanks' if not extra else
                  'Request::parse applies %s to the command text before the parser of the command word sees it: a value is the tail of the line, '
                  'whatever it contains — `set k a;b` is acknowledged and stores `a`, get returns a value that was never written' % extra, pb.loc(x))
    ck.floor('C01.i', npar, 1, 'calls of a registered parser in Request::parse')
    removal_rechecks(ck, m)


def removal_rechecks(ck, m):
    """C01.j — see RULES"""
    from nl.locks import backward_slice
    P = m.prog
    VM = 'std::collections::HashMap::<std::string::String, nundb::bo::Value>::'
    n = 0
    for b in P.user_bodies():
        if b.id.startswith(('nundb::client::', 'nundb::command_line::')):
            continue
        for bi, t in b.calls():
            da = t['f'].get('dargs', '')
            if not (da.startswith(VM) and callee_decl(t).split('::')[-1] in ('remove', 'remove_entry')):
                continue
            n += 1
            gets = [x for x, t2 in b.calls() if t2['f'].get('dargs', '').startswith(VM + 'get') and b.dominates(x, bi)]
            controlled = False
            from nl.locks import controlling_switches
            # the switches that decide the removal within one loop iteration (control dependence with the back edges cut)
            for sb in controlling_switches(b, bi):
                calls, _params = backward_slice(b, b.term(sb)['o'], control=True)
                if calls & set(gets):
                    controlled = True
            ck.ob('C01.j', short(b.id), 'removal-decided-on-the-current-entry', controlled,
                  'the entry is removed on a branch that tests what the map holds for the key at that moment' if controlled else
                  '%s removes an entry of the shared map without looking at what the map holds for the key at that moment (no lookup of '
                  'the map controls the removal): decided on an earlier copy of the entry — the tombstone the snapshot copied — it deletes a '
                  'key that a client has set again since; the acknowledged set is lost (get answers <Empty>, keys no longer lists it)'
                  % short(b.id), b.loc(bi))
    ck.floor('C01.j', n, 2, 'removals from Database.map')



def state_table(P, ub):
    """{state variant: set of answered variants} of a (&Value) -> ValueStatus function, by enumeration of its paths.  Tests understood: a
    switch on the discriminant of self.state, and PartialEq::eq / ne of self.state with a constant variant; any other branch counts for
    every state (both ways)."""
    adt = P.adts.get('nundb::bo::ValueStatus')
    if not adt:
        return {}
    variants = [v['name'] for v in adt['variants']]
    discr = {str(v['discr']): v['name'] for v in adt['variants']}
    table = {v: set() for v in variants}

    def is_state(place):
        fs = [e for e in place.get('p', ()) if e[0] == 'f']
        rs = core.place_origins(ub, place)
        return any(r[0] == 'param' and r[1] == 1 and [q[2] for q in r[-1] if q[0] == 'f'][-1:] == ['state'] for r in rs)
    # bool locals that hold `state == V` / `state != V`
    tests = {}
    for bi, t in ub.calls():
        d = callee_decl(t)
        if d in ('std::cmp::PartialEq::eq', 'std::cmp::PartialEq::ne') and len(t['args']) == 2 and not t['d'].get('p'):
            sides = []
            for a in t['args']:
                pl = a.get('c') or a.get('m')
                vs_ = {core.const_of(r).get('variant') for r in origins(ub, a) if r[0] == 'const' and isinstance(core.const_of(r), dict)}
                sides.append(('state', None) if pl and is_state(pl) else ('const', vs_) if len(vs_) == 1 and None not in vs_ else ('?', None))
            kinds = [k_ for k_, _ in sides]
            if sorted(kinds) == ['const', 'state']:
                v = [x for k_, x in sides if k_ == 'const'][0]
                tests[t['d']['l']] = (list(v)[0], d.endswith('::eq'))

    def walk(bi, possible, result, seen):
        if bi in seen or ub.blocks[bi].get('cleanup'):
            return
        seen = seen | {bi}
        for s_ in ub.blocks[bi]['s']:
            if s_['k'] == 'assign' and s_['l']['l'] == 0 and not s_['l'].get('p'):
                rv = s_['r']
                if rv['k'] == 'agg':
                    result = {rv.get('variant')}
                else:
                    result = {(core.const_of(r).get('variant') if r[0] == 'const' and isinstance(core.const_of(r), dict) else
                               ub.blocks[r[1]]['s'][r[2]]['r'].get('variant') if r[0] == 'agg' else '?')
                              for r in origins(ub, rv.get('o', {'k': None})) } if rv['k'] == 'use' else {'?'}
        t = ub.term(bi)
        if t['k'] == 'return':
            for v in possible:
                table[v] |= set(result or {'?'})
            return
        if t['k'] == 'switch':
            o = t['o']
            pl = o.get('c') or o.get('m')
            handled = False
            if pl and not pl.get('p'):
                if pl['l'] in tests:
                    v, is_eq = tests[pl['l']]
                    for val, tb in t['targets']:
                        truth = str(val) != '0'
                        walk(tb, possible & ({v} if truth == is_eq else set(variants) - {v}), result, seen)
                    # the `otherwise` edge is the remaining truth value
                    listed = {str(val) != '0' for val, _ in t['targets']}
                    for truth in ({True, False} - listed):
                        walk(t['else'], possible & ({v} if truth == is_eq else set(variants) - {v}), result, seen)
                    handled = True
                else:
                    for (dbi, dsi, kind, rv) in ub.defs().get(pl['l'], []):
                        if kind == 'assign' and rv['k'] == 'discr' and is_state(rv['p']):
                            used = set()
                            for val, tb in t['targets']:
                                vn = discr.get(str(val))
                                used.add(vn)
                                walk(tb, possible & {vn}, result, seen)
                            walk(t['else'], possible - used, result, seen)
                            handled = True
                            break
            if not handled:
                for x in ub.succ(bi):
                    walk(x, possible, result, seen)
            return
        for x in ub.succ(bi):
            if not ub.blocks[x].get('cleanup'):
                walk(x, possible, result, seen)
    walk(0, set(variants), set(), frozenset())
    return {k: v for k, v in table.items()}



def _reaches_with_flags(b, start, targets, limit=4000):
    """can control reach one of `targets` from block `start` when boolean locals that were assigned a constant keep that value (a
    `let listed = a && b && c; if listed { push }` stores `false` into the flag on the short-circuit edges: the CFG alone says the push is
    reachable from there, the flag says it is not)"""
    seen = set()
    st = [(start, frozenset())]
    n = 0
    while st:
        bi, env = st.pop()
        if (bi, env) in seen or b.blocks[bi].get('cleanup'):
            continue
        seen.add((bi, env))
        n += 1
        if n > limit:
            return True
        if bi in targets:
            return True
        e = dict(env)
        for s_ in b.blocks[bi]['s']:
            if s_['k'] != 'assign' or s_['l'].get('p'):
                continue
            l_ = s_['l']['l']
            rv = s_['r']
            val = None
            if rv['k'] == 'use':
                o = rv['o']
                if 'k' in o and isinstance(o['k'], dict) and o['k'].get('ty') == 'bool':
                    v_ = o['k'].get('v', o['k'].get('val'))
                    val = bool(v_) if v_ is not None else None
                else:
                    q = o.get('c') or o.get('m')
                    if q and not q.get('p') and q['l'] in e:
                        val = e[q['l']]
            if val is None:
                e.pop(l_, None)
            else:
                e[l_] = val
        t = b.term(bi)
        if t['k'] == 'call' and not t['d'].get('p'):
            e.pop(t['d']['l'], None)
        env2 = frozenset(e.items())
        if t['k'] == 'switch':
            q = t['o'].get('c') or t['o'].get('m')
            if q and not q.get('p') and q['l'] in e:
                want = '1' if e[q['l']] else '0'
                nxt = None
                for v_, tb in t['targets']:
                    if str(v_) == want:
                        nxt = tb
                if nxt is None:
                    nxt = t['else']
                if not (nxt != start and b.dominates(nxt, start)):
                    st.append((nxt, env2))
                continue
        for x in b.succ(bi):
            if x != start and b.dominates(x, start):
                continue          # a back edge: the next turn of the loop decides anew
            st.append((x, env2))
    return False
