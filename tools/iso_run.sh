#!/bin/bash
# usage: iso_run.sh <keep-dir>[:<keep-dir>...] <command...>
# Runs the command in private network (own loopback), mount (empty tmpfs /tmp in which only the listed directories under /tmp are kept,
# bind-mounted at the same paths) and pid (own /proc) namespaces.  nun-db's integration tests use fixed ports, fixed /tmp/dbs*
# directories and `killall nun-db`, so confirmation runs of several scratch worktrees can only run side by side when each has its own.
KEEP="$1"; shift
export ISO_KEEP="$KEEP"
exec unshare -n -m -p -f --mount-proc bash -c '
set -e
ip link set lo up
i=0
IFS=: read -ra DIRS <<< "$ISO_KEEP"
for d in "${DIRS[@]}"; do mkdir -p /mnt/iso_hold_$i; mount --bind "$d" /mnt/iso_hold_$i; i=$((i+1)); done
mount -t tmpfs tmpfs /tmp
i=0
for d in "${DIRS[@]}"; do mkdir -p "$d"; mount --bind /mnt/iso_hold_$i "$d"; i=$((i+1)); done
mkdir -p /tmp/dbs /tmp/dbs1 /tmp/dbs2
"$@"
' iso "$@"
