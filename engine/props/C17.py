"""C17 — $connections equals the number of open sessions on the database.

Decides: (a) pairing — every successful selection increments and mirrors, a selection that replaces
an earlier one first decrements and mirrors the earlier database, every session end decrements and
mirrors (the three transports call Client::left, which decrements the selected database);
(b) the counter update and the write of its mirror key are one atomic step (no window in which two
sessions mirror in the opposite order of their updates); (c) the decrement cannot underflow inside
its lock; (d) the mirror goes through the normal write path, so watchers of $connections are told.
"""
from nl import core, locks
from nl.core import origins, callee, callee_decl, is_log, enum_switches, const_str
from nl.model import short

RULES = {
    'C17.a': 'selection write in the UseDb arm is preceded by a decrement+mirror of the previous selection and followed '
             'by increment+mirror; Client::left decrements and mirrors the selected database; all three transports call it',
    'C17.b': 'the connections counter is not re-read in a later critical section to write its mirror key '
             '(counter update and mirror must be one atomic step)',
    'C17.c': 'the decrement is a checked / saturating subtraction or is dominated by a > 0 test',
    'C17.g': 'a session gives its connection back once: the entry points from which Client::left is reachable (library callbacks, thread '
             'closures) are one per transport object, and none reaches it twice on one path',
    'C17.e': 'every update of the connections counter is atomic: made under the write lock of Database.connections, or by one atomic '
             'read-modify-write call (fetch_add / fetch_sub / fetch_update / compare_exchange) — never a load followed by a store under a '
             'shared lock',
    'C17.d': 'the mirror is written through the conflict-aware store (which notifies watchers)',
}


def conn_fns(m):
    """(inc, dec, count): methods of Database acquiring Database.connections"""
    inc = dec = cnt = None
    for b in m.prog.user_bodies():
        if b.kind != 'method' or b.argc != 1 or b.locals[1] != '&nundb::bo::Database':
            continue
        acq = [a for a in locks.acquisitions(b) if 'Database.connections' in a.ids]
        if not acq:
            continue
        if b.locals[0] == 'usize':
            cnt = b
            continue
        # classify by the arithmetic on the counter (plain arithmetic under the write lock, or atomic operations)
        ops = set()
        for bl in b.blocks:
            for s in bl['s']:
                if s['k'] == 'assign' and s['r']['k'] == 'bin':
                    ops.add(s['r']['op'])
        calls = {callee_decl(t) for _, t in b.calls()}
        leafs = {c.split('::')[-1] for c in calls}
        if any(o.startswith('Add') for o in ops) or leafs & {'saturating_add', 'checked_add', 'wrapping_add', 'fetch_add'}:
            inc = b
        if any(o.startswith('Sub') for o in ops) or leafs & {'saturating_sub', 'checked_sub', 'wrapping_sub', 'fetch_sub'}:
            dec = b
    return inc, dec, cnt


def run(ck, m):
    for k, v in RULES.items():
        ck.rule(k, v)
    P = m.prog
    inc, dec, cnt = conn_fns(m)
    if not (inc and dec and cnt):
        ck.undecided('C17.a', 'connections', 'anchors', 'inc/dec/count methods on Database.connections not all found (%s %s %s)' % (inc, dec, cnt))
        return
    # the mirror function: calls the counter reader and a store with the constant "$connections"
    mirror = None
    for b in P.user_bodies():
        if b.kind in ('fn', 'method') and any(callee(t) == cnt.id for _, t in b.calls()):
            consts = [const_str(r) for bi, t in b.calls() for a in t['args'] for r in origins(b, a)]
            if any(c and c.endswith('connections') for c in consts if c):
                mirror = b
    if mirror is None:
        ck.undecided('C17.a', 'connections', 'mirror', 'no function mirrors the counter into a *connections key')
        return
    d, sw = m.dispatcher()
    ex = m.explorer()
    region = m.arm_region(d, sw, 'UseDb')
    effs, raw = m.arm_effects('UseDb')
    # selection writes on SelectedDatabase.name
    sel = [ev for ev, kind, info in effs if kind in ('guarded-replace', 'store') and
           any(l == 'SelectedDatabase.name' for l, _ in info.get('locks', ())) and ev.frame.body.id == d.id]
    ck.floor('C17.a', len(sel), 1, 'selection writes in the UseDb arm')

    def calls_in_region(fn_ids, via_helpers=True):
        """blocks of the dispatcher (in the UseDb arm) that call one of fn_ids, directly or through a local helper"""
        out = []
        for bi in region:
            t = d.term(bi)
            if t['k'] != 'call':
                continue
            n = callee(t)
            if n in fn_ids:
                out.append(bi)
            elif via_helpers:
                cb = P.bodies.get(n)
                if cb is not None and any(callee(t2) in fn_ids for _, t2 in cb.calls()):
                    out.append(bi)
        return out
    incs = calls_in_region({inc.id}, False)
    # an extracted `count_new_selection(db, dbs)` that increments and then mirrors is an increment site (and a mirror site) of its own
    for bi in region:
        t = d.term(bi)
        cb = P.bodies.get(callee(t)) if t['k'] == 'call' else None
        if cb is not None and bi not in incs and cb.id in {h.id for h in P.private_helpers(d)}:
            hi = [x for x, t2 in cb.calls() if callee(t2) == inc.id]
            hm = [x for x, t2 in cb.calls() if callee(t2) == mirror.id]
            hd = [x for x, t2 in cb.calls() if callee(t2) == dec.id]
            if hi and hm and not hd and all(any(cb.postdominates(y, x) for y in hm) for x in hi) and all(cb.postdominates(x, 0) for x in hi):
                incs.append(bi)
    decs = calls_in_region({dec.id})
    mirs = calls_in_region({mirror.id})
    for ev in sel:
        bi = ev.bi
        after_inc = [x for x in incs if d.dominates(bi, x) or d.postdominates(x, bi)]
        inc_ok = any(d.postdominates(x, bi) for x in incs)
        mir_after = any(d.postdominates(x, bi) for x in mirs if any(d.dominates(i, x) or x > 0 for i in incs))
        mir_ok = any(d.postdominates(x, bi) and any(d.dominates(i, x) for i in incs) for x in mirs)
        ck.ob('C17.a', 'dispatcher', 'UseDb:select-then-increment', inc_ok and mir_ok,
              'a selection is always followed by increment and mirror' if inc_ok and mir_ok else
              'selection at %s is not followed on every path by increment (%s) and mirror (%s)' % (d.loc(bi), inc_ok, mir_ok),
              d.loc(bi))
        dec_ok = any(d.dominates(x, bi) for x in decs)
        ck.ob('C17.a', 'dispatcher', 'UseDb:reselect-decrements-previous', dec_ok,
              'the previous selection is decremented (and mirrored) before it is replaced' if dec_ok else
              'selection at %s replaces an earlier one without decrementing it: use-db twice leaks one connection' % d.loc(bi),
              d.loc(bi))
    # the previous selection is given back only when it is really replaced: every decrement of the arm is followed, on every
    # path, by a selection write (a refused use-db must leave the session counted where it is)
    for x in decs:
        followed = any(d.postdominates(ev.bi, x) for ev in sel)
        ck.ob('C17.a', 'dispatcher', 'UseDb:decrement-only-when-reselecting', followed,
              'the previous selection is decremented only on paths that go on to replace it' if followed else
              'the decrement at %s is not followed by a selection write on every path: a use-db that is refused afterwards (wrong token) '
              'has already given back the connection of the database the session stays in; the later disconnect decrements it again'
              % d.loc(x), d.loc(x))
    # the helper that decrements the previous selection must do so only when there was one, and mirror it
    for bi in decs:
        n = callee(d.term(bi))
        if n != dec.id:
            hb = P.bodies[n]
            hdec = [x for x, t in hb.calls() if callee(t) == dec.id]
            hmir = [x for x, t in hb.calls() if callee(t) == mirror.id]
            ok = bool(hdec) and bool(hmir) and all(any(hb.postdominates(y, x) for y in hmir) for x in hdec)
            # argument = the selection about to be replaced
            prev = any(any(s[0] == 'f' and s[2] == 'name' and s[3].endswith('bo::SelectedDatabase') for s in r[-1])
                       or r[0] == 'call' for a in d.term(bi)['args'][:1] for r in origins(d, a))
            # the decrement may be skipped only when there was no previous selection / the database is gone:
            # every branch on the way to it that can bypass it is a test of an Option discriminant
            bypass = []
            if hdec:
                reach_dec = {x for x in hb.reachable() if hdec[0] in hb.reach_from([x], include_start=True)}
                for x in sorted(hb.reachable()):
                    tx = hb.term(x)
                    if tx['k'] != 'switch' or not hb.dominates(x, hdec[0]):
                        continue
                    succ = [tb for _, tb in tx['targets']] + [tx['else']]
                    if all(s_ in reach_dec for s_ in succ):
                        continue
                    kinds = set()
                    for r in origins(hb, tx['o']):
                        if r[0] == 'discr':
                            kinds.add(hb.blocks[r[1]]['s'][r[2]]['r']['adt'])
                        else:
                            kinds.add(r[0])
                    if kinds != {'std::option::Option'}:
                        bypass.append((hb.loc(x), sorted(kinds)))
            ok = ok and not bypass
            ck.ob('C17.a', short(hb.id), 'decrement-then-mirror', ok and prev,
                  'decrements the previously selected database and mirrors it' if ok and prev else
                  'helper decrements=%s mirrors-after=%s previous-selection-arg=%s; conditions other than "there was a previous '
                  'selection and its database exists" that skip the decrement: %s — the connection counted for the previous selection '
                  'is never given back' % (bool(hdec), ok, prev, bypass), hb.loc(hdec[0]) if hdec else '')
    # session end: Client::left
    left = [b for b in P.user_bodies() if b.id.endswith('bo::Client::left')]
    if len(left) != 1:
        ck.undecided('C17.a', 'Client::left', 'anchor', 'Client::left not found')
    else:
        lb = left[0]
        ldec = [x for x, t in lb.calls() if callee(t) == dec.id]
        lmir = [x for x, t in lb.calls() if callee(t) == mirror.id]
        seln = [x for x, t in lb.calls() if callee(t).endswith('bo::Client::selected_db_name')]
        ok = bool(ldec) and bool(lmir) and all(any(lb.postdominates(y, x) for y in lmir) for x in ldec)
        # decrements the *selected* database: the db looked up by the selected name
        keyed = False
        for x, t in lb.calls():
            if t['f'].get('dargs', '').startswith('std::collections::HashMap::<std::string::String, nundb::bo::Database>::get'):
                for r in origins(lb, t['args'][1], stop_at_calls=True):
                    if r[0] == 'call' and r[1] in seln:
                        keyed = True
        ck.ob('C17.a', short(lb.id), 'decrement-selected-then-mirror', ok and keyed,
              'Client::left decrements the selected database and mirrors it' if ok and keyed else
              'left: decrement=%s mirror-after=%s keyed-by-selection=%s' % (bool(ldec), ok, keyed), '%s:%s' % (lb.file, lb.line))
        callers = [cb for (cb, cbi) in P.callers().get(lb.id, []) if not cb.id.startswith('nundb::client::')]
        # every transport's session end (the place that dispatches "unwatch-all") gives the connection back
        pr = m.reentry_names()
        ends = []
        for b in P.user_bodies():
            if b.id.startswith(('nundb::client::', 'nundb::command_line::')):
                continue
            for bi, t in b.calls():
                if callee(t) in pr and t['args'] and any(const_str(r) == 'unwatch-all' for r in origins(b, t['args'][0])):
                    ends.append((b, bi))
        for b, bi in ends:
            lefts = [x for x, t in b.calls() if callee(t) == lb.id]
            okl = any(b.postdominates(x, bi) for x in lefts)
            ck.ob('C17.a', short(b.id), 'session-end-gives-connection-back', okl,
                  'the session end calls Client::left on every path' if okl else
                  'this transport ends a session (unwatch-all) without Client::left: its connection stays counted for ever', b.loc(bi))
        ck.floor('C17.a', len(ends), 3, 'transport session-end sites')
        # where one function both executes a session's commands and ends the session, no path from an executed command leaves
        # the function around Client::left (an early return out of the command loop drops the Client with its connection counted)
        nd = 0
        for b in {b_.id: b_ for b_, _ in ends}.values():
            lefts = {x for x, t in b.calls() if callee(t) == lb.id}
            disp = [x for x, t in b.calls() if callee(t) in pr and t['args'] and not any(const_str(r) is not None for r in origins(b, t['args'][0]))]
            if not lefts or not disp:
                continue
            rets = set(b.return_blocks())
            for x in disp:
                nd += 1
                esc = rets & set(b.reach_from([x], stop=lambda y: y in lefts))
                ck.ob('C17.a', short(b.id), 'no-exit-around-session-end', not esc,
                      'every path from an executed command to the return passes Client::left' if not esc else
                      'after executing a command the function can return (%s) without Client::left: the session that selected a database is '
                      'dropped with its connection still counted — $connections never falls back' % [b.loc(y) for y in sorted(esc)], b.loc(x))
        ck.floor('C17.a', nd, 1, 'command dispatches in functions that also end the session')
        # a session gives its connection back ONCE: walking up the call graph from Client::left, the entry points that nobody in the node
        # calls (callbacks of a library: the methods of the ws Handler; the thread closures of the tcp / http transports) are one per
        # transport object — two callbacks of one Handler that both release (on_error as well as on_close: ws calls both when a connection
        # breaks) count one session down twice, and the sessions still open are under-counted
        C_ = P.callers()
        up, st_ = {lb.id}, [lb.id]
        while st_:
            x_ = st_.pop()
            for cb_, _cbi in C_.get(x_, []):
                if cb_.id not in up and not cb_.id.startswith(('nundb::client::', 'nundb::command_line::')):
                    up.add(cb_.id)
                    st_.append(cb_.id)
        roots_ = sorted(x_ for x_ in up if not [1 for cb_, _ in C_.get(x_, []) if cb_.id != x_])
        groups_ = {}
        for r_ in roots_:
            key_ = r_.rsplit('>::', 1)[0] + '>' if r_.startswith('<') and '>::' in r_ else r_
            groups_.setdefault(key_, []).append(r_)
        twice = {k_: v_ for k_, v_ in groups_.items() if len(v_) > 1}
        # ... and no entry point reaches it twice in a row
        again = []
        for x_ in sorted(up):
            b_ = P.bodies[x_]
            rel = [bi_ for bi_, t_ in b_.calls() if callee(t_) in up and callee(t_) != x_]
            for bi_ in rel:
                if any(y_ in b_.reach_from([bi_]) for y_ in rel if y_ != bi_):
                    again.append('%s@%s' % (short(x_), b_.loc(bi_)))
        ck.ob('C17.g', 'Client::left', 'one-release-per-session', not twice and not again,
              'every transport object has one entry point that gives the connection back (%s)' % [short(r_) for r_ in roots_] if not twice and not again else
              'a session can give its connection back twice: %s — the counter and $connections of a database with other open sessions fall '
              'below the number of sessions' % ('; '.join('%s are callbacks of one object and both reach Client::left' % [short(x_) for x_ in v_]
                                                          for v_ in twice.values()) or 'Client::left reached again after %s' % again[:2]),
              '%s:%s' % (lb.file, lb.line))
        ck.floor('C17.g', len(roots_), 3, 'entry points that reach Client::left')
    # the give-back never depends on luck: no try_read / try_write / try_lock on the way from a session end to the decrement (a
    # release that is skipped when a lock happens to be busy — a create-db holding or merely waiting for Databases.map — is never
    # made up for: the connection stays counted)
    TRY = ('std::sync::RwLock::try_read', 'std::sync::RwLock::try_write', 'std::sync::Mutex::try_lock')
    tries, nscan = [], 0
    lb_list = left
    if lb_list:
        stack, seen_ = [lb_list[0]], set()
        while stack:
            x = stack.pop()
            if x.id in seen_:
                continue
            seen_.add(x.id)
            nscan += 1
            for bi, t in x.calls():
                if callee_decl(t) in TRY:
                    tries.append('%s@%s' % (short(x.id), x.loc(bi)))
                cb_ = P.bodies.get(callee(t))
                if cb_ is not None and not cb_.id.startswith(('nundb::client::', 'nundb::command_line::')) and len(seen_) < 60:
                    stack.append(cb_)
        ck.ob('C17.a', short(lb_list[0].id), 'give-back-never-skipped-on-contention', not tries,
              'no try-lock between a session end and the decrement (%d functions scanned)' % nscan if not tries else
              'the session end takes a lock with %s: when the lock is busy (a create-db holds or waits for Databases.map) the decrement and the '
              '$connections update are skipped and never made up for — the connection stays counted for ever' % tries, tries[0] if tries else '')
    # ---- (b) ---------------------------------------------------------------------------
    # mirror(): reads the counter in its own critical section and writes the key in another one; the
    # update happened in a third.  Atomic only if one lock spans update, read and write.
    L = locks.LockModel(P)
    S = L.summaries()
    spans = False
    for b in [d] + left:
        for a in L.acq(b):
            if 'Database.connections' in a.ids:
                spans = True
    reads_in_own_section = any('Database.connections' in a.ids for a in L.acq(cnt))
    writes_later = any(l == 'Database.map' for l, _ in S.get(mirror.id, ()))
    atomic = spans or not (reads_in_own_section and writes_later)
    ck.ob('C17.b', short(mirror.id), 'update-and-mirror-atomic', atomic,
          'counter update and mirror write are covered by one critical section' if atomic else
          '%s re-reads the counter (%s, own read section) and writes the mirror key under Database.map later, while the '
          'update happened in an earlier section of Database.connections: two sessions can mirror in the opposite order '
          'of their updates and leave $connections stale' % (short(mirror.id), short(cnt.id)), '%s:%s' % (mirror.file, mirror.line))
    # ---- (c) ---------------------------------------------------------------------------
    unchecked = [bi for bi in dec.reachable() if dec.term(bi)['k'] == 'assert' and dec.term(bi)['msg'].startswith('Overflow(Sub)')]
    raw_sub = [s for bl in dec.blocks for s in bl['s'] if s['k'] == 'assign' and s['r']['k'] == 'bin' and s['r']['op'] in ('Sub', 'SubUnchecked', 'SubWithOverflow')]
    safe_calls = [t for _, t in dec.calls() if callee_decl(t).endswith(('::saturating_sub', '::checked_sub'))]
    ok = bool(safe_calls) and not raw_sub
    ck.ob('C17.c', short(dec.id), 'no-underflow', ok,
          'the decrement saturates / is checked' if ok else 'unchecked `- 1` on the usize counter inside its write lock',
          '%s:%s' % (dec.file, dec.line))
    # ---- (e) ---------------------------------------------------------------------------
    for fb in (inc, dec):
        acq = [a for a in locks.acquisitions(fb) if 'Database.connections' in a.ids]
        exclusive = bool(acq) and all(a.mode == 'W' for a in acq)
        leafs = [callee_decl(t).split('::')[-1] for _, t in fb.calls() if callee_decl(t).startswith('std::sync::atomic::Atomic')]
        rmw = [x for x in leafs if x in ('fetch_add', 'fetch_sub', 'fetch_update', 'compare_exchange', 'compare_exchange_weak', 'fetch_max', 'fetch_min')]
        plain = [x for x in leafs if x in ('store', 'swap')]
        oke = exclusive or (len(rmw) >= 1 and not plain)
        ck.ob('C17.e', short(fb.id), 'counter-update-atomic', oke,
              'the update runs under the write lock of Database.connections' if exclusive else
              ('the update is a single atomic read-modify-write' if oke else
               '%s updates the counter with %s while holding Database.connections only in shared mode: two sessions connecting / leaving at the '
               'same time can overwrite each other\'s update and the count drifts for good' % (short(fb.id), leafs)),
              '%s:%s' % (fb.file, fb.line))
    # ---- (d) ---------------------------------------------------------------------------
    from props import C03
    notif = False
    effs2, raw2 = m.effects_from(mirror)
    wrote = [ev for ev, kind, info in effs2 if kind == 'map-write' and any('connections' in ex.describe(v) for v in info.get('key', ()))]
    sent = [ev for ev, kind, info in effs2 if kind == 'send' and 'watcher' in info['chan']]
    # ... and it does so on every call: the counter is kept per node, so the key is written on whatever node serves the session; an
    # early return on the node's role leaves the key stale (or <Empty>) on every node that is not the primary
    store_calls = [bi for bi, t in mirror.calls() if any(ev.chain and ev.chain[0][0] == mirror.id and ev.chain[0][1] == mirror.loc(bi) for ev in wrote)
                   or any(not ev.chain and ev.bi == bi for ev in wrote)]
    always = bool(store_calls) and any(mirror.postdominates(x, 0) for x in store_calls)
    ck.ob('C17.d', short(mirror.id), 'mirror-written-on-every-call', always,
          'the connections key is written on every call of the mirror function' if always else
          'the mirror function can return without writing the connections key (store calls %s do not post-dominate the entry — an early return '
          'on the node\'s role, for instance): on such a node the counter changes and `$connections` keeps its old value; its watchers hear nothing'
          % [mirror.loc(x) for x in store_calls], '%s:%s' % (mirror.file, mirror.line))
    ck.ob('C17.d', short(mirror.id), 'mirror-notifies', bool(wrote) and bool(sent),
          'the mirror write of the connections key reaches the watcher notification' if wrote and sent else
          'mirror: writes key=%s notifies=%s' % (bool(wrote), bool(sent)), '%s:%s' % (mirror.file, mirror.line))
    # ---- (h) selecting a database touches no subscription --------------------------------
    ck.rule('C17.h', 'the watchers of $connections keep seeing its changes: the UseDb arm registers and removes no watcher (no write to any '
                     'Watchers.map) — a session that selects the database it already uses must not lose its own subscriptions, or it stops '
                     'hearing of the sessions that come and go afterwards')
    effs_u, _raw_u = m.arm_effects('UseDb')
    ww = sorted({'%s (%s)' % (short(ev.frame.body.id), ev.loc()) for ev, kind, info in effs_u if kind in ('watch-write', 'watch-bulk-write')})
    ck.ob('C17.h', 'dispatcher', 'UseDb:leaves-subscriptions-alone', not ww,
          'the UseDb arm writes no watcher list' if not ww else
          'the UseDb arm changes watcher lists: %s — re-selecting the same database silently ends the session\'s subscriptions there' % ww[:3],
          ww[0].split('(')[-1].rstrip(')') if ww else '')
    from nl import alias as _alias17
    ck.rule('C17.i', '$connections is a per-node key: the full synchronisation skips it (C05.e, repeated) — sent to a joining node it shows the sessions of '
                     'the primary on a node where none is open')
    _alias17.repeat(ck, m, 'C05', ('C05.e',), 'C17.i')
