#!/usr/bin/env python3
"""rename_experiment.py : false-alarm experiment for the rename normalisation (engine/nl/symbols.py).
Builds a scratch copy of /repo under mktemp, renames (word-boundary, consistently in src/, tests/, benches/) every
snake_case function defined outside test modules (suffix _rn) plus a fixed list of types, variants and fields, checks
that the copy still compiles, evaluates all 20 properties on it with tools/eval_tree.py and removes the copy.
Expected: no alarm.  (About 5 minutes.)"""
import re, os, glob, subprocess, shutil, sys, tempfile
V = os.path.dirname(os.path.dirname(os.path.abspath(__file__)))
root = tempfile.mkdtemp(prefix='nlrn_')
tree = os.path.join(root, 'tree')
deny = {'on_message', 'on_open', 'on_close', 'on_error', 'on_shutdown', 'to_string', 'from_str', 'partial_cmp', 'as_str', 'try_from',
        'to_le_bytes', 'from_le_bytes', 'ends_with', 'starts_with'}
TYPES = {'to_snapshot': 'snapshot_queue', 'state': 'status', 'Secoundary': 'Secondary', 'ReplicateSet': 'ReplicateSetValue',
         'Deleted': 'Tombstone', 'VersionError': 'Conflict', 'SelectedDatabase': 'Selection', 'ValueStatus': 'EntryState',
         'ClusterRole': 'NodeRole', 'value_disk_addr': 'value_offset', 'selected_db': 'selection', 'pending_opps': 'pending_ops_map',
         'opp_id': 'op_id', 'Databases': 'DbSet', 'Watchers': 'Subscribers', 'watchers': 'subs'}
env = dict(os.environ, CARGO_NET_OFFLINE='true', CARGO_TARGET_DIR=os.path.join(root, 'target'))
try:
    for it in range(8):
        shutil.rmtree(tree, ignore_errors=True)
        os.makedirs(tree)
        for n in ('src', 'Cargo.toml', 'Cargo.lock', 'benches', 'tests'):
            p = '/repo/' + n
            if os.path.isdir(p):
                shutil.copytree(p, os.path.join(tree, n))
            elif os.path.exists(p):
                shutil.copy(p, os.path.join(tree, n))
        files = [f for pat in ('src/**/*.rs', 'tests/**/*.rs', 'benches/**/*.rs') for f in glob.glob(os.path.join(tree, pat), recursive=True)]
        names, mods = set(), set()
        for f in files:
            txt = open(f).read()
            mods |= set(re.findall(r'\bmod ([a-z_0-9]+)', txt))
            if '/client/' in f or '/command_line/' in f:
                continue
            idx = txt.find('#[cfg(test)]')
            body = txt if idx < 0 else txt[:idx]
            names |= {m.group(1) for m in re.finditer(r'\bfn ([a-z_0-9]+)', body) if '_' in m.group(1)}
        names -= deny
        names -= mods
        ren = {n: n + '_rn' for n in names}
        ren.update(TYPES)
        rx = re.compile(r'\b(' + '|'.join(sorted(ren, key=len, reverse=True)) + r')\b')
        for f in files:
            txt = open(f).read()
            new = rx.sub(lambda m: ren[m.group(1)], txt)
            if new != txt:
                open(f, 'w').write(new)
        r = subprocess.run(['cargo', 'check', '--offline', '--lib', '--bins'], cwd=tree, env=env, stdout=subprocess.PIPE, stderr=subprocess.STDOUT, text=True)
        errs = r.stdout.count('\nerror')
        bad = set(re.findall(r'`([a-z_0-9]+)_rn`', r.stdout))
        print('round', it, 'renamed', len(ren), 'compile errors', errs, 'excluded next round', sorted(bad)[:10])
        if not errs:
            break
        if not bad:
            print(r.stdout[-2000:])
            sys.exit(2)
        deny |= bad
    rc = subprocess.call([sys.executable, os.path.join(V, 'tools', 'eval_tree.py'), tree])
    sys.exit(rc)
finally:
    shutil.rmtree(root, ignore_errors=True)
