"""C19 — newer-strategy databases accept every write; the last applied one wins.

Decides the decision structure of the Newer path: (a) the Newer arm of the conflict resolver builds no
Error / VersionError: its results are the store's answer to a resolving change, or a Set carrying the
stored value; (b) the comparison is change.opp_id > stored.opp_id -> re-apply, else keep; (c) the
re-applied change is built from the stored version and marked resolving; (d) the admin database and
databases loaded without metadata get the Newer strategy; (f) the conflict entry point hands the store's
answer to the resolver iff it is a VersionError and returns it unchanged otherwise, and the resolver
dispatches on the database's own strategy.  (e: notification only through the store — C03.a/b.)
Does NOT decide which change is "most recent" by wall clock; atomicity is C02.a.
"""
from nl import core
from nl.core import origins, callee, callee_decl, is_log, bool_switches, const_val, enum_switches
from nl.model import short
from props.C02 import resolver_fn, strategy_switch, store_fn

RULES = {
    'C19.a': 'the Newer arm builds no Error / VersionError; it returns the store\'s answer or Set{stored value}',
    'C19.b': 'Newer compares change.opp_id > old_value.opp_id: true -> re-apply, false -> keep the stored value',
    'C19.c': 'the re-applied change carries the stored version and is marked resolving (to_resolve_change)',
    'C19.d': 'default strategy Newer for the admin database and for databases loaded without a metadata file',
    'C19.g': 'the store stamps an entry with the opp_id of the change that wrote it (issue order): the Newer comparison '
             'change.opp_id > stored.opp_id is then between two issue times, never between an issue time and an apply time',
    'C19.j': 'issue order is the clock: the generator of operation ids (what Change::new stamps a change with) returns the wall clock at '
             'nanosecond or microsecond resolution, with no wrapping component (%, &, >>) and no process-local counter mixed in',
    'C19.h': 'the version a resolving re-apply stores is old.version + 1 when the stored entry is not in conflict resolution (the stored '
             'version still only grows): the return table of Change::next_version, shared with C13.d',
    'C19.f': 'the conflict entry point calls the resolver only for VersionError; the resolver switches on metadata.consensus_strategy',
    'C19.i': 'the store reads the entry it compares with and writes the new one in a single critical section of Database.map (otherwise a concurrent write is accepted against a stale entry and never reaches the Newer resolution)',
}


def run(ck, m):
    _run(ck, m)
    stamp_rule(ck, m)
    from nl import alias as _alias19b
    ck.rule('C19.l', 'every node applies every replicated write (C04.g, repeated): the receiver of a replicated set calls the store on every path — a copy '
                     'skipped because "the key has moved past that version" is exactly the stale write the primary resolved and accepted')
    _alias19b.repeat(ck, m, 'C04', ('C04.g',), 'C19.l', key_filter=lambda k: 'applies-unconditionally' in k)
    # watchers are told exactly what was stored: C03.a (every committed write is followed by a notification of the written operands),
    # C03.g (the notifier re-reads nothing) and C03.j (only the mutators notify), repeated — the Newer resolution commits through the same store
    from nl import alias as _alias19
    ck.rule('C19.k', 'watchers are notified exactly when, and of exactly what, the store commits (C03.a / C03.g / C03.j, repeated): the notification '
                     'follows the insert on every path, carries the operands of that insert and is sent by the mutator itself')
    _alias19.repeat(ck, m, 'C03', ('C03.a', 'C03.g', 'C03.j'), 'C19.k', floor=3)
    # the store compares and writes under one write lock (the rule is C02.a's, evaluated here for the store only): with the
    # entry read in an earlier section a concurrent older write is checked against a stale copy, is accepted without a
    # VersionError — so the Newer resolution never sees it — and the stored version goes back
    from nl import locks
    from props.C02 import store_fn
    ck.rule('C19.i', 'the store reads the entry it compares with and writes the new one in a single critical section of Database.map '
                     '(otherwise a concurrent write is accepted against a stale entry and never reaches the Newer resolution)')
    sb_ = store_fn(m)
    res_ = locks.rmw_findings(m, sb_, 'map')
    ck.ob('C19.i', short(sb_.id), 'compare-and-store-in-one-section', not res_,
          'the version comparison and the insert are in one critical section' if not res_ else
          '%s reads the entry in %s (%s) and writes it in a later section (%s): two concurrent writers both compare with the same old '
          'entry, the second insert is accepted without a VersionError, the Newer resolution is never asked and the version goes back'
          % (short(sb_.id), res_[0]['first_fn'], res_[0]['first'], res_[0]['second']), '%s:%s' % (sb_.file, sb_.line))
    # the return table of next_version is evaluated by C13.d; its verdict is repeated here because the Newer re-apply depends on it
    from nl import report
    from props import C13
    tmp = report.Check('C13', 'quick', 0)
    try:
        C13._run(tmp, m)
    except Exception as e:      # fail closed
        ck.undecided('C19.h', 'next_version', 'table', 'C13.d could not be evaluated: %s' % e)
    for o in tmp.obs:
        if o['key'].endswith(':return-table'):
            ck.ob('C19.h', o['key'].split(':')[1], 'return-table', o['verdict'] == 'discharged', o['what'], o['loc'])


def _run(ck, m):
    for k, v in RULES.items():
        ck.rule(k, v)
    P = m.prog
    rb = resolver_fn(m)
    sb = store_fn(m)
    sw = strategy_switch(m, rb)
    if sw is None:
        ck.undecided('C19.a', short(rb.id), 'strategy-switch', 'no switch over ConsensuStrategy in the resolver')
        return
    sbi, tm = sw
    fn = short(rb.id)
    # the switched value is the database's own strategy
    own = False
    for r in origins(rb, rb.term(sbi)['o']):
        if r[0] == 'discr':
            rv = rb.blocks[r[1]]['s'][r[2]]['r']
            path = [s for s in rv['p'].get('p', ()) if s[0] == 'f']
            names = [s[3] for s in path]
            own = rv['p']['l'] == 1 and names[-2:] == ['metadata', 'consensus_strategy'] if len(names) >= 2 else False
            if not own:
                for r2 in core.place_origins(rb, rv['p']):
                    if r2[0] == 'param' and r2[1] == 1 and [s[2] for s in r2[-1] if s[0] == 'f'][-2:] == ['metadata', 'consensus_strategy']:
                        own = True
    ck.ob('C19.f', fn, 'dispatch-on-own-strategy', own and len(set(tm.values())) == 3,
          'the resolver switches on self.metadata.consensus_strategy with three distinct arms' if own and len(set(tm.values())) == 3 else
          'resolver strategy switch: own strategy=%s, distinct arms=%d' % (own, len(set(tm.values()))), rb.loc(sbi))
    newer = tm.get('Newer')
    others = {t for k, t in tm.items() if k != 'Newer'}
    region = {x for x in rb.reachable() if rb.dominates(newer, x) and not any(rb.dominates(o, x) for o in others)}
    # the arm may have been moved into a private method (`resolve_with_newer(&key, &change, &old_value, old_version)`): it is then judged
    # there, and what the rules say about `change.…` / `old_value.…` / `old_version` is read through the arguments of that call
    pmap = None
    arm_calls = [x for x in region if rb.term(x)['k'] == 'call' and not is_log(rb.term(x)) and P.bodies.get(callee(rb.term(x))) is not None
                 and callee(rb.term(x)) != sb.id and P.bodies[callee(rb.term(x))].locals[0].endswith('bo::Response')
                 and callee(rb.term(x)) in {h.id for h in P.private_helpers(rb)}]
    has_own = any(rb.term(x)['k'] == 'call' and callee(rb.term(x)) == sb.id for x in region)
    rb0 = rb
    if arm_calls and not has_own and len(arm_calls) == 1:
        t0 = rb.term(arm_calls[0])
        hb0 = P.bodies[callee(t0)]
        pmap = {}
        for j, a0 in enumerate(t0['args']):
            names = set()
            for r in origins(rb, a0):
                if r[0] == 'param' and r[1] == 2:
                    names.add(tuple(q[2] for q in r[-1] if q[0] == 'f'))
            if len(names) == 1:
                pmap[j + 1] = list(next(iter(names)))
        rb = hb0
        region = set(rb.reachable())
        newer = 0

    def is_resp(r):
        return r[0] == 'param' and ((pmap is None and r[1] == 2) or (pmap is not None and r[1] in pmap))

    def flds_of(r):
        f = [q[2] for q in r[-1] if q[0] == 'f']
        if pmap is not None and r[0] == 'param' and r[1] in pmap:
            return pmap[r[1]] + f
        return f
    aggs = [(x, s['r']) for x in region for s in rb.blocks[x]['s'] if s['k'] == 'assign' and s['r']['k'] == 'agg'
            and s['r'].get('adt', '').endswith('bo::Response')]
    bad = [a['variant'] for _, a in aggs if a['variant'] in ('Error', 'VersionError')]
    sets = [(x, a) for x, a in aggs if a['variant'] == 'Set']
    stores = [x for x in region if rb.term(x)['k'] == 'call' and callee(rb.term(x)) == sb.id]
    ck.ob('C19.a', fn, 'newer-never-refuses', not bad and bool(stores) and bool(sets),
          'the Newer arm returns the store\'s answer or Response::Set, never an error' if not bad and stores and sets else
          'Newer arm: builds %s, store calls %d, Set replies %d' % (bad, len(stores), len(sets)), rb.loc(newer))
    # Set carries the stored value
    okv = False
    for x, a in sets:
        vop = a['ops'][a['fields'].index('value')]
        for r in origins(rb, vop):
            flds = flds_of(r)
            if is_resp(r) and 'old_value' in flds and flds[-1] == 'value':
                okv = True
    ck.ob('C19.a', fn, 'keep-reports-stored-value', okv,
          'when the stored change is kept the reply carries the stored value' if okv else
          'the Set reply of the Newer arm does not carry old_value.value', rb.loc(newer))
    # (b) comparison
    okb = False
    whyb = 'no comparison of the two opp_id fields in the Newer arm'
    for x in region:
        for s in rb.blocks[x]['s']:
            if s['k'] == 'assign' and s['r']['k'] == 'bin' and s['r']['op'] in ('Gt', 'Lt', 'Ge', 'Le'):
                def side(o):
                    for r in origins(rb, o):
                        flds = flds_of(r)
                        if flds[-1:] == ['opp_id']:
                            return 'change' if 'change' in flds else ('old' if 'old_value' in flds else '?')
                    return None
                a, b_ = side(s['r']['a']), side(s['r']['b'])
                op = s['r']['op']
                if a == 'old' and b_ == 'change':
                    op = {'Gt': 'Lt', 'Lt': 'Gt', 'Ge': 'Le', 'Le': 'Ge'}[op]
                    a, b_ = b_, a
                if a == 'change' and b_ == 'old':
                    negated = op in ('Le', 'Lt')          # `change <= old` is `!(change > old)`: same test, edges swapped
                    if negated:
                        op = {'Le': 'Gt', 'Lt': 'Ge'}[op]
                    for (s2, tt, ft) in bool_switches(rb, local=s['l']['l']):
                        if negated:
                            tt, ft = ft, tt
                        t_store = any(rb.dominates(tt, y) for y in stores)
                        f_store = any(rb.dominates(ft, y) and not rb.dominates(tt, y) for y in stores)
                        t_set = any(rb.dominates(ft, y) for y, _ in sets)
                        # the winner is re-applied unconditionally: the store call post-dominates the winning edge (a second look at the
                        # key that lets "landed later" stand for "issued later" drops the newest change)
                        t_always = any(rb.postdominates(y, tt) or y == tt for y in stores)
                        # and the losing side touches nothing: no store, no notification of watchers
                        f_reg = {x2 for x2 in region if rb.dominates(ft, x2) and not rb.dominates(tt, x2)}
                        f_effects = [rb.loc(x2) for x2 in f_reg if rb.term(x2)['k'] == 'call' and not is_log(rb.term(x2))
                                     and P.bodies.get(callee(rb.term(x2))) is not None
                                     and (callee(rb.term(x2)) == sb.id or 'notify' in callee(rb.term(x2)) or
                                          any(callee_decl(t3).endswith('mpsc::Sender::try_send') for _, t3 in P.bodies[callee(rb.term(x2))].calls()))]
                        okb = op == 'Gt' and t_store and not f_store and t_set and t_always and not f_effects
                        if op == 'Gt' and t_store and not f_store and t_set and not t_always:
                            extra_why = ' — the re-apply can be skipped on the winning side (the store call does not post-dominate it): the most recently issued change is dropped when another write landed in between'
                        elif f_effects:
                            extra_why = ' — the losing side has effects (%s): watchers are told of a change although nothing was stored' % f_effects
                        else:
                            extra_why = ''
                        whyb = ('change.opp_id > old_value.opp_id -> re-apply through the store, else keep' if okb else
                                'comparison change.opp_id %s old_value.opp_id: true->store=%s false->store=%s false->Set=%s%s' % (op, t_store, f_store, t_set, extra_why))
    ck.ob('C19.b', fn, 'newer-comparison', okb, whyb, rb.loc(newer))
    # (c) the change handed to the store
    okc = False
    whyc = 'no store call in the Newer arm'
    for y in stores:
        t = rb.term(y)
        resolving = False
        ver_old = False
        for r in origins(rb, t['args'][1], stop_at_calls=True):
            if r[0] == 'call':
                ct = rb.term(r[1])
                cb = P.bodies.get(callee(ct))
                if cb is not None and returns_resolving(cb):
                    resolving = True
                    # its receiver: Change::new(key, value, old_version)
                    for r2 in origins(rb, ct['args'][0], stop_at_calls=True):
                        if r2[0] == 'call' and len(rb.term(r2[1])['args']) >= 3:
                            for r3 in origins(rb, rb.term(r2[1])['args'][2]):
                                flds = flds_of(r3)
                                if is_resp(r3) and flds[-1:] == ['old_version']:
                                    ver_old = True
        okc = resolving and ver_old
        whyc = ('the re-applied change is Change::new(key, value, old_version).to_resolve_change()' if okc else
                're-applied change: resolving=%s, carries the stored version=%s' % (resolving, ver_old))
    ck.ob('C19.c', fn, 'reapply-as-resolving', okc, whyc, rb.loc(newer))
    rb = rb0
    # (d) defaults
    n = 0
    for b in P.user_bodies():
        if b.id.startswith(('nundb::client::', 'nundb::command_line::')):
            continue
        for bi, t in b.calls():
            if callee(t).endswith('bo::DatabaseMataData::new') and len(t['args']) == 2:
                strat = set()
                for r in origins(b, t['args'][1]):
                    c = core.const_of(r) if r[0] == 'const' else None
                    if c and c.get('variant'):
                        strat.add(c['variant'])
                    elif r[0] == 'agg':
                        strat.add(b.blocks[r[1]]['s'][r[2]]['r'].get('variant'))
                    else:
                        strat.add('dynamic')
                ids = [const_val(r) for r in origins(b, t['args'][0]) if r[0] == 'const']
                is_admin = ids == [0]
                is_fallback = b.id.endswith('load_db_metadata_from_disk_or_empty') and 'dynamic' not in strat
                if is_admin or is_fallback:
                    n += 1
                    ck.ob('C19.d', short(b.id), 'default:%s' % ('admin' if is_admin else 'no-metadata'), strat == {'Newer'},
                          '%s uses strategy %s' % ('the admin database' if is_admin else 'a database loaded without metadata', sorted(strat)), b.loc(bi))
    # the loader of the metadata file must HAVE a no-metadata default: a site that builds the metadata with a constant strategy.  When
    # every site decodes the strategy from a buffer, a missing file yields whatever the buffer was initialised with (zeroes = None)
    for b in P.user_bodies():
        if not b.locals[0].endswith('bo::DatabaseMataData') or b.kind not in ('fn', 'method'):
            continue
        if not any(callee_decl(t) in ('std::fs::File::open', 'std::path::Path::exists', 'std::fs::OpenOptions::open') for _, t in b.calls()):
            continue
        consts_ = []
        for bi, t in b.calls():
            if callee(t).endswith('bo::DatabaseMataData::new') and len(t['args']) == 2:
                rs = origins(b, t['args'][1])
                if rs and all(r[0] in ('const', 'agg') for r in rs):
                    consts_.append(bi)
        if not consts_:
            n += 1
            ck.ob('C19.d', short(b.id), 'default:no-metadata', False,
                  'the metadata loader has no site that builds the metadata with a constant strategy: for a database restored without its '
                  'metadata file the strategy is decoded from a buffer nobody filled (zeroes decode to None, not Newer) — a stale versioned '
                  'write is then refused on that replica while the primary accepts it', '%s:%s' % (b.file, b.line))
    ck.floor('C19.d', n, 2, 'default-strategy sites')
    # (f) entry point
    ent = [b for b in P.user_bodies() if b.kind == 'fn' and any(callee(t) == rb.id for _, t in b.calls())
           and any(callee(t) == sb.id for _, t in b.calls())]
    okf = False
    for b in ent:
        sc = [bi for bi, t in b.calls() if callee(t) == sb.id][0]
        rc = [bi for bi, t in b.calls() if callee(t) == rb.id][0]
        resp = P.adts['nundb::bo::Response']
        ve = [str(v['discr']) for v in resp['variants'] if v['name'] == 'VersionError'][0]
        for (s2, tm2, els, adt) in enum_switches(b, sc):
            ve_t = tm2.get(ve)
            if ve_t is None:
                continue
            other = [t for k, t in tm2.items() if k != ve] + [els]
            okf = b.dominates(ve_t, rc) and not any(o != ve_t and b.dominates(o, rc) for o in other)
            # ... and for EVERY VersionError: no role / mode test may let a refused versioned write through unresolved
            okf = okf and (b.postdominates(rc, ve_t) or rc == ve_t)
            # otherwise the store's answer is returned unchanged
            ret_same = any(r[0] == 'call' and r[1] == sc for r in core.place_origins(b, {'l': 0}, stop_at_calls=True))
            okf = okf and ret_same
    ck.ob('C19.f', short(ent[0].id) if ent else 'entry', 'resolver-only-for-version-error', okf,
          'the resolver is called exactly for VersionError; any other answer of the store is returned unchanged' if okf else
          'conflict entry point does not hand every VersionError (and nothing else) to the resolver: a versioned write can be refused on a '
          'newer-strategy database (for instance on a node in the Secondary role) while the primary accepts it', '%s:%s' % (ent[0].file, ent[0].line) if ent else '')


def stamp_rule(ck, m):
    P = m.prog
    sb = store_fn(m)
    n = 0
    bad = []
    for bi, bl in enumerate(sb.blocks):
        if bl.get('cleanup'):
            continue
        for s in bl['s']:
            if s['k'] == 'assign' and s['r']['k'] == 'agg' and s['r'].get('adt', '').endswith('bo::Value') and 'opp_id' in s['r'].get('fields', []):
                n += 1
                op = s['r']['ops'][s['r']['fields'].index('opp_id')]
                roots = origins(sb, op)
                from_change = bool(roots) and all(r[0] == 'param' and r[1] == 2 and [q[2] for q in r[-1] if q[0] == 'f'][-1:] == ['opp_id'] for r in roots)
                if not from_change:
                    bad.append(sb.loc(bi))
    ck.ob('C19.g', short(sb.id), 'entry-stamped-with-the-change-id', n > 0 and not bad,
          'every entry the store writes carries change.opp_id' if n and not bad else
          'the store stamps the entry at %s with something else than change.opp_id (a fresh id = apply time): a later-issued change that is '
          'applied later but presents a stale version loses against the earlier one although it is the most recent write; the reply says Set '
          'and the replicas apply it, so they diverge from the primary' % bad, '%s:%s' % (sb.file, sb.line))
    ck.floor('C19.g', n, 2, 'Value aggregates built by the store')
    # the store replaces the entry whole: a field-wise update through get_mut / entry keeps whatever it does not assign — the opp_id of the
    # write that created the key, the disk offsets — and the Newer comparison then takes the age of the KEY for the age of the value
    VM = 'std::collections::HashMap::<std::string::String, nundb::bo::Value>::'
    inplace = [sb.loc(bi) for bi, t in sb.calls() if t['f'].get('dargs', '').startswith(VM)
               and t['f']['dargs'][len(VM):].split('::')[0].split('<')[0] in ('get_mut', 'entry', 'iter_mut', 'values_mut')]
    ck.ob('C19.g', short(sb.id), 'entry-replaced-whole', not inplace,
          'the store writes an entry by inserting a complete Value' if not inplace else
          'the store updates an existing entry in place (%s): the fields it does not assign survive — the entry keeps the opp_id of an earlier '
          'write, so a stale change issued before the stored value still counts as newer, overwrites it and is announced' % inplace,
          inplace[0] if inplace else '%s:%s' % (sb.file, sb.line))
    # issue order is the clock: the id generator returns the wall clock at nanosecond (microsecond) resolution and nothing else — a
    # component that wraps (a sequence taken modulo something) makes an id created later smaller than one created before
    gens = [b for b in P.user_bodies() if b.kind in ('fn', 'method') and b.argc == 0 and b.locals[0] == 'u64'
            and any(callee_decl(t).startswith('std::time::') for _, t in b.calls())
            and any(callee(t) == b.id for cb in P.user_bodies() for _, t in cb.calls() if 'Change' in cb.id or cb.id == sb.id or True)]
    gens = [b for b in gens if any(cb.id.startswith('nundb::bo::Change') or 'Change' in cb.id for cb, _ in P.callers().get(b.id, []))]
    ng = 0
    for gb in gens:
        ng += 1
        fine = [callee_decl(t).split('::')[-1] for _, t in gb.calls() if callee_decl(t) in ('std::time::Duration::as_nanos', 'std::time::Duration::as_micros')]
        wraps = sorted({s_['r']['op'] for bl_ in gb.blocks if not bl_.get('cleanup') for s_ in bl_['s']
                        if s_['k'] == 'assign' and s_['r']['k'] == 'bin' and s_['r']['op'].startswith(('Rem', 'BitAnd', 'Shr', 'Div'))})
        other = sorted({callee_decl(t).split('::')[-1] for _, t in gb.calls() if 'atomic' in callee_decl(t)})
        okc = bool(fine) and not wraps and not other
        ck.ob('C19.j', short(gb.id), 'issue-order-is-the-clock', okc,
              'operation ids are the wall clock (%s)' % fine if okc else
              'operation ids are not simply the clock at nanosecond resolution (clock calls: %s, wrapping arithmetic: %s, counters: %s): an id '
              'created later can be smaller than one created before — the Newer comparison drops the most recent write'
              % (fine, wraps, other), '%s:%s' % (gb.file, gb.line))
    ck.floor('C19.j', ng, 1, 'generators of operation ids (used by the Change constructors)')


def returns_resolving(cb):
    """a Change constructor whose result has resolve_conflict = true"""
    for r in core.place_origins(cb, {'l': 0}):
        if r[0] == 'agg':
            rv = cb.blocks[r[1]]['s'][r[2]]['r']
            if rv.get('adt', '').endswith('bo::Change') and 'resolve_conflict' in rv.get('fields', []):
                op = rv['ops'][rv['fields'].index('resolve_conflict')]
                vals = [const_val(x) for x in origins(cb, op)]
                if vals == [True]:
                    return True
    return False
