#!/bin/sh
# usage: eval_benign_tree.sh [jobs] — like eval_benign.sh, but every variant is evaluated on its own scratch copy of /repo's HEAD commit
# (tools/eval_patch_tree.sh), several at a time; /repo itself is not touched.  Expected output: "all benign variants silent".
cd "$(dirname "$0")/.." || exit 2
J="${1:-4}"
OUT=$(mktemp -d /tmp/nlbt_XXXXXX)
ls benign/*.diff | xargs -P "$J" -I{} sh -c 'o=$(tools/eval_patch_tree.sh "$PWD/{}" 2>&1 | grep -v conda); [ -n "$o" ] && { echo "== {}"; echo "$o"; } > '"$OUT"'/$(basename {}).out; true'
if ls "$OUT"/*.out >/dev/null 2>&1; then cat "$OUT"/*.out | cut -c1-400; rm -rf "$OUT"; exit 1; fi
rm -rf "$OUT"; echo "all benign variants silent"
