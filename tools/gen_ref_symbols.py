#!/usr/bin/env python3
"""Regenerate engine/ref_symbols.json (structural fingerprints of every named function) from the facts of
/repo's current tree.  Run only on a tree whose anchors were confirmed by hand (the pinned, repaired tree)."""
import sys, os, json
V = os.path.dirname(os.path.dirname(os.path.abspath(__file__)))
sys.path.insert(0, os.path.join(V, 'engine'))
from nl import core, symbols
facts, info = core.extract('dev')
parsed = [json.load(open(os.path.join(facts, f))) for f in ('nundb.json', 'nun_db.json')]
print('functions fingerprinted:', symbols.dump_ref(parsed))
print('types recorded:', symbols.dump_ref_adts(parsed))
