"""Binary codec layouts: ordered field lists written / read by a body (family W, binary side)."""
import re
from . import core
from .core import origins, callee, callee_decl, is_log

WRITE_FNS = ('std::io::Write::write', 'std::io::Write::write_all', 'std::os::unix::fs::FileExt::write_at',
             'bytes::BufMut::put_slice', 'bytes::buf::BufMut::put_slice', 'std::vec::Vec::extend_from_slice')
READ_FNS = ('std::io::Read::read', 'std::io::Read::read_exact', 'std::os::unix::fs::FileExt::read_at',
            'futures::AsyncReadExt::read', 'futures::AsyncReadExt::read_exact', 'futures::io::AsyncReadExt::read',
            'tokio::io::AsyncReadExt::read', 'tokio::io::AsyncReadExt::read_exact')


def _width_of_type(ty):
    m = re.search(r'\[u8; (\d+)\]', ty)
    if m:
        return int(m.group(1))
    return None


def _order(body, blocks):
    return sorted(blocks, key=lambda x: (len(body.dom().get(x, ())), x))


def var_of(body, operand):
    """best-effort source name of an operand: parameter / local variable / field path"""
    names = set()
    for r in origins(body, operand):
        path = '.'.join(s[2] for s in r[-1] if s[0] == 'f')
        if r[0] == 'param':
            n = body.var_name(r[1]) or 'arg%d' % r[1]
            names.add(n + ('.' + path if path else ''))
        elif r[0] == 'call':
            t = body.term(r[1])
            names.add('ret(%s)' % callee_decl(t).split('::')[-1] + ('.' + path if path else ''))
        elif r[0] == 'const':
            names.add('const(%s)' % core.const_val(r))
        elif r[0] == 'agg':
            names.add('agg')
        else:
            names.add(r[0])
    return '|'.join(sorted(names))


def write_layout(body):
    """[(width or 'N', source description, block)] for every write call, in dominance order"""
    out = []
    for bi in _order(body, [bi for bi, t in body.calls() if callee_decl(t) in WRITE_FNS and not is_log(t)]):
        t = body.term(bi)
        data = t['args'][1]
        width = None
        src = None
        for r in origins(body, data, stop_at_calls=True):
            if r[0] == 'call':
                ct = body.term(r[1])
                d = callee_decl(ct)
                if d.endswith('::to_le_bytes') or d.endswith('::to_be_bytes'):
                    width = _width_of_type(body.locals[ct['d']['l']])
                    src = var_of(body, ct['args'][0])
                    cb = None
                    if width is None:
                        # a local to_le_bytes (ValueStatus / ConsensuStrategy): its return type
                        width = _width_of_type(ct['f'].get('rargs', '')) or _width_of_type(body.locals[ct['d']['l']])
                elif d in ('std::string::String::as_bytes', 'std::str::as_bytes'):
                    width = 'N'
                    src = var_of(body, ct['args'][0])
                else:
                    src = 'ret(%s)' % d.split('::')[-1]
                    width = _width_of_type(body.locals[ct['d']['l']])
            elif r[0] == 'agg':
                rv = body.blocks[r[1]]['s'][r[2]]['r']
                if rv.get('ak') == 'array':
                    width = len(rv['ops'])
                    src = var_of(body, rv['ops'][0]) if rv['ops'] else 'array'
            elif r[0] == 'param':
                src = body.var_name(r[1]) or 'arg%d' % r[1]
                width = 'N'
            elif r[0] == 'const':
                v = core.const_val(r)
                width = len(v) if isinstance(v, (list, str)) else None
                src = 'const'
        if width is None:
            p = data.get('m') or data.get('c')
            if p:
                width = _width_of_type(body.locals[p['l']]) or 'N'
        out.append((width, src, bi))
    return out


def ultimate_local(body, local):
    """follow &mut / unsize-cast / move chains back to the local that owns the buffer"""
    seen = set()
    cur = local
    while cur not in seen:
        seen.add(cur)
        defs = body.defs().get(cur, [])
        nxt = None
        for (dbi, dsi, kind, pl) in defs:
            if kind == 'assign' and pl['k'] in ('ref', 'rawptr'):
                nxt = pl['p']['l']
            elif kind == 'assign' and pl['k'] in ('cast', 'use'):
                o = pl['o']
                q = o.get('m') or o.get('c')
                if q:
                    nxt = q['l']
            elif kind == 'call' and callee_decl(pl) in ('std::ops::DerefMut::deref_mut', 'std::ops::Deref::deref',
                                                        'std::vec::Vec::as_mut_slice', 'std::convert::AsMut::as_mut'):
                q = pl['args'][0].get('m') or pl['args'][0].get('c')
                if q:
                    nxt = q['l']
        if nxt is None:
            break
        cur = nxt
    return cur


def read_layout(body):
    """[(width or 'N', destination description, block)] for every read call, in dominance order"""
    out = []
    for bi in _order(body, [bi for bi, t in body.calls() if callee_decl(t) in READ_FNS and not is_log(t)]):
        t = body.term(bi)
        buf = t['args'][1]
        width = None
        bufloc = None
        for r in origins(body, buf):
            pass
        p = buf.get('m') or buf.get('c')
        base = ultimate_local(body, p['l'])
        if base is not None:
            width = _width_of_type(body.locals[base]) or ('N' if 'Vec<u8>' in body.locals[base] else None)
            bufloc = body.var_name(base) or '_%d' % base
        out.append((width, bufloc, bi, base))
    return out


def read_layout_deep(prog, body, _depth=0):
    """read_layout with the reads of private helpers (functions all of whose callers lie in body's unit — an extracted
    `read_value_record`) spliced in at the helper's call site"""
    helpers = {h.id: h for h in prog.private_helpers(body)} if _depth == 0 else {}
    own = {bi: e for e in read_layout(body) for bi in [e[2]]}
    sub = {}
    for bi, t in body.calls():
        hb = helpers.get(callee(t))
        # only a helper that reads from the CALLER's reader continues the caller's record (it is handed the File / BufReader);
        # one that opens its own file (the metadata loader) reads another record
        if hb is not None and not t['f'].get('ind') and any(
                'std::fs::File' in hb.locals[i] or 'BufReader' in hb.locals[i] for i in range(1, hb.argc + 1)):
            lay = read_layout_deep(prog, hb, _depth + 1)
            if lay:
                sub[bi] = lay
    if not sub:
        return read_layout(body)
    out = []
    for bi in _order(body, sorted(set(own) | set(sub))):
        if bi in own:
            out.append(own[bi])
        else:
            out += [(w, d, bi, None) for (w, d, _b, _base) in sub[bi]]
    return out


def const_items(prog, suffix):
    """values of every use of a const item whose path ends with `suffix`: {item path: set(values)}"""
    import json
    out = {}
    for b in prog.user_bodies():
        for bl in b.blocks:
            ops = []
            for s in bl['s']:
                if s['k'] == 'assign':
                    r = s['r']
                    for k in ('o', 'a', 'b'):
                        if k in r and isinstance(r[k], dict) and 'k' in r[k]:
                            ops.append(r[k]['k'])
                    for o in r.get('ops', ()):
                        if 'k' in o:
                            ops.append(o['k'])
            t = bl['t']
            if t['k'] == 'call':
                for a in t['args']:
                    if 'k' in a:
                        ops.append(a['k'])
            for c in ops:
                it = c.get('item')
                if it and it.endswith(suffix) and not c.get('promoted'):
                    out.setdefault(it, set()).add(str(c.get('v')))
    return out
