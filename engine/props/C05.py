"""C05 — a (re)joining node resynchronises to exactly the primary's data.

Decides: (a) every catch-up command built by the full and the incremental synchronisation agrees with
the parser of its command word and with the live producer of the same word; (b) the full
synchronisation does not export tombstones as values; (c) every replication-stream variant that
changes data on the receiver has an explicit arm in the oplog match of the replication loop;
(d) start-up: an invalid oplog flag leads to the metadata clean-up before the databases are built,
`since == 0` selects the full synchronisation, the joining node reports Oplog::last_op_time();
(e) the full synchronisation skips exactly the per-node keys and the admin database; (f) the
supervisor protocol is closed and replicate-since-to answers the named member only.
Does NOT decide completeness of the oplog query (C12), writes racing with the synchronisation, or
equality of the datasets.
"""
from nl import core, wire
from nl.core import origins, callee, callee_decl, is_log, const_str, bool_switches, const_val
from nl.model import short
from props import repl, C10

RULES = {
    'C05.a': 'catch-up templates agree with the parser of their word (required and numeric slots) and carry the same '
             'number of tokens as the live producer of that word',
    'C05.b': 'the full synchronisation tests the entry state against Deleted before exporting a value',
    'C05.c': 'a replication-stream variant whose handler writes Database.map / Databases.map has an explicit oplog arm',
    'C05.d': 'invalid flag => clean-up before Databases is built; since == 0 => full sync; replicate-since carries last_op_time()',
    'C05.e': 'the full synchronisation skips the token key, the connections key and the admin database (and nothing else)',
    'C05.f': 'every supervisor word has an arm in the supervisor loop; replicate-since-to computes the commands for '
             'start_at and sends them to the named member',
    'C05.g': 'a tombstone stays in memory until a reclaiming snapshot: the full synchronisation learns about removals only from '
             'in-memory tombstones, so the incremental snapshot must not drop them',
    'C05.h': 'the incremental synchronisation reads every value from the database its record names: a database handle that is carried '
             'from one record to the next (a one-entry cache) is re-assigned only under the comparison of the cached name with the '
             'record\'s database name, together with that name',
    'C05.i': 'the catch-up batch cannot overflow the member link silently: in the supervisor every command of the batch is sent through a '
             'fresh clone of the member\'s sender (futures mpsc guarantees one slot per sender handle), not through one handle reused '
             'for the whole loop (about a hundred try_sends, the rest is dropped with a warning)',
    'C05.j': 'the catch-up labels each key with its LAST operation: the oplog query visits rotated files oldest first and the live file last '
             '(C12.d), inserts every record it reads unconditionally (C12.h), so a later record replaces an earlier one of the same key, and leaves the per-file search only after the forward scan (C12.k)',
    'C05.k': 'the node names itself with one Databases field in every node-to-node message (C15.g): the catch-up request `replicate-since '
             '<name>` must carry the name the primary registered, or the primary finds no such member and sends nothing',
    'C05.l': 'the catch-up replays a record as the operation it logs: in the builder, each arm of the switch over the record\'s '
             'operation kind builds messages of ONE command word — the kind of message is never chosen by looking at the value '
             '(a live key whose value is the text `<Empty>` would be replayed as a remove)',
    'C05.m': 'the catch-up decodes a record\'s database id with the map the databases were registered in: every insert into '
             'Databases.id_name_db_map is keyed by the database\'s own metadata id (what the oplog writer logs), not by a position or a count '
             '— after a restart the two differ and a logged write is replayed into another database',
}


def builders(m):
    """bodies reachable from the catch-up entry (u64, &Arc<Databases>) -> Vec<String>"""
    P = m.prog
    ent = [b for b in P.user_bodies() if b.kind == 'fn' and b.locals[0] == 'std::vec::Vec<std::string::String>' and b.argc == 2
           and b.locals[1] == 'u64' and 'Databases' in b.locals[2] and b.public]
    if len(ent) != 1:
        raise core.AnchorError('catch-up entry pub fn(u64, &Arc<Databases>) -> Vec<String>: found %d' % len(ent))
    seen = {ent[0].id}
    st = [ent[0]]
    out = [ent[0]]
    while st:
        b = st.pop()
        for bi, t in b.calls():
            cb = P.bodies.get(callee(t))
            if cb is not None and cb.id not in seen and cb.id.startswith('nundb::replication_ops::'):
                seen.add(cb.id)
                st.append(cb)
                out.append(cb)
    return ent[0], out


def run(ck, m):
    _run(ck, m)
    from nl import alias as _alias
    ck.rule('C05.n', 'a removed key leaves a tombstone for the full synchronisation (C01.g, repeated): an entry that has a record on disk — the '
                     'tombstone of a removed key that is set again included — never goes back to state New, because `remove` drops a New '
                     'entry from memory without a tombstone; with no tombstone the full synchronisation sends no replicate-remove and a node '
                     'that rejoins with an older snapshot keeps the key for ever')
    _alias.repeat(ck, m, 'C01', ('C01.g',), 'C05.n', key_filter=lambda k: 'only-an-unsaved-entry-stays-new' in k)
    ck.rule('C05.o', 'the flag that decides between "send me what I missed" and "send me everything" says what happened (C16.b, repeated): '
                     'every invalidation reaches byte 0 of the flag file, where the start-up reads it — a node that learnt a key it never '
                     'persisted and restarts with the flag still reading valid asks for an incremental catch-up and never gets the writes '
                     'that only lived in its memory')
    _alias.repeat(ck, m, 'C16', ('C16.b',), 'C05.o', key_filter=lambda k: 'flag-written-at-offset-zero' in k or 'memory-equals-disk' in k or 'map-before-valid' in k)
    from props import C12 as _C12
    ck.rule('C05.p', 'a rejoining node asks for everything after its newest RECORD (C12.m, repeated): the last-operation time it reports is decoded '
                     'from a record of its log or is 0 — the name of a rotated file carries the time of the rename, which is later')
    _alias.repeat(ck, m, 'C12', ('C12.m',), 'C05.p', runner=_C12.last_op_time_is_a_record_time)
    # the incremental catch-up is built from what the oplog query returns: the query's "last record of a key wins" rules are C12's
    # (d: files oldest first, live file last; h: every record inserted unconditionally); their verdicts are repeated here because a
    # key written and then removed while the node was away is removed on it only if the LAST record labels the key
    from nl import report
    from props import C12
    tmp = report.Check('C12', 'quick', 0)
    try:
        C12.run(tmp, m)
    except Exception as e:      # fail closed
        ck.undecided('C05.j', 'oplog-query', 'rules', 'C12.d / C12.h could not be evaluated: %s' % e)
    n_ = 0
    for o in tmp.obs:
        if o['key'].endswith((':insert-unconditional', ':oldest-first-live-last', ':search-left-only-after-the-scan')):
            n_ += 1
            ck.ob('C05.j', o['key'].split(':')[1], o['key'].split(':', 2)[2], o['verdict'] == 'discharged', o['what'], o['loc'], verdict=o['verdict'])
    ck.floor('C05.j', n_, 3, 'rules of the oplog query the catch-up depends on')
    one_message_kind_per_operation(ck, m)
    db_registered_under_its_id(ck, m)
    # the node asks for its catch-up under the name the primary registered it with (C15.g, same field for every self-naming message)
    from props import C15
    C15.self_name_agrees(ck, m, rule='C05.k')


def _run(ck, m):
    for k, v in RULES.items():
        ck.rule(k, v)
    P = m.prog
    sch = repl.schemas(m)
    entry, bs = builders(m)
    # ---- (a) ---------------------------------------------------------------------------
    live = {}
    em = repl.table_emissions(m)
    for v, fmts in em.items():
        for f in fmts:
            live.setdefault(wire.first_word(f), set()).add(len(wire.template_tokens(f)))
    n = 0
    for b in bs:
        for bi, f in core.string_builders(b):
            if is_log(b.term(bi)):
                continue
            w = wire.first_word(f)
            if w not in sch:
                continue
            n += 1
            top, variants, reason = sch[w]
            probs, mapping = wire.check_template(P, f, top)
            fn = short(b.id)
            ck.ob('C05.a', fn, 'template:%s' % wire.shape(f), not probs,
                  'catch-up %r agrees with the %s parser' % (f.text(), w) if not probs else
                  'catch-up %r disagrees with the %s parser %r: %s — the receiver stores something else than the primary holds'
                  % (f.text(), w, top, '; '.join(probs)), b.loc(bi))
            ntok = len(wire.template_tokens(f))
            if w in live:
                same = ntok in live[w] or (w == 'replicate-snapshot' and ntok == min(live[w]) - 1)
                ck.ob('C05.a', fn, 'sibling:%s' % wire.shape(f), same,
                      'catch-up %r carries as many fields as the live %s message' % (f.text(), w) if same else
                      'catch-up %r has %d tokens, the live %s message has %s: a field of the live message is not resynchronised'
                      % (f.text(), ntok, w, sorted(live[w])), b.loc(bi))
    ck.floor('C05.a', n, 5, 'catch-up templates')
    # ---- (b) / (e) ---------------------------------------------------------------------
    full = [b for b in bs if b.argc == 1 and b.locals[0] == 'std::vec::Vec<std::string::String>']
    if len(full) != 1:
        ck.undecided('C05.b', 'full-sync', 'anchor', 'expected one (&Arc<Databases>) -> Vec<String> builder, found %d' % len(full))
    else:
        fb = full[0]
        tests_deleted = False
        consts = set()
        for bi, t in fb.calls():
            if callee_decl(t) in ('std::cmp::PartialEq::eq', 'std::cmp::PartialEq::ne'):
                for a in t['args']:
                    for r in origins(fb, a):
                        c = core.const_of(r)
                        if c and c.get('variant') == 'Deleted':
                            # the other operand must be the state of the iterated entry
                            tests_deleted = True
                        s = const_str(r)
                        if s is not None:
                            consts.add(s)
        ck.ob('C05.b', short(fb.id), 'tombstones-not-exported', tests_deleted,
              'the full synchronisation branches on state == Deleted' if tests_deleted else
              'the full synchronisation exports every entry, tombstones included: a removed key arrives as the value <Empty>',
              '%s:%s' % (fb.file, fb.line))
        want = {'$$token', '$connections', '$admin'}
        ck.ob('C05.e', short(fb.id), 'skips-per-node-keys', consts == want,
              'skips exactly %s' % sorted(want) if consts == want else 'compares with %s, expected %s' % (sorted(consts), sorted(want)),
              '%s:%s' % (fb.file, fb.line))
    # ---- (c) ---------------------------------------------------------------------------
    lb, lsw = repl.fanout_loop(m)
    osw = m.request_switch(lb)
    oplog_arms = set()
    # what a node applies it logs, whatever its role: the node that is secondary today answers the catch-up queries after a failover
    from nl import locks as _locks5
    role_dep = []
    for x in sorted(lb.reachable()):
        t = lb.term(x)
        if t['k'] != 'call' or 'op_log' not in callee(t) or is_log(t):
            continue
        for sw_ in _locks5.controlling_switches(lb, x):
            if lsw and sw_ == lsw[0]:
                continue
            calls_, _pp = _locks5.backward_slice(lb, lb.term(sw_)['o'], control=True)
            for c_ in calls_:
                if callee(lb.term(c_)).split('::')[-1] in ('get_role', 'is_primary', 'is_secoundary', 'is_eligible'):
                    role_dep.append('%s decides the append at %s' % (callee(lb.term(c_)).split('::')[-1], lb.loc(x)))
    ck.ob('C05.c', short(lb.id), 'oplog-append-whatever-the-role', not role_dep,
          'no test of the node role decides whether an applied operation is logged' if not role_dep else
          'the replication loop logs an operation only in some roles (%s): a node that applied the writes as a secondary and is primary after a '
          'failover has no record of them, a rejoining node catches up with nothing' % sorted(set(role_dep))[:3], '%s:%s' % (lb.file, lb.line))
    if osw:
        for v, tb in osw[1].items():
            if tb == osw[2]:
                continue
            region = {x for x in lb.reachable() if lb.dominates(tb, x)}
            writes = False
            for x in region:
                t = lb.term(x)
                if t['k'] == 'call' and 'op_log' in callee(t) and lb.postdominates(x, tb):
                    writes = True
                # closures created in the arm (ReplicateSnapshot maps over the names)
            for (cbi, csi, ccb) in [(bi, si, P.bodies.get(s['r']['def'])) for bi in region for si, s in enumerate(lb.blocks[bi]['s'])
                                    if s['k'] == 'assign' and s['r']['k'] == 'agg' and s['r'].get('ak') == 'closure']:
                if ccb is not None and any('op_log' in callee(t2) for _, t2 in ccb.calls()) and lb.postdominates(cbi, tb):
                    writes = True
            if writes:
                oplog_arms.add(v)
    ck.floor('C05.c', len(oplog_arms), 5, 'oplog arms in the replication loop')
    stream_variants = set()
    for v, fmts in em.items():
        for f in fmts:
            vs, w = repl.receiver_variants(m, f)
            for x in vs or ():
                stream_variants.add(x)
    for v in sorted(stream_variants):
        effs, raw = m.arm_effects(v)
        writes = any(kind in ('map-write', 'dbs-write') and not m.in_guard(ev.guards) and
                     {l for l, _ in info.get('locks', ())} & {'Database.map', 'Databases.map'}
                     for ev, kind, info in effs)
        snap = any(kind == 'guarded-vec-push' for ev, kind, info in effs)
        if not (writes or snap):
            continue
        ok = v in oplog_arms
        ck.ob('C05.c', short(lb.id), 'oplog-arm:%s' % v, ok,
              '%s is recorded in the operation log' % v if ok else
              '%s changes data on the receiver but the replication loop writes no oplog record for it: an incremental '
              'resync cannot know about the change' % v, lb.loc(osw[0]) if osw else '')
    # ---- (d) ---------------------------------------------------------------------------
    try:
        sb, cbi, db_, vbi, hbi = repl.startup_unit(m)
    except core.AnchorError as e:
        ck.undecided('C05.d', 'start-up', 'anchor', str(e))
    else:
        cleans = {bi for bi, t in db_.calls() if 'clean_op_log_metadata' in callee(t)}
        goals = {cbi} if hbi is None else set(db_.return_blocks())
        ok = False
        for (s2, tt, ft) in bool_switches(db_, vbi):
            # from the invalid edge, every path to the construction (or out of the deciding helper) passes a clean-up call
            seen = set()
            st = [ft]
            reached = False
            while st:
                x = st.pop()
                if x in seen or x in cleans:
                    continue
                seen.add(x)
                if x in goals:
                    reached = True
                st.extend(db_.succ(x))
            ok = bool(cleans) and not reached
        ck.ob('C05.d', short(sb.id), 'invalid-flag-cleans-before-build', ok,
              'on the invalid branch the oplog metadata is removed before Databases is built' if ok else
              'Databases can be built from stale oplog metadata after an invalid flag', db_.loc(vbi))
    # since == 0 -> full
    okz = False
    for bl in entry.blocks:
        for s in bl['s']:
            if s['k'] == 'assign' and s['r']['k'] == 'bin' and s['r']['op'] == 'Eq':
                a = origins(entry, s['r']['a'])
                b_ = origins(entry, s['r']['b'])
                if any(r[0] == 'param' and r[1] == 1 for r in a) and [const_val(r) for r in b_] == [0]:
                    for (s2, tt, ft) in bool_switches(entry, local=s['l']['l']):
                        t_calls = [callee(entry.term(x)) for x in entry.reachable() if entry.dominates(tt, x) and entry.term(x)['k'] == 'call']
                        f_calls = [callee(entry.term(x)) for x in entry.reachable() if entry.dominates(ft, x) and entry.term(x)['k'] == 'call']
                        if full and full[0].id in t_calls and full[0].id not in f_calls:
                            okz = True
    ck.ob('C05.d', short(entry.id), 'zero-selects-full-sync', okz,
          'since == 0 selects the full synchronisation, anything else the incremental one' if okz else
          'the full synchronisation is not selected by since == 0', '%s:%s' % (entry.file, entry.line))
    # replicate-since carries last_op_time
    okl = False
    for b in P.user_bodies():
        for bi, f in core.string_builders(b):
            if wire.first_word(f) == 'replicate-since' and not is_log(b.term(bi)):
                last = f.pieces[-1] if f.pieces[-1][0] == 'arg' else (f.pieces[-2] if len(f.pieces) > 1 else None)
                args = [p for p in f.pieces if p[0] == 'arg']
                if len(args) == 2 and args[1][1] is not None:
                    for r in origins(b, args[1][1], stop_at_calls=True):
                        if r[0] == 'call' and callee(b.term(r[1])).endswith('Oplog::last_op_time'):
                            okl = True
    ck.ob('C05.d', 'start_sync_process', 'since-is-last-op-time', okl,
          'the joining node sends replicate-since with Oplog::last_op_time()' if okl else
          'no replicate-since producer carrying Oplog::last_op_time()', '')
    # ---- (f) ---------------------------------------------------------------------------
    prods, _ = C10.wire_facts(m)
    words = set()
    for p in prods:
        if 'supervisor' in p.chans:
            for f in p.fmts:
                words.add(wire.first_word(f))
    sup = [b for b in P.user_bodies() if b.kind == 'coroutine' and 'start_replication_supervisor' in b.id and b.id.count('{closure') == 1]
    if len(sup) != 1:
        ck.undecided('C05.f', 'supervisor', 'anchor', 'supervisor loop not found')
        return
    sb = sup[0]
    arms = set()
    for bi, t in sb.calls():
        if callee_decl(t) in ('std::cmp::PartialEq::eq', 'std::str::eq'):
            for a in t['args']:
                for r in origins(sb, a):
                    s = const_str(r)
                    if s is not None:
                        arms.add(s)
    # string patterns in a match on Option<&str> compare through <str as PartialEq>::eq
    ck.floor('C05.f', len(words), 6, 'words produced on the supervisor channel')
    for w in sorted(x for x in words if x):
        ck.ob('C05.f', short(sb.id), 'arm:%s' % w, w in arms,
              'the supervisor has an arm for %r' % w if w in arms else 'the supervisor ignores %r (no arm): %s' % (w, sorted(arms)),
              '%s:%s' % (sb.file, sb.line))
    # replicate-since-to: commands = catch-up(start_at) ; sent through the member looked up by name
    okc = False
    for ub in [sb] + P.private_helpers(sb):       # the arm's body may have been extracted into a helper of the loop
        for bi, t in ub.calls():
            if callee(t) == entry.id:
                # argument is the parsed u64
                a0 = origins(ub, t['args'][0], stop_at_calls=True)
                parsed = any(r[0] == 'call' and callee_decl(ub.term(r[1])) in ('std::str::parse', 'std::result::Result::unwrap') for r in a0)
                okc = parsed or any(r[0] == 'call' for r in origins(ub, t['args'][0]))
    ck.ob('C05.f', short(sb.id), 'replicate-since-to:answers-with-catch-up', okc,
          'replicate-since-to computes the catch-up commands for the parsed start_at' if okc else
          'replicate-since-to does not call the catch-up builder with the parsed start', '%s:%s' % (sb.file, sb.line))

    # ---- (g) tombstones survive the incremental snapshot --------------------------------------
    from props import C06
    try:
        wb, tm, regions = C06.writer_cells(m)
        reg = regions[('Deleted', 'incremental')] | regions[('Deleted', 'both')]
        effs, raw = m.effects_from(wb, block_filter=reg)
        drops = [ev for ev, kind, inf in effs if kind == 'map-write' and inf.get('method') in ('remove', 'remove_entry', 'clear', 'retain')]
        ck.ob('C05.g', short(wb.id), 'incremental-snapshot-keeps-tombstones', not drops,
              'the incremental snapshot keeps the tombstone in memory (only the reclaiming one drops it)' if not drops else
              'the incremental snapshot removes the tombstone from memory (%s): a full synchronisation afterwards no longer sends '
              'replicate-remove for the key, the rejoining node keeps it' % drops[0].where(), wb.loc(tm['Deleted']))
    except core.AnchorError as e:
        ck.undecided('C05.g', 'writer', 'anchor', str(e))

    # ---- (h) the cached database handle -----------------------------------------------------
    from props.C07 import natural_loops
    sb2 = [b for b in bs if b.id != entry.id and any(callee(t).endswith('disk_ops::read_operations_since') for _, t in b.calls())]
    nh = 0
    for b in sb2:
        loops = natural_loops(b)
        inloop = set()
        for h, body in loops:
            inloop |= body
        cmps = [bi for bi, t in b.calls() if callee_decl(t) in ('std::cmp::PartialEq::ne', 'std::cmp::PartialEq::eq')
                and ('str' in t['f'].get('dargs', '') or 'String' in t['f'].get('dargs', ''))]
        edges = []
        for c in cmps:
            for (s2, tt, ft) in bool_switches(b, c):
                edges.append((tt, ft))
        for l, ty in enumerate(b.locals):
            if ty != '&nundb::bo::Database':
                continue
            defs = [(bi, kind) for (bi, si, kind, pl) in b.defs().get(l, [])]
            if len(defs) < 2 or not b.vars or b.var_name(l) is None:
                continue          # compiler temporaries have one definition; a carried handle is a named, re-assigned variable
            nh += 1
            bad = []
            for bi, kind in defs:
                if bi not in inloop:
                    continue
                if not any((b.dominates(tt, bi) and not b.dominates(ft, bi)) or (b.dominates(ft, bi) and not b.dominates(tt, bi)) for tt, ft in edges):
                    bad.append(b.loc(bi))
            ck.ob('C05.h', short(b.id), 'carried-handle:%s' % (b.var_name(l) or 'db'), not bad,
                  'the carried database handle is re-assigned only under the comparison with the record\'s database name' if not bad else
                  'the database handle carried between records is re-assigned at %s outside the name comparison: the cached name and the handle '
                  'disagree afterwards, and the next update record of the previously cached database reads its key from the wrong database '
                  '(the joiner is sent <Empty> or another database\'s value)' % bad, '%s:%s' % (b.file, b.line))
    if nh == 0:
        ck.ob('C05.h', 'incremental-sync', 'no-carried-handle', bool(sb2),
              'no database handle is carried from one record to the next (every record looks its database up)' if sb2 else
              'incremental synchronisation builder not found', '')

    # ---- (i) one sender handle per queued command ---------------------------------------------
    ni = 0
    for ub in [sb] + P.private_helpers(sb):
        loops_u = natural_loops(ub)
        for bi, t_ in ub.calls():
            if is_log(t_):
                continue
            d_ = callee_decl(t_)
            # batch loops only: the event loop of the supervisor (the one that awaits the next message) is not a batch
            inl = [body for h, body in loops_u if bi in body and not any(
                ub.term(x)['k'] == 'call' and callee_decl(ub.term(x)).endswith('Future::poll') for x in body)]
            if not inl:
                continue
            body = min(inl, key=len)
            if d_.endswith('mpsc::Sender::try_send') and 'member' in wire.channel_kinds(P, ub, t_['args'][0]):
                ni += 1
                clones = [r[1] for r in origins(ub, t_['args'][0], stop_at_calls=True)
                          if r[0] == 'call' and callee_decl(ub.term(r[1])) == 'std::clone::Clone::clone']
                fresh = bool(clones) and all(c in body for c in clones)
                ck.ob('C05.i', short(ub.id), 'batch-send-fresh-handle', fresh,
                      'each command of the batch goes through its own clone of the member sender' if fresh else
                      'the batch loop at %s sends every command through one sender handle: a bounded futures channel gives a handle one '
                      'guaranteed slot, so a catch-up of more than ~100 commands loses the rest (keys, removes, later create-db, the closing '
                      'snapshot) with only a warning' % ub.loc(bi), ub.loc(bi))
            else:
                cb_ = P.bodies.get(callee(t_))
                if cb_ is not None and not t_['f'].get('ind') and any(
                        callee_decl(tx).endswith('mpsc::Sender::try_send') and 'member' in wire.channel_kinds(P, cb_, tx['args'][0]) for _, tx in cb_.calls()):
                    # a helper that sends: it must clone inside itself (judged there by the same rule when it loops) or per call
                    ni += 1
                    inner = [(x, tx) for x, tx in cb_.calls() if callee_decl(tx).endswith('mpsc::Sender::try_send') and not is_log(tx)]
                    fresh = bool(inner) and all(any(r[0] == 'call' and callee_decl(cb_.term(r[1])) == 'std::clone::Clone::clone'
                                                    for r in origins(cb_, tx['args'][0], stop_at_calls=True)) for x, tx in inner)
                    ck.ob('C05.i', short(ub.id), 'batch-send-fresh-handle:%s' % short(cb_.id), fresh,
                          'the helper called for each command clones the sender before it sends' if fresh else
                          'the helper %s called for each command of the batch sends on the handle it was given' % short(cb_.id), ub.loc(bi))
    ck.floor('C05.i', ni, 1, 'sends to a member inside a loop of the supervisor')



def one_message_kind_per_operation(ck, m):
    """C05.l — see RULES"""
    from nl import wire
    P = m.prog
    entry, bs = builders(m)
    n = 0
    for b in bs:
        for bi in b.reachable():
            ts = b.term(bi)
            if ts['k'] != 'switch':
                continue
            pl = ts['o'].get('c') or ts['o'].get('m')
            adt = None
            for (dbi, dsi, kind, rv) in (b.defs().get(pl['l'], []) if pl else []):
                if kind == 'assign' and rv['k'] == 'discr' and rv.get('adt', '').endswith('ReplicateOpp'):
                    adt = rv['adt']
            if adt is None:
                continue
            a = P.adts.get(adt) or {}
            targets = {str(v): tb for v, tb in ts['targets']}
            for v in a.get('variants', []):
                tgt = targets.get(str(v['discr']), ts['else'])
                others = [x for x in b.succ(bi) if x != tgt]
                region = {x for x in b.reach_from([tgt], include_start=True) if b.dominates(tgt, x) and not any(b.dominates(o_, x) for o_ in others)}
                words = {}
                for fbi, f in core.string_builders(b):
                    if fbi in region:
                        w = wire.first_word(f)
                        if w and not is_log(b.term(fbi)) and w in repl.schemas(m):
                            words.setdefault(w, b.loc(fbi))
                if not words:
                    continue
                n += 1
                ck.ob('C05.l', short(b.id), 'operation:%s:one-message-kind' % v['name'], len(words) == 1,
                      'a logged %s is replayed as %s' % (v['name'], sorted(words)) if len(words) == 1 else
                      'a logged %s is replayed as one of %s, chosen inside the arm: the kind of the message depends on something other than the '
                      'logged operation (the value read back) — a live key whose value equals the placeholder text is replayed as a remove and '
                      'disappears from the rejoining node' % (v['name'], sorted(words.items())), sorted(words.values())[0])
    ck.floor('C05.l', n, 3, 'operation arms of the catch-up builder that build a message')



def db_registered_under_its_id(ck, m):
    """C05.m — see RULES"""
    P = m.prog
    IM = 'std::collections::HashMap::<u64, std::string::String>::insert'
    n = 0
    for b in P.user_bodies():
        if b.id.startswith(('nundb::client::', 'nundb::command_line::')):
            continue
        for bi, t in b.calls():
            if not t['f'].get('dargs', '').startswith(IM) or len(t['args']) < 3:
                continue
            from nl.locks import lock_id_of
            # only the id -> name map of the databases (the id -> key map has the same type)
            ids_ = set()
            for r in origins(b, t['args'][0]):
                if r[0] == 'call' and callee_decl(b.term(r[1])) in ('std::sync::RwLock::write', 'std::sync::Mutex::lock', 'std::sync::RwLock::read') \
                        and b.term(r[1])['args']:
                    ids_ |= set(lock_id_of(b, b.term(r[1])['args'][0]))
            if 'Databases.id_name_db_map' not in ids_:
                continue
            n += 1
            roots = origins(b, t['args'][1], stop_at_calls=True)
            from_id = any(any(q and q[0] == 'f' and q[2] == 'id' for q in (r[-1] or ())) for r in origins(b, t['args'][1]))
            from_len = any(r[0] == 'call' and callee_decl(b.term(r[1])).split('::')[-1] in ('len', 'count') for r in roots)
            ok = from_id and not from_len
            ck.ob('C05.m', short(b.id), 'database-registered-under-its-metadata-id', ok,
                  'the id -> name map is keyed by the database\'s metadata id' if ok else
                  'the id -> name map is keyed by %s, not by the database\'s metadata id: the oplog writer logs metadata.id; for databases loaded '
                  'from disk (ids from the metadata files, positions from the directory order) the catch-up decodes a record of one database '
                  'to the name of another and replays the write there' % ('a count / position' if from_len else 'something else'), b.loc(bi))
    ck.floor('C05.m', n, 1, 'inserts into the id -> name map of the databases')
