#!/bin/sh
# usage: eval_patch_tree.sh <patch> [Cxx ...] — like eval_seed.sh but on a scratch copy of /repo's HEAD commit under mktemp (for use
# while /repo must stay untouched, or while another tool has a seed applied to /repo's working tree: the copy is taken from the
# commit, not from the working tree).  Prints the alarms of tools/eval_tree.py.  Experiments only: registered checks read /repo itself.
P="$1"; shift
D=$(mktemp -d /tmp/nlpt_XXXXXX)
git -C /repo archive HEAD | tar x -C $D
cp /repo/Cargo.lock $D/ 2>/dev/null
if ! (cd $D && git apply "$P" >/dev/null 2>&1 || patch -p1 -s --fuzz=3 -i "$P" >/dev/null 2>&1); then echo "PATCH DOES NOT APPLY: $P"; rm -rf $D; exit 2; fi
python3 /verif/tools/eval_tree.py $D "$@" | grep -v " 0 alarms$"
rm -rf $D
