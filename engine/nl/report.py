"""Obligations, verdicts, known findings, evidence files, VIOLATION / KNOWN-FINDING lines."""
import json, os, sys, time

VERIF = os.path.dirname(os.path.dirname(os.path.dirname(os.path.abspath(__file__))))
KNOWN = os.path.join(VERIF, 'known_findings.json')


class Check:
    def __init__(self, pid, tier='quick', seed=0):
        self.pid = pid
        self.tier = tier
        self.seed = seed
        self.obs = []
        self.keys = set()
        self.t0 = time.time()
        self.meta = {}
        self.rules = {}
        self.notes = []
        self.profile = 'dev'

    def rule(self, rid, text):
        self.rules[rid] = text

    def ob(self, rule, fn, instance, ok, what, loc='', detail=None, verdict=None):
        """one obligation.  key = rule:fn:instance (no line numbers)."""
        key = '%s:%s:%s' % (rule, fn, instance)
        if verdict is None:
            verdict = 'discharged' if ok else 'violation'
        o = {'rule': rule, 'key': key, 'verdict': verdict, 'what': what, 'loc': loc, 'profile': self.profile}
        if detail is not None:
            o['detail'] = detail
        # the same obligation may be derived in several profiles / passes: keep the worst
        for old in self.obs:
            if old['key'] == key:
                rank = {'discharged': 0, 'inconclusive': 1, 'violation': 2}
                if rank[verdict] > rank[old['verdict']]:
                    old.update(o)
                return old
        self.obs.append(o)
        return o

    def undecided(self, rule, fn, instance, what, loc=''):
        return self.ob(rule, fn, instance, False, 'UNDECIDED: ' + what, loc, verdict='inconclusive')

    def floor(self, rule, counted, minimum, what):
        """a rule matching fewer sites than were counted by hand must not pass vacuously"""
        ok = counted >= minimum
        return self.ob(rule, '<floor>', what.replace(' ', '-'), ok,
                       '%s: %d instances found, floor %d' % (what, counted, minimum),
                       verdict='discharged' if ok else 'inconclusive')

    def note(self, s):
        self.notes.append(s)

    # ------------------------------------------------------------------
    def finish(self, explanation, assumptions=()):
        try:
            known = json.load(open(KNOWN))
        except (OSError, ValueError):
            known = []
        known_keys = {k['key']: k for k in known if k.get('property') == self.pid and k.get('status') == 'known'}
        viol, knownf, incon, ok = [], [], [], []
        for o in self.obs:
            if o['verdict'] == 'discharged':
                ok.append(o)
            elif o['verdict'] == 'inconclusive':
                incon.append(o)
            elif o['key'] in known_keys:
                o['verdict'] = 'known-finding'
                knownf.append(o)
            else:
                viol.append(o)
        rep_dir = os.path.join(VERIF, 'evidence', 'replay')
        os.makedirs(rep_dir, exist_ok=True)
        for o in knownf:
            print('KNOWN-FINDING: property=%s %s [%s] %s' % (self.pid, o['key'], o['loc'], o['what']))
        n = 0
        for o in viol + incon:
            n += 1
            path = os.path.join(rep_dir, '%s-%d.json' % (self.pid, n))
            with open(path, 'w') as fh:
                json.dump(o, fh, indent=1, default=_default)
            reason = ' reason=undecided' if o['verdict'] == 'inconclusive' else ''
            print('VIOLATION property=%s replay=%s%s' % (self.pid, path, reason))
            print('  rule=%s key=%s' % (o['rule'], o['key']))
            print('  at %s: %s' % (o['loc'], o['what']))
        stale = [k for k in known_keys if k not in {o['key'] for o in knownf}]
        for k in stale:
            self.note('known finding not re-derived on this tree (fixed or moved): ' + k)
        per_rule = {}
        for o in self.obs:
            r = per_rule.setdefault(o['rule'], {'obligations': 0, 'discharged': 0, 'known': 0, 'violations': 0,
                                                'inconclusive': 0})
            r['obligations'] += 1
            r[{'discharged': 'discharged', 'known-finding': 'known', 'violation': 'violations',
               'inconclusive': 'inconclusive'}[o['verdict']]] += 1
        samples = []
        seen_rules = set()
        for o in self.obs:
            if o['rule'] not in seen_rules or len(samples) < 12:
                seen_rules.add(o['rule'])
                samples.append({k: o[k] for k in ('key', 'verdict', 'what', 'loc')})
            if len(samples) >= 40:
                break
        cov = {
            'explanation': explanation,
            'obligations': len(self.obs),
            'discharged': len(ok),
            'known_findings': len(knownf),
            'violations': len(viol),
            'inconclusive': len(incon),
            'evaluations': max(1, len(self.obs)),
            'distinct_nontrivial': len({o['key'] for o in self.obs}),
            'rule': 'one obligation per (rule, function, instance) derived from the MIR facts of /repo; '
                    'distinct = distinct obligation keys',
            'rules': {k: dict(per_rule.get(k, {}), text=v) for k, v in self.rules.items()},
            'samples': samples,
            'checker_cmd': './check %s --tier %s' % (self.pid, self.tier),
            'trusted_base': ['rustc nightly MIR (mir-opt-level=0) and type checker',
                             'engine/driver fact extractor', 'engine/nl rule evaluators'],
            'exhaustive': True,
            'notes': self.notes,
        }
        cov.update(self.meta)
        ev = {
            'property_id': self.pid,
            'tier': self.tier,
            'seed': self.seed,
            'level': 'other',
            'coverage': cov,
            'assumptions': list(assumptions),
            'wall_s': round(time.time() - self.t0, 2),
            'violations': len(viol) + len(incon),
        }
        os.makedirs(os.path.join(VERIF, 'evidence'), exist_ok=True)
        with open(os.path.join(VERIF, 'evidence', self.pid + '.json'), 'w') as fh:
            json.dump(ev, fh, indent=1, default=_default)
        print('%s %s: %d obligations, %d discharged, %d known findings, %d violations, %d undecided (%.1fs)' % (
            self.pid, self.tier, len(self.obs), len(ok), len(knownf), len(viol), len(incon), time.time() - self.t0))
        return 1 if (viol or incon) else 0


def _default(o):
    if isinstance(o, (set, frozenset)):
        return sorted(map(str, o))
    if isinstance(o, tuple):
        return list(o)
    return str(o)
