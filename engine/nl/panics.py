"""Panic census (family N): may-panic sites per body, reachability from thread entry points,
class rules that discharge sites compositionally."""
from . import core
from .core import origins, callee, callee_decl, is_log

PANIC_CALLS = {
    'std::option::Option::unwrap': 'Option::unwrap', 'std::option::Option::expect': 'Option::expect',
    'std::result::Result::unwrap': 'Result::unwrap', 'std::result::Result::expect': 'Result::expect',
    'std::result::Result::unwrap_err': 'Result::unwrap_err', 'std::result::Result::expect_err': 'Result::expect_err',
    'std::panicking::begin_panic': 'panic!', 'std::panicking::panic': 'panic!', 'std::panicking::panic_fmt': 'panic!',
    'std::panicking::panic_display': 'panic!', 'std::panicking::unreachable_display': 'unreachable!',
    'std::panicking::panic_explicit': 'panic!', 'std::panicking::panic_nounwind': 'panic!',
    'std::rt::begin_panic': 'panic!', 'std::rt::panic_fmt': 'panic!', 'std::rt::begin_panic_fmt': 'panic!',
    'std::ops::Index::index': 'index', 'std::ops::IndexMut::index_mut': 'index',
    'std::vec::Vec::remove': 'Vec::remove', 'std::vec::Vec::swap_remove': 'Vec::swap_remove',
    'std::vec::Vec::insert': 'Vec::insert', 'std::vec::Vec::drain': 'Vec::drain', 'std::vec::Vec::split_off': 'Vec::split_off',
    'std::string::String::remove': 'String::remove', 'std::string::String::insert': 'String::insert',
    'std::str::split_at': 'str::split_at', 'std::slice::copy_from_slice': 'copy_from_slice',
    'std::slice::split_at': 'slice::split_at', 'std::cell::RefCell::borrow_mut': 'RefCell::borrow_mut',
    'std::cell::RefCell::borrow': 'RefCell::borrow', 'std::thread::JoinHandle::join': None,
    'std::process::exit': None,
}


class Site:
    __slots__ = ('body', 'bi', 'what', 'cls', 'detail', 'term')

    def __init__(self, body, bi, what, cls, detail, term):
        self.body = body
        self.bi = bi
        self.what = what
        self.cls = cls
        self.detail = detail
        self.term = term

    def loc(self):
        return self.body.loc(self.bi)

    def key(self):
        return '%s:%s' % (self.what, self.detail)


def direct_sites(body):
    """may-panic sites of one body (log macro expansions excluded)"""
    out = []
    counts = {}
    for bi in sorted(body.reachable()):
        t = body.term(bi)
        if t['k'] == 'assert':
            if is_log(t):
                continue
            what = 'assert:' + t['msg']
            if t['msg'].startswith('Resumed'):
                continue
            n = counts.get(what, 0)
            counts[what] = n + 1
            out.append(Site(body, bi, what, 'assert', str(n), t))
            continue
        if t['k'] != 'call' or is_log(t):
            continue
        d = callee_decl(t)
        label = PANIC_CALLS.get(d)
        if label is None:
            continue
        cls = 'call'
        detail = ''
        if label in ('Result::unwrap', 'Result::expect'):
            da = t['f'].get('dargs', '')
            if 'PoisonError<' in da:
                cls = 'lock-result'
                ids = set()
                # which lock?  receiver is the result of a lock call
                for r in origins(body, t['args'][0], stop_at_calls=True):
                    if r[0] == 'call':
                        lt = body.term(r[1])
                        if lt['args']:
                            from .locks import lock_id_of
                            ids |= lock_id_of(body, lt['args'][0])
                detail = ','.join(sorted(ids))
            else:
                # name the producer of the Result
                detail = producer(body, t['args'][0])
        elif label in ('Option::unwrap', 'Option::expect'):
            detail = producer(body, t['args'][0])
        elif label == 'index':
            detail = t['f'].get('t0', '?').split('<')[0].split('::')[-1]
        elif label == 'panic!':
            detail = ''
        what = label
        k = (what, detail)
        n = counts.get(k, 0)
        counts[k] = n + 1
        out.append(Site(body, bi, what, cls, '%s#%d' % (detail, n) if detail else '#%d' % n, t))
    return out


def producer(body, operand):
    names = set()
    for r in origins(body, operand, stop_at_calls=True):
        if r[0] == 'call':
            names.add(callee_decl(body.term(r[1])).split('::')[-1])
        elif r[0] == 'param':
            names.add('param%d' % r[1])
        else:
            names.add(r[0])
    return '+'.join(sorted(names))


class Census:
    def __init__(self, prog, lockmodel):
        self.prog = prog
        self.L = lockmodel
        self._direct = {}
        self._edges = None

    def direct(self, body):
        r = self._direct.get(body.id)
        if r is None:
            r = direct_sites(body)
            self._direct[body.id] = r
        return r

    def edges(self):
        """call graph incl. closures (those spawned onto another thread are separate entries)"""
        if self._edges is None:
            E = {}
            spawned = set()
            for b in self.prog.user_bodies():
                es = []
                for bi, cb, via in self.L.callees(b):
                    es.append((cb.id, b.loc(bi)))
                for (bi, si, cb) in self.L.closures_created(b):
                    uses = self.L.closure_use_blocks(b, bi, si)
                    if any(d == 'std::thread::spawn' for _, d in uses):
                        spawned.add(cb.id)
                        continue
                    es.append((cb.id, b.loc(bi)))
                E[b.id] = es
            # fn pointers stored in tables (the parser table): edges from the body that calls
            # an indirect fn to every fn item mentioned in a table-building body are added by
            # the caller via extra_edges
            self._edges = E
            self.spawned = spawned
        return self._edges

    def reach(self, entry_ids, extra_edges=None):
        """body id -> path (list of (body id, loc)) from the nearest entry"""
        E = self.edges()
        paths = {}
        from collections import deque
        dq = deque()
        for e in entry_ids:
            if e in self.prog.bodies:
                paths[e] = [(e, '')]
                dq.append(e)
        while dq:
            x = dq.popleft()
            nxt = list(E.get(x, []))
            if extra_edges and x in extra_edges:
                nxt += extra_edges[x]
            for (y, loc) in nxt:
                if y not in paths:
                    paths[y] = paths[x] + [(y, loc)]
                    dq.append(y)
        return paths
