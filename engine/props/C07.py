"""C07 — elections end with exactly one primary, the oldest node, and all agree.

Decides only the decision structure of the election code: (a) election_eval compares the candidate id
with the node's own id: equal -> nothing; candidate younger (greater id) -> this node runs an election;
candidate older -> this node announces itself alive and becomes Secondary; (b) election_win tells the
supervisor and stores Primary; the supervisor registers itself as Primary and broadcasts set-primary,
which parses to SetPrimary; (c) SetPrimary: not primary -> become Secondary and tell the supervisor,
primary -> new election; (d) Join (primary or starting) and Leave start an election; a disconnecting
Primary peer produces `leave`, any other `replicate-leave`; (e) both wait loops of start_election have
an exit guarded by a counter that grows every iteration and is compared with the configured timeout,
and every exit of the function after the candidate broadcast ends in election_win or return.
Does NOT decide termination or agreement under message orders, simultaneous elections, timing —
the bulk of the property.
"""
from nl import core, wire
from nl.core import origins, callee, callee_decl, is_log, bool_switches, const_val, const_str
from nl.model import short
from props import repl, C10

RULES = {
    'C07.a': 'election_eval: == -> no effect; candidate > own -> start an election; candidate < own -> announce alive and store Secondary',
    'C07.b': 'election_win sends the supervisor its word and stores Primary; the supervisor arm adds itself as Primary and '
             'enqueues a set-primary message that parses to SetPrimary',
    'C07.c': 'SetPrimary: on a non-primary node store Secondary and send `primary <name>` to the supervisor; on a primary start a new election',
    'C07.d': 'Join (primary or eligible) and Leave start a new election; the TCP disconnect path sends leave for a Primary peer, '
             'replicate-leave for the other roles',
    'C07.f': 'the loop that waits for the candidate\'s acknowledgements re-tests is_eligible() in every iteration, and that test '
             'dominates the timeout claim (election_win) inside the loop',
    'C07.g': 'the election id (Databases.process_id) is the node\'s start time at millisecond resolution or finer: it originates from '
             'Duration::as_millis / as_micros / as_nanos of the clock read at start-up (two nodes started in the same second must still '
             'compare as older / younger, equal ids make both ignore the other\'s candidacy)',
    'C07.h': 'every node\'s member table names one primary: a store of a possibly-Primary member demotes the others first (same rule as C14.e)',
    'C07.i': 'the role announced on a node link is recorded for that connection every time: the SetPrimary / SetScoundary arms overwrite '
             'Client.cluster_member with the announced role (a plain store under its lock); the disconnect path reads that record to decide '
             'between leave (election) and replicate-leave',
    'C07.e': 'each wait loop of the election has an exit controlled by a counter incremented in the loop and compared with the '
             'election timeout; the single-member shortcut wins at once',
    'C07.j': 'the election never ends undecided: every return of start_election is preceded by election_win, by the false edge of an '
             'is_eligible() test, or by the error arm of the candidacy announcement',
}

ROLE = 'nundb::bo::ClusterRole'


def role_store(m, b, region=None):
    """roles stored into node_state by atomic swaps/stores in body b (optionally only in region)"""
    out = []
    for bi, t in b.calls():
        if region is not None and bi not in region:
            continue
        d = callee_decl(t)
        if d.startswith('std::sync::atomic::Atomic') and d.split('::')[-1] in ('swap', 'store') and len(t['args']) > 1:
            if any(any(s[0] == 'f' and s[2] == 'node_state' for s in r[-1]) for r in origins(b, t['args'][0])):
                # value = ClusterRole::X as usize: discriminant read of a constant enum
                names = set()
                for r in origins(b, t['args'][1]):
                    names |= role_of_root(m, b, r)
                out.append((bi, names))
    return out


def role_of_root(m, b, r):
    names = set()
    if r[0] == 'const':
        c = core.const_of(r)
        v = c.get('v')
        if c.get('variant'):
            names.add(c['variant'])
        elif isinstance(c.get('item'), str) and c['item'].startswith(ROLE + '::'):
            names.add(c['item'][len(ROLE) + 2:].split('::')[0])      # ClusterRole::X::{constant#0}: the discriminant expression of X
        elif isinstance(v, int):
            names.add(m.prog.variant_of_discr(ROLE, v) or '?%s' % v)
    elif r[0] == 'discr':
        rv = b.blocks[r[1]]['s'][r[2]]['r']
        for r2 in core.place_origins(b, rv['p']):
            names |= role_of_root(m, b, r2)
    elif r[0] == 'agg':
        rv = b.blocks[r[1]]['s'][r[2]]['r']
        if rv.get('variant'):
            names.add(rv['variant'])
    elif r[0] == 'arith':
        rv = b.blocks[r[1]]['s'][r[2]]['r']
        for k in ('a', 'b'):
            if k in rv:
                for r2 in origins(b, rv[k]):
                    if r2[0] != 'const' or const_val(r2) != 0 or core.const_of(r2).get('item'):
                        names |= role_of_root(m, b, r2)
    else:
        names.add('?')
    return names


def templates_in(m, b, region=None, _depth=0):
    """(block, Fmt) of the message texts built in b: format templates, constant texts handed to a sender, and — at the block of the call —
    the templates of private helpers (functions all of whose callers lie in b's unit: an extracted `announce_…` helper)"""
    out = []
    for bi, f in core.string_builders(b):
        if is_log(b.term(bi)):
            continue
        if region is not None and bi not in region:
            continue
        out.append((bi, f))
    P = m.prog
    for bi, t in b.calls():
        if is_log(t) or (region is not None and bi not in region):
            continue
        d = callee_decl(t)
        if ('try_send' in d or d.endswith('::send')) and t['args']:
            fs, _o = wire.message_templates(P, b, t['args'][-1])
            out += [(bi, f) for f in fs if f.bi is None]
    if _depth < 2:
        helpers = {h.id for h in P.private_helpers(b)}
        for bi, t in b.calls():
            if region is not None and bi not in region:
                continue
            cb = P.bodies.get(callee(t))
            if cb is not None and cb.id in helpers and cb.id != b.id:
                out += [(bi, f) for _, f in templates_in(m, cb, None, _depth + 1)]
    return out


def run(ck, m):
    _run(ck, m)
    process_id_rule(ck, m)
    link_record_rule(ck, m)
    from props import C14
    C14.single_primary(ck, m, rule='C07.h')
    join_requests_reach_every_replica(ck, m)
    election_locks_acyclic(ck, m)


def election_locks_acyclic(ck, m):
    """C07.l — see RULES"""
    from nl import locks
    from props import C10
    P = m.prog
    ck.rule('C07.l', 'every election terminates: no lock that the election takes (directly or in a callee: the pending-operation table it '
                     'polls for acknowledgements, the cluster state it reads) lies on a cycle of the lock-order graph — the replication thread '
                     'takes cluster state then pending table while it fans a message out; an election poll that takes them the other way round '
                     'blocks both threads for good and the node stays in StartingUp (C10.c restricted to the election\'s locks)')
    starters = [b for b in P.user_bodies() if b.kind == 'fn' and any(wire.first_word(f) == 'election' and 'candidate' in f.text()
                                                                     for _, f in templates_in(m, b)) and b.locals[0] == '()']
    if len(starters) != 1:
        ck.undecided('C07.l', 'election', 'anchors', 'start_election: found %d' % len(starters))
        return
    L = locks.LockModel(P)
    mine = {l for l, _mode in L.summaries().get(starters[0].id, ()) if not l.startswith(C10.SESSION_CONFINED) and not l.startswith('?')}
    E = L.order_edges()
    Gr = {}
    for (x, y), w in E.items():
        if x.startswith(C10.SESSION_CONFINED) or y.startswith(C10.SESSION_CONFINED) or x.startswith('?') or y.startswith('?'):
            continue
        Gr.setdefault(x, set()).add(y)
        Gr.setdefault(y, set())
    bad = []
    for comp in C10.tarjan(Gr):
        if len(comp) > 1 and set(comp) & mine:
            comp = sorted(comp)
            wit = ['%s->%s in %s [%s]' % (x, y, short(E[(x, y)][0]['body']), E[(x, y)][0]['acquired_at'])
                   for x in comp for y in comp if x != y and (x, y) in E]
            bad.append((comp, wit))
            ck.ob('C07.l', 'election', 'cycle:' + '|'.join(comp), False,
                  'the election takes %s, which lie on a lock-order cycle: %s' % (sorted(set(comp) & mine), '; '.join(wit[:6])),
                  '%s:%s' % (starters[0].file, starters[0].line))
    ck.ob('C07.l', 'election', 'locks-of-the-election-are-not-on-a-cycle', not bad,
          'the election takes %d lock classes (%s); none of them is on a cycle of the lock-order graph' % (len(mine), sorted(mine)) if not bad else
          '%d lock-order cycle(s) through locks of the election' % len(bad), '%s:%s' % (starters[0].file, starters[0].line))
    ck.floor('C07.l', len(mine), 2, 'lock classes the election takes')


def join_requests_reach_every_replica(ck, m):
    """C07.k — see RULES"""
    P = m.prog
    ck.rule('C07.k', 'a starting node announces itself to EVERY configured replica: the function that sends the join request (connects, '
                     'authenticates, writes `join <address>`) is called from a loop over the configured replica list whose only way out is the '
                     'end of the list — only the primary acts on a join, a secondary ignores it; a node that stops after the first replica that '
                     'took the connection is admitted by nobody when that replica is a secondary, takes the single-member shortcut and makes '
                     'itself a second primary')
    askers = [b for b in P.user_bodies() if b.kind == 'fn' and not b.id.startswith(('nundb::client::', 'nundb::command_line::'))
              and any(wire.first_word(f) == 'join' for _, f in templates_in(m, b))
              and any(callee_decl(t).startswith('std::net::TcpStream::connect') for _, t in b.calls())]
    n = 0
    for ab in askers:
        for cb, cbi in P.callers().get(ab.id, []):
            loops = [(h, body) for h, body in natural_loops(cb) if cbi in body]
            if not loops:
                continue
            n += 1
            bad = []
            for h, body in loops:
                nexts = [x for x in body if cb.term(x)['k'] == 'call' and callee_decl(cb.term(x)) == 'std::iter::Iterator::next']
                none_edges = set()
                for nb_ in nexts:
                    for (s3, tm3, els3, adt3) in core.enum_switches(cb, nb_):
                        none_edges.add((s3, tm3.get('0', els3)))
                for x in sorted(body):
                    for y in cb.succ(x):
                        if y not in body and not cb.blocks[y].get('cleanup') and (x, y) not in none_edges and cb.term(y)['k'] != 'unreachable':
                            bad.append(cb.loc(x))
            ck.ob('C07.k', short(cb.id), 'join-request-to-every-replica', not bad,
                  'the loop that asks the replicas to join ends only with the list' if not bad else
                  'the loop that asks the replicas to join can be left before the list is through (%s): the replicas after that point — the '
                  'primary among them whenever it does not sort first — never hear of the node' % sorted(set(bad)), cb.loc(cbi))
    ck.floor('C07.k', n, 1, 'loops that send the join request')


def _run(ck, m):
    for k, v in RULES.items():
        ck.rule(k, v)
    P = m.prog
    # anchors
    evalf = [b for b in P.user_bodies() if b.kind == 'fn' and b.argc == 3 and b.locals[2] == 'u128' and b.locals[0] == 'nundb::bo::Response']
    starters = [b for b in P.user_bodies() if b.kind == 'fn' and any(wire.first_word(f) == 'election' and 'candidate' in f.text()
                                                                     for _, f in templates_in(m, b)) and b.locals[0] == '()']
    winf = [b for b in P.user_bodies() if b.kind == 'fn' and b.locals[0] == 'nundb::bo::Response' and b.argc == 1 and
            any(wire.first_word(f) == 'election-win' for _, f in templates_in(m, b))]
    if len(evalf) != 1 or len(starters) != 1 or len(winf) != 1:
        ck.undecided('C07.a', 'election', 'anchors', 'election_eval/start_election/election_win: found %d/%d/%d' % (len(evalf), len(starters), len(winf)))
        return
    eb, sb, wb = evalf[0], starters[0], winf[0]
    # ---- (a) ---------------------------------------------------------------------------
    cmps = []
    for bi, bl in enumerate(eb.blocks):
        for s in bl['s']:
            if s['k'] == 'assign' and s['r']['k'] == 'bin' and s['r']['op'] in ('Eq', 'Gt', 'Lt', 'Ge', 'Le', 'Ne'):
                a = origins(eb, s['r']['a'])
                b_ = origins(eb, s['r']['b'])
                a_c = any(r[0] == 'param' and r[1] == 2 for r in a)
                b_c = any(r[0] == 'param' and r[1] == 2 for r in b_)
                a_o = any(any(x[0] == 'f' and x[2] == 'process_id' for x in r[-1]) for r in a)
                b_o = any(any(x[0] == 'f' and x[2] == 'process_id' for x in r[-1]) for r in b_)
                if (a_c and b_o) or (a_o and b_c):
                    op = s['r']['op']
                    if a_o and b_c:   # normalise to candidate OP own
                        op = {'Gt': 'Lt', 'Lt': 'Gt', 'Ge': 'Le', 'Le': 'Ge'}.get(op, op)
                    cmps.append((op, s['l']['l']))
    ops = {op for op, _ in cmps}
    details = []
    # the three outcome regions, from an if/else chain of comparisons or from a `match candidate.cmp(&own)`
    reg_eq = reg_y = reg_o = None
    if ops == {'Eq', 'Gt'} or ops == {'Eq', 'Lt'}:
        for op, loc in cmps:
            for (sbi, tt, ft) in bool_switches(eb, local=loc):
                treg = {x for x in eb.reachable() if eb.dominates(tt, x) and not eb.dominates(ft, x)}
                freg = {x for x in eb.reachable() if eb.dominates(ft, x) and not eb.dominates(tt, x)}
                if op == 'Eq':
                    reg_eq = treg
                else:
                    reg_y, reg_o = (treg, freg) if op == 'Gt' else (freg, treg)
    else:
        for bi, t in eb.calls():
            if callee_decl(t) != 'std::cmp::Ord::cmp' or len(t['args']) < 2:
                continue
            a = origins(eb, t['args'][0])
            b_ = origins(eb, t['args'][1])
            a_c = any(r[0] == 'param' and r[1] == 2 for r in a)
            b_c = any(r[0] == 'param' and r[1] == 2 for r in b_)
            a_o = any(any(x[0] == 'f' and x[2] == 'process_id' for x in r[-1]) for r in a)
            b_o = any(any(x[0] == 'f' and x[2] == 'process_id' for x in r[-1]) for r in b_)
            if not ((a_c and b_o) or (a_o and b_c)):
                continue
            for (sbi, tm_, els, adt) in core.enum_switches(eb, bi):
                if not adt.endswith('cmp::Ordering'):
                    continue
                named = {}
                for v, tb in eb.term(sbi)['targets']:
                    named[{'0': 'Equal', '1': 'Greater'}.get(str(v), 'Less')] = tb
                missing = [n_ for n_ in ('Less', 'Equal', 'Greater') if n_ not in named]
                if len(missing) == 1:
                    named[missing[0]] = els
                if len(named) == 3:
                    def arm(tb):
                        return {x for x in eb.reachable() if eb.dominates(tb, x) and not any(eb.dominates(o, x) for o in named.values() if o != tb)}
                    reg_eq = arm(named['Equal'])
                    gt, lt = arm(named['Greater']), arm(named['Less'])
                    reg_y, reg_o = (gt, lt) if a_c else (lt, gt)
                    ops = {'cmp'}
    ok = reg_eq is not None and reg_y is not None and reg_o is not None
    if ok:
        calls = [callee(eb.term(x)) for x in reg_eq if eb.term(x)['k'] == 'call' and not is_log(eb.term(x))]
        eff = [c for c in calls if c in (sb.id,) or 'replicate_message' in c or 'atomic' in c]
        details.append('equal -> %s' % (eff or 'nothing'))
        ok = ok and not eff
        y_calls = [callee(eb.term(x)) for x in reg_y if eb.term(x)['k'] == 'call']
        o_calls = [callee(eb.term(x)) for x in reg_o if eb.term(x)['k'] == 'call']
        runs = sb.id in y_calls and sb.id not in o_calls
        # ... and runs it whatever else is going on: inside the "I am older" region no further test decides the call (a node that is itself
        # StartingUp — booting, or between the swap and the broadcast of its own election — must still answer the younger candidate)
        from nl.locks import controlling_switches as _cs7
        for x in reg_y:
            if eb.term(x)['k'] == 'call' and callee(eb.term(x)) == sb.id:
                inner = [w for w in _cs7(eb, x) if w in reg_y]
                if inner:
                    runs = False
                    details.append('the election call at %s is decided by a further test at %s' % (eb.loc(x), [eb.loc(w) for w in inner]))
        alive = any(wire.first_word(f) == 'election' and 'alive' in f.text() for _, f in templates_in(m, eb, reg_o)) and \
            not any('alive' in f.text() for _, f in templates_in(m, eb, reg_y))
        sec = [names for bi, names in role_store(m, eb, reg_o)]
        sec_y = [names for bi, names in role_store(m, eb, reg_y)]
        details.append('candidate younger -> runs election: %s; candidate older -> alive: %s, stores %s' % (runs, alive, sec))
        ok = ok and runs and alive and sec == [{'Secoundary'}] and not sec_y
    ck.ob('C07.a', short(eb.id), 'decision-table', ok,
          'election_eval: ' + '; '.join(details) if ok else 'election_eval decision table differs: comparisons %s; %s' % (sorted(ops), '; '.join(details)),
          '%s:%s' % (eb.file, eb.line))
    # ---- (b) ---------------------------------------------------------------------------
    stores = role_store(m, wb)
    sup_word = [f for _, f in templates_in(m, wb) if wire.first_word(f) == 'election-win']
    okb = [n for _, n in stores] == [{'Primary'}] and bool(sup_word)
    ck.ob('C07.b', short(wb.id), 'tell-supervisor-and-store-primary', okb,
          'election_win sends election-win to the supervisor and stores Primary' if okb else
          'election_win: supervisor word=%s, stores=%s' % (bool(sup_word), [n for _, n in stores]), '%s:%s' % (wb.file, wb.line))
    sup = [b for b in P.user_bodies() if b.kind == 'coroutine' and 'start_replication_supervisor' in b.id and b.id.count('{closure') == 1]
    sch = repl.schemas(m)
    if sup:
        sp = sup[0]
        unit = [sp] + P.private_helpers(sp)      # an arm's body may live in a helper extracted from the loop
        tm = [(bi, f) for ub in unit for bi, f in templates_in(m, ub) if wire.first_word(f) == 'set-primary']
        adds = []
        for ub in unit:
            for bi, t in ub.calls():
                if callee(t).endswith('add_cluster_member'):
                    for r in origins(ub, t['args'][1]):
                        if r[0] == 'agg':
                            rv = ub.blocks[r[1]]['s'][r[2]]['r']
                            if 'role' in rv.get('fields', []):
                                for r2 in origins(ub, rv['ops'][rv['fields'].index('role')]):
                                    adds.append(role_of_root(m, ub, r2))
        # the announcement is unconditional: in the body that registers this node as Primary, the call that sends the set-primary
        # text post-dominates the registration (a winner that keeps quiet because "it is primary already" leaves the node it
        # out-ranked naming itself)
        from nl.locks import backward_slice as _bsl7
        silent = []
        for ub in unit:
            regs = [bi for bi, t in ub.calls() if callee(t).endswith('add_cluster_member') and any(
                r[0] == 'agg' and 'role' in ub.blocks[r[1]]['s'][r[2]]['r'].get('fields', []) and
                any(role_of_root(m, ub, r2) == {'Primary'} for r2 in origins(ub, ub.blocks[r[1]]['s'][r[2]]['r']['ops'][ub.blocks[r[1]]['s'][r[2]]['r']['fields'].index('role')]))
                for r in origins(ub, t['args'][1]))]
            tbis = [bi for bi, f in templates_in(m, ub) if wire.first_word(f) == 'set-primary']
            sends = [bi for bi, t in ub.calls() if P.bodies.get(callee(t)) is not None and any(set(_bsl7(ub, a)[0]) & set(tbis) for a in t['args'])]
            for a_ in regs:
                if not sends:
                    continue
                # the body is a coroutine with an endless receive loop: "follows" = no suspension point (the next receive) and no
                # return is reached from the registration without passing the send
                seen_ = ub.reach_from([a_], stop=lambda y: y in sends)
                if any(ub.term(y)['k'] in ('yield', 'return', 'coroutinedrop') for y in seen_ if y not in sends):
                    silent.append(ub.loc(a_))
        ck.ob('C07.b', short(sp.id), 'announcement-follows-every-registration', not silent,
              'every registration of this node as Primary is followed by the set-primary broadcast' if not silent else
              'the supervisor registers this node as Primary at %s and can skip the set-primary broadcast afterwards: a node that announced '
              'itself in between (a forced election on a secondary, two shortcut wins at start-up) was made to yield, yet nobody tells it '
              'who won — it keeps naming itself as the primary' % silent, silent[0] if silent else '')
        parses = bool(tm) and sch.get('set-primary', ([], [], None))[1] == ['SetPrimary']
        okb2 = parses and {'Primary'} in adds
        ck.ob('C07.b', short(sp.id), 'announce-set-primary', okb2,
              'the supervisor registers this node as Primary and broadcasts set-primary (parsed to SetPrimary)' if okb2 else
              'supervisor election-win arm: set-primary template=%s parses=%s adds=%s' % (bool(tm), parses, adds), '%s:%s' % (sp.file, sp.line))
    # ---- (c) / (d) ---------------------------------------------------------------------
    newel = [b for b in P.user_bodies() if b.kind == 'fn' and b.locals[0] == '()' and
             any(callee(t) == sb.id for _, t in b.calls()) and role_store(m, b)]
    # a node that is told to contend from the dispatcher must step down first: start_election announces a win only from
    # StartingUp (election_win / the supervisor's set-primary run for an eligible node), so a Primary that contends
    # without stepping down never tells the others who won
    stepping = []
    for b in newel:
        scalls = [bi for bi, t in b.calls() if callee(t) == sb.id]
        downs = [bi for bi, names in role_store(m, b) if names == {'StartingUp'}]
        if scalls and downs and all(any(b.dominates(x, s_) for x in downs) for s_ in scalls):
            stepping.append(b)
    newel_ids = {b.id for b in stepping}
    ck.floor('C07.c', len(stepping), 1, 'functions that store StartingUp and then run the election')
    d, sw = m.dispatcher()

    def arm_closure(variant):
        region = m.arm_region(d, sw, variant)
        for bi in sorted(region):
            for s in d.blocks[bi]['s']:
                if s['k'] == 'assign' and s['r']['k'] == 'agg' and s['r'].get('ak') == 'closure':
                    return P.bodies.get(s['r']['def'])
        return None
    cb = arm_closure('SetPrimary')
    okc = False
    whyc = 'no closure found in the SetPrimary arm'
    if cb is not None:
        npr = repl.not_primary_region(m, cb)
        pr = repl.primary_region(m, cb)
        st = role_store(m, cb, npr)
        words = [wire.first_word(f) for bi, f in templates_in(m, cb, npr)]
        elect = [x for x in pr if cb.term(x)['k'] == 'call' and callee(cb.term(x)) in newel_ids]
        elect_np = [x for x in npr if cb.term(x)['k'] == 'call' and callee(cb.term(x)) in newel_ids]
        okc = [n for _, n in st] == [{'Secoundary'}] and 'primary' in words and bool(elect) and not elect_np
        whyc = ('not primary -> Secondary + `primary <name>` to the supervisor; primary -> new election' if okc else
                'SetPrimary: not-primary stores %s, words %s; primary branch election=%s' % ([n for _, n in st], words, bool(elect)))
    ck.ob('C07.c', 'dispatcher', 'SetPrimary', okc, whyc, d.loc(sw[1]['SetPrimary']))
    for variant in ('Join', 'Leave'):
        cb = arm_closure(variant)
        ok = False
        why = 'no closure'
        if cb is not None:
            el = [bi for bi, t in cb.calls() if callee(t) in newel_ids]
            if variant == 'Join':
                # under is_primary() || is_eligible()
                conds = [bi for bi, t in cb.calls() if callee(t).endswith(('bo::Databases::is_primary', 'bo::Databases::is_eligible'))]
                ok = bool(el) and len(conds) == 2
                why = 'Join on a primary or starting node adds the secondary and starts an election' if ok else 'Join: election calls %d, role tests %d' % (len(el), len(conds))
            else:
                words = [wire.first_word(f) for bi, f in templates_in(m, cb)]
                ok = bool(el) and 'leave' in words and all(cb.postdominates(x, 0) for x in el)
                why = 'Leave tells the supervisor and always starts an election' if ok else 'Leave: election=%s words=%s' % (bool(el), words)
        ck.ob('C07.d', 'dispatcher', variant, ok, why, d.loc(sw[1][variant]))
    # TCP disconnect
    # the TCP session body, or the helper it calls for a disconnected cluster peer
    sess = [b for b in P.user_bodies() if b.kind == 'fn' and any('TcpStream' in t for t in b.locals[1:b.argc + 1])]
    hc = [b for b in sess if repl.role_switch(m, b)]
    if not hc:
        seen_h = set()
        for b in sess:
            for bi, t in b.calls():
                cb_ = P.bodies.get(callee(t))
                if cb_ is None or cb_.id in seen_h or t['f'].get('ind'):
                    continue
                # the helper gets the member, or the client (and reads the member recorded for the link itself)
                takes = any('ClusterMember' in ty or ty.endswith('bo::Client') for ty in cb_.locals[1:cb_.argc + 1])
                if repl.role_switch(m, cb_) and takes:
                    seen_h.add(cb_.id)
                    hc.append(cb_)
                elif takes:
                    # one more level: disconnect helper -> member helper
                    for bi2, t2 in cb_.calls():
                        cb2 = P.bodies.get(callee(t2))
                        if cb2 is not None and cb2.id not in seen_h and not t2['f'].get('ind') and repl.role_switch(m, cb2) \
                                and any('ClusterMember' in ty for ty in cb2.locals[1:cb2.argc + 1]):
                            seen_h.add(cb2.id)
                            hc.append(cb2)
    if len(hc) != 1:
        ck.undecided('C07.d', 'tcp', 'disconnect', 'expected one TCP session body switching over the peer role, found %d' % len(hc))
    else:
        hb = hc[0]
        sbi, tm = repl.role_switch(m, hb)
        got = {}
        for v, tb in tm.items():
            region = {x for x in hb.reachable() if hb.dominates(tb, x)}
            got[v] = sorted({wire.first_word(f) for bi, f in templates_in(m, hb, region)})
        ok = got.get('Primary') == ['leave'] and got.get('Secoundary') == ['replicate-leave'] and got.get('StartingUp') == ['replicate-leave']
        ck.ob('C07.d', short(hb.id), 'disconnect-by-role', ok,
              'a disconnecting Primary peer yields leave (forces an election), other roles replicate-leave' if ok else
              'disconnect messages per peer role: %s' % got, hb.loc(sbi))
    # ---- (e) ---------------------------------------------------------------------------
    loops = natural_loops(sb)
    n = 0
    for h, body in loops:
        n += 1
        ok, why = loop_bounded(sb, h, body)
        ck.ob('C07.e', short(sb.id), 'wait-loop-%d' % n, ok, why, sb.loc(h))
    # a wait loop moved into a private helper of the election (`wait_for_…`) is judged there
    for hb_ in P.private_helpers(sb):
        if hb_.kind not in ('fn', 'method'):
            continue
        for h, body in natural_loops(hb_):
            if not any(hb_.term(x)['k'] == 'call' and callee_decl(hb_.term(x)).startswith('std::thread::sleep') for x in body):
                continue
            n += 1
            ok, why = loop_bounded(hb_, h, body)
            ck.ob('C07.e', short(sb.id), 'wait-loop-%d' % n, ok, why + ' (in %s)' % short(hb_.id), hb_.loc(h))
    ck.floor('C07.e', n, 2, 'wait loops in the election')
    # ---- (f) the acknowledgement wait re-tests eligibility --------------------------------------
    n_ack = 0
    for h, body in loops:
        acks = [x for x in body if sb.term(x)['k'] == 'call' and callee(sb.term(x)).endswith('is_full_acknowledged') and not is_log(sb.term(x))]
        if not acks:
            continue
        n_ack += 1
        # every claim that can follow the wait (the timeout claim inside the loop, the claim after it) must be dominated by the
        # eligible edge of an is_eligible() test taken after the loop head, i.e. re-evaluated while / after waiting
        wins = [x for x in sb.reachable() if sb.term(x)['k'] == 'call' and callee(sb.term(x)) == wb.id and sb.dominates(h, x)]
        tests = [x for x in sb.reachable() if sb.term(x)['k'] == 'call' and callee(sb.term(x)).endswith('bo::Databases::is_eligible')
                 and sb.dominates(h, x)]
        unguarded = []
        for w in wins:
            g = False
            for x in tests:
                for (s2, tt, ft) in bool_switches(sb, x):
                    if sb.dominates(tt, w) and not sb.dominates(ft, w) and w not in sb.reach_from([ft], include_start=True):
                        g = True
            if not g:
                unguarded.append(w)
        guarded = not unguarded
        # the claim after the wait: nothing sleeps between the eligibility test and the claim it guards (the settle delay is there
        # to let an older candidate's message arrive: testing before it and claiming after it defeats the delay)
        stale = []
        for w in wins:
            if w in body:
                continue
            for x in tests:
                if x in body:
                    continue      # the per-iteration test guards the timeout claim; the poll interval sleeps after it by design
                for (s2, tt, ft) in bool_switches(sb, x):
                    if sb.dominates(tt, w) and not sb.dominates(ft, w):
                        between = sb.reach_from([tt], stop=lambda q: q == w, include_start=True)
                        if any(sb.term(y)['k'] == 'call' and callee_decl(sb.term(y)) == 'std::thread::sleep' for y in between):
                            stale.append(sb.loc(w))
        ck.ob('C07.f', short(sb.id), 'claim-follows-its-eligibility-test', not stale,
              'the claim made after the wait follows its is_eligible() test without a sleep in between' if not stale else
              'the claim at %s is guarded by an is_eligible() test taken BEFORE a sleep: an older node\'s candidacy that arrives during the '
              'delay demotes this node, which then still claims the primary role; the older node, still StartingUp, follows it' % stale, sb.loc(h))
        wins = unguarded
        okf = guarded or not wins
        ck.ob('C07.f', short(sb.id), 'ack-wait-retests-eligibility', okf,
              'every iteration of the acknowledgement wait re-tests is_eligible() before it can time out into election_win' if okf else
              'the acknowledgement wait can time out into election_win (%s) without re-testing eligibility in the loop: a node that '
              'already yielded to an older live candidate (role Secondary) still claims the primary role when an ack can never arrive'
              % [sb.loc(w) for w in wins], sb.loc(h))
    ck.floor('C07.f', n_ack, 1, 'wait loops on is_full_acknowledged')
    # ---- (j) the election never ends undecided --------------------------------------------------
    # start_election is entered in role StartingUp.  Each way out either claims the role (election_win), or leaves on the false edge of
    # an is_eligible() test (another node claimed or is running), or on the error arm of the send that announces the candidacy.
    # Any other return leaves the node StartingUp with nobody left to decide.
    helpers_j = {h.id: h for h in P.private_helpers(sb)}

    def escapes(body, depth=0):
        """returns of `body` reachable without passing a claim, the false edge of an eligibility test, the error arm of the
        announcement, or a private helper (an extracted tail of the election) all of whose own returns are decided"""
        blocked = {x for x in body.reachable() if body.term(x)['k'] == 'call' and callee(body.term(x)) == wb.id}
        for x in body.reachable():
            tx = body.term(x)
            if tx['k'] != 'call':
                continue
            if callee(tx).endswith('bo::Databases::is_eligible'):
                for (s2, tt, ft) in bool_switches(body, x):
                    blocked.add(ft)
            cb_ = P.bodies.get(callee(tx))
            if cb_ is not None and cb_.locals[0].startswith('std::result::Result<') and repl.sends_repl(m, cb_.id):
                for (s2, tm_, els, adt) in core.enum_switches(body, x):
                    if adt == 'std::result::Result':
                        blocked.add(tm_.get('1', els))
            if cb_ is not None and cb_.id in helpers_j and depth < 3 and not escapes(cb_, depth + 1):
                blocked.add(x)
        rets = set(body.return_blocks())
        return sorted(rets & set(body.reach_from([0], stop=lambda y: y in blocked, include_start=True)) - blocked)
    esc = escapes(sb)
    ck.ob('C07.j', short(sb.id), 'every-exit-decides', not esc,
          'every return of the election follows a claim, a failed eligibility test or a failed announcement' if not esc else
          'the election can return at %s without claiming the role and without having seen that it is no longer eligible: the node stays '
          'StartingUp; with the old primary gone and no other candidate (the last node alive, whose only peer never acknowledges) nobody '
          'ever becomes primary' % [sb.loc(y) for y in esc], sb.loc(esc[0]) if esc else '')
    # single member shortcut: count_cluster_members() <= 1 -> election_win + return
    okm = False
    for bi, t in sb.calls():
        if callee(t).endswith('count_cluster_members'):
            for bl in sb.blocks:
                for s in bl['s']:
                    if s['k'] == 'assign' and s['r']['k'] == 'bin' and s['r']['op'] in ('Le', 'Lt', 'Eq'):
                        if any(r[0] == 'call' and r[1] == bi for r in origins(sb, s['r']['a'], stop_at_calls=True)):
                            for (s2, tt, ft) in bool_switches(sb, local=s['l']['l']):
                                treg = {x for x in sb.reachable() if sb.dominates(tt, x) and not sb.dominates(ft, x)}
                                wins = any(sb.term(x)['k'] == 'call' and callee(sb.term(x)) == wb.id for x in treg)
                                sends = any(sb.term(x)['k'] == 'call' and 'replicate_message' in callee(sb.term(x)) for x in treg)
                                okm = wins and not sends
    # the shortcut counts the whole member table (the node's own entry included): a count that leaves members out makes a
    # node with one live peer win without ever sending its candidacy
    for bi, t in sb.calls():
        if callee(t).endswith('count_cluster_members'):
            cb_ = P.bodies.get(callee(t))
            if cb_ is not None:
                roots = core.place_origins(cb_, {'l': 0}, stop_at_calls=True)
                plain = bool(roots) and all(r[0] == 'call' and callee_decl(cb_.term(r[1])) == 'std::collections::HashMap::len'
                                            and 'ClusterMember' in cb_.term(r[1])['f'].get('dargs', '') for r in roots)
                ck.ob('C07.e', short(cb_.id), 'shortcut-counts-every-member', plain,
                      'the member count used by the single-member shortcut is the size of the member table' if plain else
                      'the member count used by the single-member shortcut is not the plain size of the member table (%s): with entries '
                      'filtered out a node that has one live peer takes the "I am alone" shortcut, never sends its candidacy, and both nodes '
                      'end as primary' % sorted({callee_decl(cb_.term(r[1])).split('::')[-1] if r[0] == 'call' else r[0] for r in roots}),
                      '%s:%s' % (cb_.file, cb_.line))
            break
    ck.ob('C07.e', short(sb.id), 'single-member-shortcut', okm,
          'a single-member cluster wins at once without broadcasting' if okm else 'no single-member shortcut found', '%s:%s' % (sb.file, sb.line))


def natural_loops(b):
    out = []
    for u in sorted(b.reachable()):
        for h in b.succ(u):
            if b.dominates(h, u):
                # loop body: nodes that reach u without passing h
                body = {h, u}
                st = [u]
                while st:
                    x = st.pop()
                    for p in b.pred(x):
                        if p not in body and p in b.reachable():
                            body.add(p)
                            st.append(p)
                out.append((h, body))
    # merge loops with the same header
    merged = {}
    for h, body in out:
        merged.setdefault(h, set()).update(body)
    return sorted(merged.items())


def loop_bounded(b, h, body):
    """an exit edge of the loop is controlled by a comparison between a local incremented inside the loop
    and the election timeout"""
    for x in sorted(body):
        t = b.term(x)
        if t['k'] != 'switch':
            continue
        outs = [s for s in b.succ(x) if s not in body]
        # exits may also be reached through a chain of short-circuit blocks inside the loop
        for r in origins(b, t['o']):
            if r[0] != 'arith':
                continue
            rv = b.blocks[r[1]]['s'][r[2]]['r']
            if rv.get('op') not in ('Lt', 'Gt', 'Le', 'Ge'):
                continue
            sides = [origins(b, rv['a'], stop_at_calls=True), origins(b, rv['b'], stop_at_calls=True)]
            timeout = any(rr[0] == 'call' and 'NUN_ELECTION_TIMEOUT' in callee(b.term(rr[1])) for s in sides for rr in s)
            if not timeout:
                continue
            # counter: a local that is assigned `x + const` inside the loop
            counter = False
            for y in body:
                for s in b.blocks[y]['s']:
                    if s['k'] == 'assign' and s['r']['k'] == 'bin' and s['r']['op'].startswith('Add'):
                        cs = [const_val(q) for q in origins(b, s['r']['b'])]
                        if cs and all(isinstance(c, int) and c > 0 for c in cs):
                            counter = True
            # does one edge of this test leave the loop (directly or through the rest of the condition)?
            leaves = bool(outs)
            if counter and leaves:
                return True, 'exit controlled by a counter incremented in the loop and compared with the election timeout'
    return False, 'no exit of this loop is controlled by a growing counter compared with the election timeout'



def process_id_rule(ck, m):
    P = m.prog
    n = 0
    for b in P.user_bodies():
        if b.id.startswith(('nundb::client::', 'nundb::command_line::')):
            continue
        for bi, t in b.calls():
            cb = P.bodies.get(callee(t))
            if cb is None or not cb.id.endswith('bo::Databases::new'):
                continue
            # which argument becomes process_id: the u128 parameter
            idx = [i for i in range(1, cb.argc + 1) if cb.locals[i] == 'u128']
            if len(idx) != 1:
                continue
            n += 1
            a = t['args'][idx[0] - 1]
            kinds = set()
            for r in origins(b, a, stop_at_calls=True) | origins(b, a):
                if r[0] == 'call':
                    kinds.add(callee_decl(b.term(r[1])).split('::')[-1])
            fine = bool(kinds & {'as_millis', 'as_micros', 'as_nanos'}) and not (kinds & {'as_secs', 'as_secs_f64', 'as_secs_f32', 'subsec_millis'})
            ck.ob('C07.g', short(b.id), 'election-id-resolution', fine,
                  'the election id is the start time read with %s' % sorted(kinds & {'as_millis', 'as_micros', 'as_nanos'}) if fine else
                  'the election id is derived through %s: nodes started within the same second get equal ids, each treats the other\'s candidacy '
                  'as its own message and both end as primary' % sorted(kinds), b.loc(bi))
    ck.floor('C07.g', n, 1, 'constructions of Databases with an election id')



def link_record_rule(ck, m):
    ex = m.explorer()
    d, sw = m.dispatcher()
    for v, want in (('SetPrimary', 'Primary'), ('SetScoundary', 'Secoundary')):
        if v not in sw[1]:
            ck.undecided('C07.i', 'dispatcher', v, 'variant %s not found' % v)
            continue
        effs, raw = m.arm_effects(v)
        stores = [(ev, inf) for ev, kind, inf in effs if kind in ('store', 'guarded-replace')
                  and any(l == 'Client.cluster_member' for l, _ in inf.get('locks', ()))]
        roles = set()
        for ev, inf in stores:
            for val in inf.get('value', ()):
                for x in ex.extend(val, (('d', 'Some'), ('f', 0, '0', 'std::option::Option'), ('f', 1, 'role', 'nundb::bo::ClusterMember'))):
                    roles.add(ex.describe(x))
        ok = bool(stores) and any(want in r for r in roles)
        ck.ob('C07.i', 'dispatcher', '%s:link-role-recorded' % v, ok,
              'the arm overwrites the connection\'s member record with role %s' % want if ok else
              'the %s arm does not overwrite Client.cluster_member with role %s (stores found: %d, roles %s): a link keeps the role it announced '
              'first, so when a node that became primary later dies its peers see a secondary leaving (replicate-leave) and run no election'
              % (v, want, len(stores), sorted(roles)), d.loc(sw[1][v]))
