"""C13 — arbiter databases never apply or lose a conflicting write silently.

Decides the decision structure: (a) the Arbiter arm of the resolver: without an arbiter it returns an
error and does nothing else; with one it writes the in-conflict marker keeping the OLD value, delivers
the conflict to the arbiter, writes the $conflicts_ record, replicates it, and returns an error naming
the record — in that order; (b) resolve_conflit rewrites the record as resolved and replicates it
before it writes the key, writes the key with a resolving change on every path, and keeps the marker
iff an unresolved record remains; (c) register_arbiter subscribes, then removes records that start
with the resolved prefix and re-sends the others; writer and readers share the prefix constants;
(d) Change::next_version tests, in this order: marker kept; resolving change; stored entry in
conflict -> stored version; unversioned -> stored+1; else change+1; (e) the Resolve arm applies on the
primary and forwards elsewhere.
Does NOT decide queue order over histories, re-delivery contents, multi-node outcomes.
"""
from nl import core, wire
from nl.core import origins, callee, callee_decl, is_log, bool_switches, const_val, const_str
from nl.model import short
from props.C02 import resolver_fn, strategy_switch, store_fn, remover_fn
from props import repl

RULES = {
    'C13.a': 'Arbiter arm: no arbiter -> Error and no effect; otherwise marker write (old value, marker version) < deliver '
             '< record write < replicate < Error naming the record',
    'C13.b': 'resolve_conflit: record := resolved, replicated, before the key is written; the key is written with a resolving '
             'change on every path; marker kept iff has_pendding_conflict',
    'C13.c': 'register_arbiter: subscribe first; starts_with(resolved prefix) -> remove, else -> re-send; shared prefix constants',
    'C13.d': 'next_version branch order: keep-marker, resolving, stored-in-conflict, unversioned, versioned',
    'C13.f': 'the pending-conflict test examines EVERY conflict record of the key: its answer is any/all (or a loop) over the whole '
             'list returned by the record lister, through element-preserving adaptors only, testing !starts_with(resolved prefix)',
    'C13.g': 'a conflict is chained behind earlier records only when the stored entry carries the in-conflict marker: in the Arbiter arm '
             'the lookup of existing conflict records is dominated by the true edge of old_version == marker (a first conflict of a new '
             'cycle must be notified with the stored value and version, not with a resolved record of an earlier cycle)',
    'C13.h': 'the "an arbiter has registered" predicate is monotone: it is a key test on Watchers.map, and no code removes entries of '
             'Watchers.map (unwatch leaves an empty list)',
    'C13.j': 'the Arbiter arm of the resolver builds no reply other than Error (no shortcut acknowledges a conflicting write)',
    'C13.e': 'Resolve arm: the primary applies, any other role forwards (both credential branches)',
    'C13.i': 'the conflict-record lister matches what the record writer writes: with the key left empty (the "list all" call of the arbiter registration) the pattern text occurs in the constant head of every record key; with a key, the text after the key hole is a prefix of the writer template\'s text after its key hole',
    'C13.k': 'the conflict records of a key are handled in arrival order: the key listing they are read from is sorted (C01.c) — the '
             'Arbiter arm queues a new conflict behind `.last()` of that list, register_arbiter replays it in list order',
    'C13.m': 'the in-conflict marker is written as a CHANGE of the entry: the state operand of the marker write is the state the refusal carries '
             '(VersionError.state, which the store computed with the update-state function, C06.l), never the stored entry\'s own state — a key '
             'that is clean on disk would stay Ok, the incremental snapshot skips it, and after a restart the conflict record is there but the key '
             'is not frozen: later writes are applied without the arbiter',
    'C13.l': 'a client cannot present the in-conflict marker as its version (C02.h, repeated): such a write is stored as it comes, over a pending conflict, with no record and no notice to the arbiter',
}


def run(ck, m):
    _run(ck, m)
    watchers_monotone(ck, m)
    queue_position_decided_by_the_listing(ck, m)
    every_write_can_reach_the_resolver(ck, m)
    lister_covers_records(ck, m)
    from nl import alias as _alias
    from props import C02 as _C02
    _alias.repeat(ck, m, 'C02', ('C02.h',), 'C13.l', runner=_C02.marker_unforgeable)
    # "every later write queues behind the previous conflict": the Arbiter arm takes `.last()` of the record list and register_arbiter
    # replays the list in order — both rely on the key listing being sorted (record names end in increasing op ids).  C01.c's verdict
    # on the sort is repeated here.
    from nl import report
    from props import C01
    tmp = report.Check('C01', 'quick', 0)
    try:
        C01.run(tmp, m)
    except Exception as e:      # fail closed
        ck.undecided('C13.k', 'list_keys', 'sorted', 'C01.c could not be evaluated: %s' % e)
    n_ = 0
    for o in tmp.obs:
        if o['rule'] == 'C01.c' and o['key'].endswith(':sorted'):
            n_ += 1
            ck.ob('C13.k', o['key'].split(':')[1], 'record-list-sorted', o['verdict'] == 'discharged',
                  o['what'] + ' (the conflict queue order — `.last()` in the Arbiter arm, the replay order of register_arbiter — is the order of this list)',
                  o['loc'], verdict=o['verdict'])
    ck.floor('C13.k', n_, 1, 'sortedness of the key listing')


def _run(ck, m):
    for k, v in RULES.items():
        ck.rule(k, v)
    P = m.prog
    rb = resolver_fn(m)
    sb = store_fn(m)
    fn = short(rb.id)
    sw = strategy_switch(m, rb)
    sbi, tm = sw
    arb = tm.get('Arbiter')
    others = {t for k, t in tm.items() if k != 'Arbiter'}
    region = {x for x in rb.reachable() if rb.dominates(arb, x) and not any(rb.dominates(o, x) for o in others)}
    # has_arbiter test
    has = [x for x in region if rb.term(x)['k'] == 'call' and P.bodies.get(callee(rb.term(x))) is not None
           and P.bodies[callee(rb.term(x))].locals[0] == 'bool' and P.bodies[callee(rb.term(x))].argc == 1]
    ok_no = False
    with_arb = set()
    for x in has:
        for (s2, tt, ft) in bool_switches(rb, x):
            no_arb = {y for y in region if rb.dominates(ft, y) and not rb.dominates(tt, y)}
            with_arb = {y for y in region if rb.dominates(tt, y) and not rb.dominates(ft, y)}
            calls = [callee(rb.term(y)) for y in no_arb if rb.term(y)['k'] == 'call' and not is_log(rb.term(y))]
            eff = [c for c in calls if P.bodies.get(c) is not None]
            errs = [s for y in no_arb for s in rb.blocks[y]['s'] if s['k'] == 'assign' and s['r']['k'] == 'agg' and s['r'].get('variant') == 'Error']
            ok_no = not eff and bool(errs)
    ck.ob('C13.a', fn, 'no-arbiter-refuses-without-effect', ok_no,
          'without an arbiter the conflict is answered with an Error and nothing is written or sent' if ok_no else
          'the no-arbiter path of the Arbiter arm has effects or no Error', rb.loc(arb))
    # the Arbiter arm has no successful outcome: whatever it builds itself is a refusal (the write waits for the arbiter)
    succ = sorted({(s['r'].get('variant'), rb.loc(y)) for y in region for s in rb.blocks[y]['s']
                   if s['k'] == 'assign' and s['r']['k'] == 'agg' and s['r'].get('adt', '').endswith('bo::Response')
                   and s['r'].get('variant') != 'Error'})
    ck.ob('C13.j', fn, 'arbiter-arm-never-answers-success', not succ,
          'every reply built in the Arbiter arm is an Error: a conflicting write is never acknowledged before the arbiter decided' if not succ else
          'the Arbiter arm builds a %s reply at %s: that conflicting write is acknowledged, yet no record is written, the arbiter is not told and '
          'nothing queues behind the pending conflict (a key in conflict resolution only parks the pre-conflict value — a write of that value is '
          'dropped silently when the arbiter resolves to another one)' % (succ[0][0], [x[1] for x in succ]), rb.loc(arb))
    # ordered steps with an arbiter
    raw_writer = [x for x in with_arb if rb.term(x)['k'] == 'call' and callee(rb.term(x)).endswith('set_value_version')]
    deliver = [x for x in with_arb if rb.term(x)['k'] == 'call' and 'arbiter' in callee(rb.term(x)) and P.bodies.get(callee(rb.term(x))) is not None
               and P.bodies[callee(rb.term(x))].locals[0] == '()']
    record = [x for x in with_arb if rb.term(x)['k'] == 'call' and callee(rb.term(x)) == sb.id]
    replic = [x for x in with_arb if rb.term(x)['k'] == 'call' and callee(rb.term(x)).endswith('replicate_change')]
    errs = [y for y in with_arb for s in rb.blocks[y]['s'] if s['k'] == 'assign' and s['r']['k'] == 'agg' and s['r'].get('variant') == 'Error']
    steps = [('marker', raw_writer), ('deliver', deliver), ('record', record), ('replicate', replic), ('error', errs)]
    missing = [n for n, xs in steps if not xs]
    order_ok = not missing
    if not missing:
        seq = [xs[0] for _, xs in steps]
        for a, b_ in zip(seq, seq[1:]):
            if not (rb.dominates(a, b_) or a == b_):
                order_ok = False
    ck.ob('C13.a', fn, 'arbiter-sequence', order_ok,
          'marker write, delivery, record write, replication and the error reply follow each other on every path' if order_ok else
          'Arbiter sequence broken: missing %s (steps found: %s)' % (missing, {n: len(x) for n, x in steps}), rb.loc(arb))
    # (g) chaining only under the marker
    lists = [x for x in with_arb if rb.term(x)['k'] == 'call' and P.bodies.get(callee(rb.term(x))) is not None
             and P.bodies[callee(rb.term(x))].locals[0].startswith('std::vec::Vec<std::string::String') and not is_log(rb.term(x))]
    gated = []
    for bl_i, bl in enumerate(rb.blocks):
        for s in bl['s']:
            if s['k'] == 'assign' and s['r']['k'] == 'bin' and s['r']['op'] in ('Eq', 'Ne'):
                vals = [const_val(r) for k_ in ('a', 'b') for r in origins(rb, s['r'][k_]) if r[0] == 'const']
                if -2 in vals:
                    for (s2, tt, ft) in bool_switches(rb, local=s['l']['l']):
                        if s['r']['op'] == 'Ne':      # `if version != MARKER { return first-conflict }`: the listing lies on the other edge
                            tt, ft = ft, tt
                        gated += [x for x in lists if rb.dominates(tt, x) and not rb.dominates(ft, x)]
    okg = bool(lists) and all(x in gated for x in lists)
    ck.ob('C13.g', fn, 'chains-only-under-the-marker', okg,
          'existing conflict records are looked up only when the stored entry carries the in-conflict marker' if okg else
          'the Arbiter arm looks up existing conflict records (%s) without testing that the stored entry carries the in-conflict marker: the '
          'first conflict of a later cycle is chained behind an already resolved record, the arbiter is shown that record instead of the stored '
          'value and version, and its answer lands at a version below the stored one' % [rb.loc(x) for x in lists if x not in gated],
          rb.loc(lists[0]) if lists else rb.loc(arb))
    # marker write keeps the old value and the marker version
    okm = False
    if raw_writer:
        t = rb.term(raw_writer[0])
        val = origins(rb, t['args'][2])
        ver = origins(rb, t['args'][3])
        old = any(r[0] == 'param' and r[1] == 2 and [q[2] for q in r[-1] if q[0] == 'f'][-2:] == ['old_value', 'value'] for r in val)
        marker = [const_val(r) for r in ver] == [-2]
        key = any(r[0] == 'param' and r[1] == 2 and 'change' in [q[2] for q in r[-1] if q[0] == 'f'] and [q[2] for q in r[-1] if q[0] == 'f'][-1] == 'key'
                  for r in origins(rb, t['args'][1]))
        okm = old and marker and key
    ck.ob('C13.a', fn, 'marker-keeps-old-value', okm,
          'the marker write stores old_value.value under change.key with the in-conflict version' if okm else
          'the marker write does not store (change.key, old_value.value, marker)', rb.loc(raw_writer[0]) if raw_writer else rb.loc(arb))
    # ... and is written as a change of the entry (its state comes from the refusal, not from the stored entry)
    oks, whys = False, 'no marker write found'
    if raw_writer:
        t = rb.term(raw_writer[0])
        st_roots = origins(rb, t['args'][4]) if len(t['args']) > 4 else set()
        paths = [[q[2] for q in r[-1] if q[0] == 'f'] for r in st_roots if r[0] == 'param']
        from_refusal = bool(paths) and len(paths) == len(st_roots) and all(p_ and p_[-1] == 'state' and 'old_value' not in p_ for p_ in paths)
        oks = from_refusal
        whys = ('the marker write takes its state from the refusal (VersionError.state)' if oks else
                'the marker write takes its state from %s: for a key that is clean on disk the marker version exists in memory only (state Ok is never '
                'selected by the incremental snapshot); after a restart the $conflicts_ record is pending but the key carries its old version and '
                'accepts writes' % sorted({'.'.join(p_) for p_ in paths} or {r[0] for r in st_roots}))
    ck.ob('C13.m', fn, 'marker-written-with-the-refusal-state', oks, whys, rb.loc(raw_writer[0]) if raw_writer else rb.loc(arb))
    # record key named in the error is the record written
    # (the error message template takes the conflict key that was handed to the record change)
    # ---- (b) ---------------------------------------------------------------------------
    rc = [b for b in P.user_bodies() if b.kind == 'method' and b.argc == 3 and b.locals[2] == 'nundb::bo::Change' and b.locals[0] == 'nundb::bo::Response']
    pend = []
    if len(rc) != 1:
        ck.undecided('C13.b', 'resolve', 'anchor', 'expected one (&Database, Change, &Arc<Databases>) -> Response, found %d' % len(rc))
    else:
        b = rc[0]
        fnb = short(b.id)
        stores = [x for x, t in b.calls() if callee(t) == sb.id]
        repls = [x for x, t in b.calls() if callee(t).endswith('replicate_change')]
        pend = [x for x, t in b.calls() if P.bodies.get(callee(t)) is not None and P.bodies[callee(t)].locals[0] == 'bool'
                and P.bodies[callee(t)].argc == 2 and not is_log(t)]
        okb = False
        whyb = 'stores=%d replicate=%d pending-test=%d' % (len(stores), len(repls), len(pend))
        if len(stores) >= 3 and repls and pend:
            first = min(stores)
            rec_first = all(b.dominates(first, x) for x in stores[1:]) and b.dominates(repls[0], pend[0]) and b.dominates(first, repls[0])
            # the record value starts with the resolved prefix
            rec_val_ok = False
            for r in origins(b, b.term(first)['args'][1], stop_at_calls=True):
                pass
            for bi, f in core.string_builders(b):
                if not is_log(b.term(bi)) and f.pieces and f.pieces[0][0] == 'arg' and b.dominates(bi, first):
                    for r in origins(b, f.pieces[0][1]):
                        if const_str(r) == 'resolved':
                            rec_val_ok = True
            # key writes on both branches of the pending test, each with a resolving change
            for (s2, tt, ft) in bool_switches(b, pend[0]):
                t_st = [x for x in stores if b.dominates(tt, x) and not b.dominates(ft, x)]
                f_st = [x for x in stores if b.dominates(ft, x) and not b.dominates(tt, x)]

                def resolving(x, want_marker):
                    res = mark = False
                    for r in origins(b, b.term(x)['args'][1], stop_at_calls=True):
                        if r[0] == 'call':
                            chain = [r[1]]
                            # follow receiver chain: to_different_version(to_resolve_change(change))
                            seen = set()
                            while chain:
                                c = chain.pop()
                                if c in seen:
                                    continue
                                seen.add(c)
                                ct = b.term(c)
                                n = callee(ct)
                                cb2 = P.bodies.get(n)
                                if cb2 is not None:
                                    from props.C19 import returns_resolving
                                    if returns_resolving(cb2):
                                        res = True
                                    if len(ct['args']) > 1 and [const_val(q) for q in origins(b, ct['args'][1])] == [-2]:
                                        mark = True
                                for r2 in origins(b, ct['args'][0], stop_at_calls=True) if ct['args'] else ():
                                    if r2[0] == 'call':
                                        chain.append(r2[1])
                    return res and (mark == want_marker)
                okb = rec_first and rec_val_ok and len(t_st) == 1 and len(f_st) == 1 and resolving(t_st[0], True) and resolving(f_st[0], False)
                whyb = ('record := "resolved …" and replicated first; then the key is written with a resolving change, keeping the marker iff a '
                        'conflict is still pending' if okb else
                        'record first=%s, record value starts with resolved=%s, key writes (pending/true: %d, false: %d) resolving+marker polarity=%s/%s'
                        % (rec_first, rec_val_ok, len(t_st), len(f_st), t_st and resolving(t_st[0], True), f_st and resolving(f_st[0], False)))
        ck.ob('C13.b', fnb, 'resolve-sequence', okb, whyb, '%s:%s' % (b.file, b.line))
    # ---- (f) the pending test looks at every record ---------------------------------------
    if len(rc) == 1 and pend:
        pb = P.bodies[callee(rc[0].term(pend[0]))]
        PRESERVE = ('std::ops::Deref::deref', 'std::slice::iter', 'std::iter::Iterator::filter_map', 'std::iter::Iterator::map',
                    'std::iter::Iterator::collect', 'std::iter::IntoIterator::into_iter', 'std::iter::Iterator::cloned',
                    'std::iter::Iterator::copied', 'std::vec::Vec::as_slice', 'std::clone::Clone::clone', 'std::iter::Iterator::by_ref',
                    'std::vec::Vec::iter', 'std::convert::AsRef::as_ref', 'std::borrow::Borrow::borrow')
        listers = [x for x, t in pb.calls() if P.bodies.get(callee(t)) is not None and P.bodies[callee(t)].locals[0].startswith('std::vec::Vec<')]

        def reaches_lister(bi, seen=None):
            """does the receiver chain of call bi reach the lister through element-preserving adaptors only?"""
            seen = seen or set()
            if bi in seen:
                return False
            seen.add(bi)
            if bi in listers:
                return True
            tt_ = pb.term(bi)
            if callee_decl(tt_) not in PRESERVE and not callee_decl(tt_).startswith(('std::iter::Iterator::any', 'std::iter::Iterator::all', 'std::iter::Iterator::next')):
                return False
            if not tt_['args']:
                return False
            return any(r[0] == 'call' and reaches_lister(r[1], seen) for r in origins(pb, tt_['args'][0], stop_at_calls=True))
        quant = [x for x, t in pb.calls() if callee_decl(t) in ('std::iter::Iterator::any', 'std::iter::Iterator::all') and reaches_lister(x)]
        loops = [x for x, t in pb.calls() if callee_decl(t) == 'std::iter::Iterator::next' and reaches_lister(x) and x in pb.reach_from([x])]
        ret_from = [r for r in core.place_origins(pb, {'l': 0}, stop_at_calls=True)]
        answer_is_quant = bool(quant) and all(r[0] == 'call' and r[1] in quant for r in ret_from)
        # the predicate: !starts_with(resolved prefix)
        pred_ok = False
        scope = [pb] + [P.bodies[k] for k in P.bodies if k.startswith(pb.id + '::{closure')]
        for cb2 in scope:
            for x, t in cb2.calls():
                if callee_decl(t) == 'std::str::starts_with' and [const_str(r) for r in origins(cb2, t['args'][1])] == ['resolved']:
                    dest = t['d']['l']
                    for bl in cb2.blocks:
                        for s in bl['s']:
                            if s['k'] == 'assign' and s['r']['k'] == 'un' and s['r']['op'] == 'Not' and \
                                    any(r[0] == 'call' and r[1] == x for r in origins(cb2, s['r']['a'], stop_at_calls=True)):
                                pred_ok = True
        okf = (answer_is_quant or bool(loops)) and pred_ok and len(listers) >= 1
        ck.ob('C13.f', short(pb.id), 'every-record-examined', okf,
              'the pending test is any(!starts_with(resolved)) over every record the lister returns' if okf else
              'the pending test does not quantify over the whole record list (any/all over the list: %s, loop: %s, predicate '
              '!starts_with(resolved): %s): a key can leave conflict resolution while an older conflict is still unresolved'
              % (answer_is_quant, bool(loops), pred_ok), '%s:%s' % (pb.file, pb.line))
    else:
        ck.undecided('C13.f', 'pending-test', 'anchor', 'pending-conflict test not located')
    # ---- (c) ---------------------------------------------------------------------------
    ra = [b for b in P.user_bodies() if b.kind == 'method' and b.argc == 2 and b.locals[2] == '&nundb::bo::Client' and b.locals[0] == 'nundb::bo::Response']
    if len(ra) != 1:
        ck.undecided('C13.c', 'register', 'anchor', 'expected one (&Database, &Client) -> Response, found %d' % len(ra))
    else:
        b = ra[0]
        watch = [x for x, t in b.calls() if callee(t).endswith('bo::Database::watch_key')]
        rem = [x for x, t in b.calls() if callee(t) == remover_fn(m).id]
        send = [x for x, t in b.calls() if 'arbiter' in callee(t) and P.bodies.get(callee(t)) is not None and P.bodies[callee(t)].locals[0] == '()']
        sw_ = [x for x, t in b.calls() if callee_decl(t) == 'std::str::starts_with']
        okc = False
        whyc = 'watch=%d remove=%d send=%d starts_with=%d' % (len(watch), len(rem), len(send), len(sw_))
        if watch and rem and send and sw_:
            pref = [const_str(r) for r in origins(b, b.term(sw_[0])['args'][1])]
            for (s2, tt, ft) in bool_switches(b, sw_[0]):
                pol = all(b.dominates(tt, x) and not b.dominates(ft, x) for x in rem) and \
                    all(b.dominates(ft, x) and not b.dominates(tt, x) for x in send)
                first = all(b.dominates(watch[0], x) for x in rem + send)
                # every unresolved record is re-sent, every resolved one removed: the effect post-dominates its branch
                always = any(b.postdominates(x, ft) or x == ft for x in send) and any(b.postdominates(x, tt) or x == tt for x in rem)
                okc = pol and first and always and pref == ['resolved']
                whyc = ('subscribes, then removes records that start with %r and re-sends the others' % pref[0] if okc else
                        'polarity ok=%s, subscribes first=%s, unconditional on its branch=%s, prefix=%s: an unresolved conflict can stay '
                        'undelivered to a newly registered arbiter' % (pol, first, always, pref))
        ck.ob('C13.c', short(b.id), 'redeliver-or-clean', okc, whyc, '%s:%s' % (b.file, b.line))
    # ---- (d) ---------------------------------------------------------------------------
    nv = [b for b in P.user_bodies() if b.kind == 'method' and b.locals[0] == 'i32' and b.argc == 2 and b.locals[1] == '&nundb::bo::Change'
          and b.locals[2] == '&nundb::bo::Value']
    if len(nv) != 1:
        ck.undecided('C13.d', 'next_version', 'anchor', 'expected one (&Change, &Value) -> i32, found %d' % len(nv))
    else:
        b = nv[0]
        decision_table(ck, m, b)
    # ---- (e) ---------------------------------------------------------------------------
    d, dsw = m.dispatcher()
    effs, raw = m.arm_effects('Resolve')
    fw = repl.forwarder(m)
    closures = {}
    for ev in raw:
        if ev.kind == 'local-call' and ev.frame.body.id.startswith(d.id + '::{closure'):
            closures.setdefault(ev.frame.body.id, []).append(ev)
    ne = 0
    for cid, evs in closures.items():
        cb = P.bodies[cid]
        pr = repl.primary_region(m, cb)
        npr = repl.not_primary_region(m, cb)
        app = [e for e in evs if rc and e.name == rc[0].id]
        fwd = [e for e in evs if e.name == fw.id]
        if not app and not fwd:
            continue
        ne += 1
        ok = bool(app) and bool(fwd) and all(e.bi in pr for e in app) and all(e.bi in npr for e in fwd)
        ck.ob('C13.e', short(cid), 'primary-applies-others-forward', ok,
              'the primary applies the resolution, any other role forwards it' if ok else
              'Resolve closure: applies on primary=%s, forwards when not primary=%s' % ([e.bi in pr for e in app], [e.bi in npr for e in fwd]),
              '%s:%s' % (cb.file, cb.line))
    ck.floor('C13.e', ne, 1, 'credential branches of the Resolve arm (one shared closure or one per branch)')



def watchers_monotone(ck, m):
    P = m.prog
    WM = 'std::collections::HashMap::<std::string::String, std::vec::Vec<futures::futures_channel::mpsc::Sender<std::string::String>>>::'
    pred = [b for b in P.user_bodies() if b.kind == 'method' and b.locals[0] == 'bool' and b.argc == 1 and b.locals[1] == '&nundb::bo::Database'
            and any(t['f'].get('dargs', '').startswith(WM + 'contains_key') for _, t in b.calls())]
    removers = []
    for b in P.user_bodies():
        if b.id.startswith(('nundb::client::', 'nundb::command_line::')):
            continue
        for bi, t in b.calls():
            da = t['f'].get('dargs', '')
            if da.startswith(WM) and callee_decl(t).split('::')[-1] in ('remove', 'remove_entry', 'clear', 'retain', 'drain'):
                removers.append((b, bi))
    ok = bool(pred) and not removers
    ck.ob('C13.h', short(pred[0].id) if pred else 'has_arbiter', 'registered-predicate-monotone', ok,
          'no code removes entries of Watchers.map: once an arbiter registered the predicate stays true' if ok else
          ('entries of Watchers.map are removed at %s: after the arbiter session ends the predicate turns false again, a write to a key that '
           'is already in conflict resolution is refused with "no arbiter" instead of queueing behind the pending conflict'
           % ['%s@%s' % (short(b.id), b.loc(bi)) for b, bi in removers] if pred else 'arbiter-registered predicate not found'),
          removers[0][0].loc(removers[0][1]) if removers else '')


def _norm_template(body, f):
    """Fmt -> list of ('lit', text) | ('hole',): constant arguments are folded into the text"""
    out = []
    for pc in f.pieces:
        if pc[0] == 'lit':
            txt = pc[1]
        else:
            cs = [const_str(r) for r in origins(body, pc[1])] if pc[1] is not None else [None]
            txt = cs[0] if len(cs) == 1 and isinstance(cs[0], str) else None
        if txt is None:
            out.append(('hole',))
        elif out and out[-1][0] == 'lit':
            out[-1] = ('lit', out[-1][1] + txt)
        else:
            out.append(('lit', txt))
    if not out or out[0][0] != 'lit':
        out.insert(0, ('lit', ''))
    return out


def lister_covers_records(ck, m):
    """C13.i — the record lister's pattern, instantiated the way each caller uses it, still matches the keys the record
    writer builds (the pattern and the key come from two format templates that nothing else ties together)"""
    ck.rule('C13.i', 'the conflict-record lister matches what the record writer writes: with the key left empty (the "list all" call of '
                     'the arbiter registration) the pattern text occurs in the constant head of every record key; with a key, the text '
                     'after the key hole is a prefix of the writer template\'s text after its key hole')
    P = m.prog
    marker = None
    temps = []          # (body, Fmt, normalised)
    for b in P.user_bodies():
        if b.id.startswith(('nundb::client::', 'nundb::command_line::')):
            continue
        for bi, f in core.string_builders(b):
            nt = _norm_template(b, f)
            if nt[0][1].startswith('$conflicts') and any(x[0] == 'hole' for x in nt):
                temps.append((b, f, nt))
    listers = [(b, f, nt) for b, f, nt in temps if b.locals[0].startswith('std::vec::Vec<')]
    writers = [(b, f, nt) for b, f, nt in temps if (b, f, nt) not in listers and sum(1 for x in nt if x[0] == 'hole') >= 2]
    ck.floor('C13.i', len(listers), 1, 'record listers (a $conflicts template in a body that returns a list)')
    ck.floor('C13.i', len(writers), 1, 'record-key templates ($conflicts template with a key and an id)')
    if not listers or not writers:
        return
    try:
        key_lister = m.lister()
    except Exception:
        key_lister = None
    for lb, lf, lt in listers:
        # the records are found through the key listing, which leaves tombstones out: a resolved record that register_arbiter removed
        # after it was snapshotted stays in the map as a tombstone — a scan of the map itself counts it as an unresolved conflict
        via = key_lister is not None and any(callee(t_) == key_lister.id for _, t_ in lb.calls())
        ck.ob('C13.i', short(lb.id), 'records-found-through-the-key-listing', via,
              'the conflict records are listed by the key listing (tombstones left out)' if via else
              '%s does not go through the key listing: a record that was cleaned after a snapshot is a tombstone in the map and is returned as '
              'if it were unresolved — the key stays at the in-conflict marker for ever after its only conflict was resolved, and a new arbiter '
              'is sent <Empty>' % short(lb.id), lb.loc(lf.bi))
        c0 = lt[0][1]
        c1 = ''.join(x[1] for x in lt[2:] if x[0] == 'lit') if len(lt) > 2 else ''
        for wb, wf, wt in writers:
            d0 = wt[0][1]
            d1 = wt[2][1] if len(wt) > 2 and wt[2][0] == 'lit' else ''
            star = c1.endswith('*')
            okk = d0.endswith(c0.lstrip('*')) and d1.startswith(c1.rstrip('*')) if not star else d0 == c0 and d1.startswith(c1[:-1])
            ck.ob('C13.i', short(lb.id), 'per-key-pattern-matches:%s' % short(wb.id), okk,
                  'pattern %r + key + %r lies inside the record key %r + key + %r…' % (c0, c1, d0, d1) if okk else
                  'the lister builds %r + key + %r, the writer %r + key + %r: the conflict records of a key are not found, the key never '
                  'counts as pending' % (c0, c1, d0, d1), lb.loc(lf.bi))
        ncalls = 0
        for cb, cbi in P.callers().get(lb.id, []):
            if cb.id.startswith(('nundb::client::', 'nundb::command_line::')):
                continue
            tcall = cb.term(cbi)
            if len(tcall['args']) < 2:
                continue
            cs = [const_str(r) for r in origins(cb, tcall['args'][1])]
            if cs != ['']:
                continue
            ncalls += 1
            text = (c0 + c1)
            needle = text.rstrip('*') if text.endswith('*') else text.strip('*')
            bad = [short(wb.id) for wb, wf, wt in writers if needle not in wt[0][1]]
            ck.ob('C13.i', short(cb.id), 'list-all-pattern-matches-every-record', not bad,
                  'the list-all call passes an empty key: the pattern %r occurs in the constant head of every record key' % text if not bad else
                  'the list-all call passes an empty key, so the pattern is %r; a record key starts with %r and continues with the key name: '
                  'no record matches, a newly registered arbiter is sent none of the unresolved conflicts and resolved records are never cleaned'
                  % (text, writers[0][2][0][1]), cb.loc(cbi))
        ck.floor('C13.i', ncalls, 1, 'list-all calls of the record lister (empty key)')


def decision_table(ck, m, b):
    """C13.d — the decision of next_version as a table over its four tests, read off every path of the function.

    The function only *compares* (marker carried? resolving change? stored entry in conflict? unversioned?) and then returns one of
    self.version / old.version, incremented or not: a finite set of orderings.  Every entry-to-return path of the CFG is walked,
    the outcome of each test taken on it is recorded (the same test met twice must agree, which also covers a test hoisted into a
    local), and the value returned on it is computed along that path.  Each of the 16 combinations of test outcomes must return
    what the reference table says.  The order in which the source writes the tests does not matter, only the resulting function."""
    P = m.prog
    PRED = {}           # switch block -> (name, true target, false target)

    def who_of(op):
        rs = origins(b, op)
        if any(r[0] == 'param' and r[1] == 1 for r in rs):
            return 'self'
        if any(r[0] == 'param' and r[1] == 2 for r in rs):
            return 'old'
        return '?'

    def marker_test(body, s):
        """`x.version == MARKER` as a bin statement: returns who or None"""
        if not (s['k'] == 'assign' and s['r']['k'] == 'bin' and s['r']['op'] in ('Eq', 'Ne')):
            return None
        for x, y in ((s['r']['a'], s['r']['b']), (s['r']['b'], s['r']['a'])):
            cv = [const_val(r) for r in origins(body, y)]
            if len(cv) == 1 and isinstance(cv[0], int) and cv[0] < 0:
                return cv[0], x, s['r']['op']
        return None

    def classify_call(t):
        """a bool method of one argument whose body is a single comparison of .version with a negative constant, or a read of a bool
        field: -> predicate name"""
        cb = P.bodies.get(callee(t))
        if cb is None or cb.locals[0] != 'bool' or cb.argc != 1 or not t['args']:
            return None
        who = who_of(t['args'][0])
        if who == '?':
            return None
        # looks through one level of delegation (allow_save_version -> keep_in_conflict_resolution)
        stack, seen = [cb], set()
        while stack:
            x = stack.pop()
            if x.id in seen:
                continue
            seen.add(x.id)
            for bl in x.blocks:
                for s in bl['s']:
                    mt = marker_test(x, s)
                    if mt and mt[0] <= -2:
                        return 'marker(%s)' % who
            for _, t2 in x.calls():
                c2 = P.bodies.get(callee(t2))
                if c2 is not None and c2.locals[0] == 'bool' and c2.argc == 1:
                    stack.append(c2)
            # a plain field read of a bool
            for r in core.place_origins(x, {'l': 0}):
                if r[0] == 'param' and any(q[0] == 'f' for q in r[-1]):
                    return 'flag:%s(%s)' % ([q[2] for q in r[-1] if q[0] == 'f'][-1], who)
        return None

    for bi, t in b.calls():
        nm = classify_call(t)
        if nm is None:
            continue
        for (sbi, tt, ft) in bool_switches(b, bi):
            PRED[sbi] = (nm, tt, ft)
    for bl_i, bl in enumerate(b.blocks):
        for s in bl['s']:
            mt = marker_test(b, s)
            if mt is None:
                continue
            cv, x, op = mt
            who = who_of(x)
            nm = ('marker(%s)' % who) if cv <= -2 else ('unversioned(%s)' % who)
            for (sbi, tt, ft) in bool_switches(b, local=s['l']['l']):
                if op == 'Ne':
                    tt, ft = ft, tt
                PRED[sbi] = (nm, tt, ft)
        # a bool field of the change read directly (`if self.resolve_conflict`)
        t_ = b.term(bl_i)
        if t_['k'] == 'switch' and bl_i not in PRED:
            o = t_['o']
            pl = o.get('c') or o.get('m')
            if pl and b.locals[pl['l']] == 'bool':
                for r in origins(b, o):
                    if r[0] == 'param' and any(q[0] == 'f' for q in r[-1]):
                        zero = [tb for v, tb in t_['targets'] if str(v) == '0']
                        if zero:
                            PRED[bl_i] = ('flag:%s(%s)' % ([q[2] for q in r[-1] if q[0] == 'f'][-1], 'self' if r[1] == 1 else 'old'), t_['else'], zero[0])
    names = sorted({v[0] for v in PRED.values()})
    flags = [n for n in names if n.startswith('flag:') and n.endswith('(self)')]
    need = {'keep': 'marker(self)', 'oldc': 'marker(old)', 'unv': 'unversioned(self)'}
    missing = [v for v in need.values() if v not in names]
    if missing or len(flags) != 1:
        ck.undecided('C13.d', short(b.id), 'return-table', 'tests of next_version not all located: found %s' % names, '%s:%s' % (b.file, b.line))
        return
    need['resv'] = flags[0]

    def leaf(op, env):
        if 'k' in op:
            return 'const:%s' % op['k'].get('v')
        pl = op.get('c') or op.get('m')
        if pl is None:
            return '?'
        if not pl.get('p') and pl['l'] in env:
            return env[pl['l']]
        if pl['l'] in env and len(pl.get('p', ())) == 1 and pl['p'][0][0] == 'f' and str(env[pl['l']]).startswith('add('):
            return env[pl['l']]         # (sum, overflowed).0 of a checked `+`
        out = set()
        for r in origins(b, op, stop_at_calls=True):
            if r[0] == 'param':
                out.add(('self' if r[1] == 1 else 'old') + '.' + '.'.join(q[2] for q in r[-1] if q[0] == 'f'))
            else:
                out.add(r[0])
        return sorted(out)[0] if len(out) == 1 else 'one-of:%s' % sorted(out)

    results = []        # (assignment, returned)
    budget = [4000]

    def walk(bi, env, asg, depth):
        budget[0] -= 1
        if budget[0] < 0 or depth > 200:
            results.append((dict(asg), 'path-budget-exhausted'))
            return
        bl = b.blocks[bi]
        env = dict(env)
        for s in bl['s']:
            if s['k'] != 'assign' or s['l'].get('p'):
                continue
            l = s['l']['l']
            rv = s['r']
            if rv['k'] == 'use':
                env[l] = leaf(rv['o'], env)
            elif rv['k'] == 'bin' and rv['op'].startswith('Add'):
                env[l] = 'add(%s)' % leaf(rv['a'], env)
            elif rv['k'] == 'cast':
                env[l] = leaf(rv['o'], env)
            else:
                env.pop(l, None)
        t_ = b.term(bi)
        k = t_['k']
        if k == 'return':
            results.append((dict(asg), env.get(0, leaf({'c': {'l': 0}}, {}))))
            return
        if k == 'call':
            d = t_['d']
            lf = callee_decl(t_).split('::')[-1]
            if not d.get('p'):
                if lf in ('saturating_add', 'checked_add', 'wrapping_add') and t_['args']:
                    env[d['l']] = 'add(%s)' % leaf(t_['args'][0], env)
                else:
                    env.pop(d['l'], None)
            nxt = t_.get('t')
            if nxt is not None:
                walk(nxt, env, asg, depth + 1)
            return
        if bi in PRED:
            nm, tt, ft = PRED[bi]
            for val, tgt in ((True, tt), (False, ft)):
                if nm in asg and asg[nm] != val:
                    continue
                a2 = dict(asg)
                a2[nm] = val
                walk(tgt, env, a2, depth + 1)
            return
        for s2 in b.succ(bi):
            if b.blocks[s2].get('cleanup'):
                continue
            walk(s2, env, asg, depth + 1)
    walk(0, {}, {}, 0)

    def ref(keep, resv, oldc, unv):
        if keep:
            return 'self.version'
        if resv:
            return 'add(self.version)' if oldc else 'add(old.version)'
        if oldc:
            return 'old.version'
        return 'add(old.version)' if unv else 'add(self.version)'
    diff = []
    import itertools
    for keep, resv, oldc, unv in itertools.product((True, False), repeat=4):
        total = {need['keep']: keep, need['resv']: resv, need['oldc']: oldc, need['unv']: unv}
        got = {r for a, r in results if all(total.get(n_) == v_ for n_, v_ in a.items() if n_ in total)}
        w = ref(keep, resv, oldc, unv)
        if got != {w}:
            diff.append('marker carried=%s resolving=%s stored in conflict=%s unversioned=%s: returns %s, expected %s'
                        % (keep, resv, oldc, unv, sorted(got), w))
    ck.meta['next_version_paths'] = len(results)
    ck.ob('C13.d', short(b.id), 'return-table', not diff,
          'next_version, over %d paths and the 16 combinations of its four tests: marker carried -> self.version; resolving -> stored in '
          'conflict ? self.version+1 : old.version+1; stored in conflict -> old.version; unversioned -> old.version+1; else self.version+1'
          % len(results) if not diff else
          'next_version decision table differs in %d of 16 combinations: %s — a resolution that builds on the wrong version is refused by the '
          'store (or stored below the current version), the key keeps the other value while the record says resolved' % (len(diff), '; '.join(diff[:4])),
          '%s:%s' % (b.file, b.line))


def queue_position_decided_by_the_listing(ck, m):
    """C13.n — see RULES"""
    from nl import locks
    from props.C02 import resolver_fn
    P = m.prog
    ck.rule('C13.n', 'a write to a key in conflict queues behind the newest record of that key, whatever the state of that record: in the conflict '
                     'resolver the branch that picks "behind the last listed conflict" or "first conflict of the key" is decided by the listing alone '
                     '(list_conflicts_keys().last()) — a further test (the last record is "already answered") sends a queued write down the '
                     'first-conflict path, whose notice carries the stored version, i.e. the in-conflict marker: the arbiter echoes it and the key '
                     'can never be released')
    rb = resolver_fn(m)
    fam = [rb] + [P.bodies[k] for k in P.bodies if k.startswith(rb.id + '::{closure')]
    n, bad = 0, []
    for b in fam:
        # the listing of the key's conflict records (and, when present, the `.last()` taken of it): whatever form the test takes
        # (`match list.last()`, `if list.is_empty()`, an index), the branch depends on this call
        lasts = {bi for bi, t in b.calls() if any(x in callee(t) for x in ('list_conflicts_keys',))}
        if not lasts:
            continue
        for sw in b.reachable():
            t = b.term(sw)
            if t['k'] != 'switch' or b.blocks[sw].get('cleanup'):
                continue
            calls_, _params = locks.backward_slice(b, t['o'])
            if not (calls_ & lasts):
                continue
            n += 1
            for c in sorted(calls_):
                cb_ = P.bodies.get(callee(b.term(c)))
                if cb_ is not None and not is_log(b.term(c)) and not any(x in cb_.id for x in ('list_conflicts_keys', 'list_keys')):
                    bad.append('%s (%s)' % (short(cb_.id), b.loc(c)))
    ck.ob('C13.n', short(rb.id), 'queue-position-decided-by-the-listing', n > 0 and not bad,
          'the %d branch(es) on the newest listed conflict depend on the listing alone' % n if n > 0 and not bad else
          'the choice between "queue behind the newest conflict" and "first conflict" also depends on %s' % sorted(set(bad))[:4],
          '%s:%s' % (rb.file, rb.line))
    ck.floor('C13.n', n, 1, 'branches on the newest listed conflict in the resolver')


def every_write_can_reach_the_resolver(ck, m):
    """C13.o — see RULES"""
    P = m.prog
    ck.rule('C13.o', 'every write that can be refused for its version is handed to the conflict resolver: the store is called by the function that '
                     'passes its VersionError on to the resolver, by the resolver and the resolution themselves, and by the creation of a database — '
                     'a shortcut that calls the store directly ("a plain set has no version to compare") answers a plain write to a key in conflict '
                     'with a raw VersionError: with an arbiter registered it is neither queued nor recorded')
    sb = store_fn(m)
    rb = resolver_fn(m)
    callers = sorted({cb.id for cb, _bi in P.callers().get(sb.id, []) if not cb.id.startswith(('nundb::client::', 'nundb::command_line::'))})
    # the wrapper: calls the store and, on the VersionError edge, the resolver
    wrappers = {b.id for b in P.user_bodies() if any(callee(t) == sb.id for _, t in b.calls()) and any(callee(t) == rb.id for _, t in b.calls())}
    ok_names = wrappers | {rb.id} | {c for c in callers if c.endswith(('resolve_conflit', 'bo::Databases::add_database', 'bo::Databases::new'))}
    strangers = [short(c) for c in callers if c not in ok_names]
    ck.ob('C13.o', short(sb.id), 'store-called-through-the-resolving-wrapper', bool(wrappers) and not strangers,
          'the store is called by %s only' % [short(c) for c in callers] if wrappers and not strangers else
          'the store is also called directly by %s: a version refusal on that path never reaches the conflict resolver' % strangers,
          '%s:%s' % (sb.file, sb.line))
    ck.floor('C13.o', len(callers), 3, 'callers of the store')
