"""C02 — set-safe is an atomic compare-and-set; versions only grow; no lost update.

Decides: (a) the read of an entry and the write of data derived from it are in ONE critical
section of Database.map, for every body of the node (A1: non-atomic read-modify-write of one
entry); (b) the version stored for an existing key is never a literal (it derives from the old
entry or from the change); (c) the `None` strategy hands the VersionError back untouched and
the absent-key branch of the store never refuses.
Does NOT decide `Change::next_version` as arithmetic, nor linearizability beyond "check and
write are atomic".
"""
import json
from nl import core, locks
from nl.core import origins, callee, callee_decl, is_log, enum_switches, const_val, bool_switches
from nl.model import short

RULES = {
    'C02.a': 'no body reads an entry of Database.map in one critical section and writes the same entry, with data '
             'derived from that read, in a later one (compare and write must be one section)',
    'C02.b': 'a literal version is stored only for a key that was absent, or is the in-conflict marker',
    'C02.c': 'strategy None returns the store\'s VersionError unchanged and without any effect; the absent-key '
             'branch of the store has no refusing exit',
    'C02.e': 'get-safe reports the version the store compares against: the reader that builds Response::Value takes the version from '
             'the map entry whenever the lookup finds one (tombstones included); a literal version is used only where the lookup found nothing',
    'C02.f': 'a successful mutation makes the version grow: the version stored by the increment for an existing key is old.version + 1 '
             '(an addition on the old entry\'s version); a plain copy of the old version is stored only under the in-conflict-marker test',
    'C02.h': 'the in-conflict marker cannot be forged: a version that a client supplies (a non-constant `version` of a Request::Set or a '
             'Request::Resolve built by a parser) is compared with a lower bound, and the branch taken for the marker value refuses — the marker version makes '
             'the store skip its comparison (allow_save_version)',
    'C02.g': 'the store refuses on the version it WOULD store: the branch that builds VersionError is controlled by a comparison between the '
             'result of next_version and the stored version (directly, or in a helper that receives that result) — a test on the presented '
             'version lets a write through whose stored version cannot grow (saturated), so two writers with the same base both succeed',
    'C02.d': 'a success reply of the store / the increment is built only on paths that passed an insert into Database.map '
             '(an acknowledged write is a committed write with a new version)',
    'C02.i': 'a refused versioned write stays refused on its way back to the client: the replication table hands an Error / VersionError '
             'answer back before it is consulted (C04.k, repeated here: otherwise the loser of two same-base writers is answered Ok)',
    'C02.j': 'the version arithmetic of the store cannot overflow: no overflow-checked `+` (a panic in debug builds, a wrap to i32::MIN in '
             'release builds) in the store, the increment or next_version — `set-safe k 2147483647 v` must be an ordinary write; the panic '
             'would be raised while the write guard of Database.map is held and poison it for every later command',
    'C02.k': 'a write on a tombstone brings the key back to life (C01.g, repeated): kept Deleted, the next increment starts from 0 again and an acknowledged write or increment is lost',
}


def node_bodies(m):
    for b in m.prog.user_bodies():
        if b.id.startswith(('nundb::client::', 'nundb::command_line::', '<nundb::client::')):
            continue
        if b.kind in ('fn', 'method'):
            yield b


def store_fn(m):
    """Database method taking &Change and returning Response (set_value)"""
    r = [b for b in m.prog.user_bodies() if b.kind == 'method' and b.argc == 2 and b.locals[0] == 'nundb::bo::Response'
         and b.locals[1] == '&nundb::bo::Database' and b.locals[2] == '&nundb::bo::Change']
    if len(r) != 1:
        raise core.AnchorError('store function (&Database, &Change) -> Response: found %d' % len(r))
    return r[0]


def increment_fn(m):
    r = [b for b in m.prog.user_bodies() if b.kind == 'method' and b.argc == 3 and b.locals[0] == 'nundb::bo::Response'
         and b.locals[1] == '&nundb::bo::Database' and core.is_str_ty(b.locals[2]) and b.locals[3] in ('i8', 'i16', 'i32', 'i64', 'i128', 'isize')]
    if len(r) != 1:
        raise core.AnchorError('increment function (&Database, string, integer) -> Response: found %d' % len(r))
    return r[0]


def remover_fn(m):
    r = []
    for b in m.prog.user_bodies():
        if b.kind == 'method' and b.locals[0] == 'nundb::bo::Response' and b.argc == 2 and core.is_str_ty(b.locals[2]):
            if any(t['f'].get('dargs', '').startswith('std::collections::HashMap::<std::string::String, nundb::bo::Value>::remove')
                   for _, t in b.calls()):
                r.append(b)
    if len(r) != 1:
        raise core.AnchorError('remove function (&Database, String) -> Response: found %d' % len(r))
    return r[0]


def resolver_fn(m):
    """method (&Database, Response, &Arc<Databases>) -> Response switching on ConsensuStrategy"""
    r = [b for b in m.prog.user_bodies() if b.kind == 'method' and b.locals[0] == 'nundb::bo::Response' and b.argc == 3
         and b.locals[2] == 'nundb::bo::Response']
    if len(r) != 1:
        raise core.AnchorError('conflict resolver (&Database, Response, &Arc<Databases>) -> Response: found %d' % len(r))
    return r[0]


def strategy_switch(m, b):
    for bi in sorted(b.reachable()):
        t = b.term(bi)
        if t['k'] != 'switch':
            continue
        for r in origins(b, t['o']):
            if r[0] == 'discr':
                rv = b.blocks[r[1]]['s'][r[2]]['r']
                if rv['adt'].endswith('bo::ConsensuStrategy'):
                    tm = {}
                    for v, tb in t['targets']:
                        tm[m.prog.variant_of_discr(rv['adt'], v)] = tb
                    # the variant not listed falls into `else`
                    names = [x['name'] for x in m.prog.adts[rv['adt']]['variants']]
                    for n in names:
                        if n not in tm:
                            tm[n] = t['else']
                    return bi, tm
    return None


def run(ck, m):
    _run02(ck, m)
    transports_answer_a_refusal_as_a_refusal(ck, m)
    from nl import alias as _alias
    ck.rule('C02.l', 'no acknowledged increment is lost (C01.e, repeated): the increment stores exactly value + argument or refuses — a sum that is '
                     'clamped or wrapped at the i32 bounds is acknowledged with a new version while its amount is dropped')
    _alias.repeat(ck, m, 'C01', ('C01.e',), 'C02.l', key_filter=lambda k: 'adds-exactly-or-refuses' in k or 'adds-its-argument' in k)
    refusal_decided_by_versions_only(ck, m)


def transports_answer_a_refusal_as_a_refusal(ck, m, rule='C02.m'):
    """sibling agreement over the transports — see the rule text"""
    P = m.prog
    ck.rule(rule, 'the loser is told that it lost, on every transport: where a transport takes the answer of the request entry apart, the '
                  'VersionError variant (a refused versioned write: the version presented is older than the stored one) never shares the branch '
                  'that reports success — the store refuses correctly, but a reply `ok` to both of two writers that presented the same base '
                  'version is, for the clients, two successful compare-and-sets (sibling rule: tcp, http and ws must agree)')
    resp = P.adts.get('nundb::bo::Response')
    if not resp:
        ck.undecided(rule, 'Response', 'anchor', 'Response type not found')
        return
    ve = [str(v['discr']) for v in resp['variants'] if v['name'] == 'VersionError'][0]
    er = [str(v['discr']) for v in resp['variants'] if v['name'] == 'Error'][0]
    pr = m.reentry_names()
    n = 0
    for b in P.user_bodies():
        if b.id.startswith(('nundb::client::', 'nundb::command_line::')) or b.id in pr and False:
            continue
        for bi, t in b.calls():
            if callee(t) not in pr or not t['args']:
                continue
            # a transport hands on text it received: the command is not a constant
            if any(core.const_str(r) is not None for r in origins(b, t['args'][0])):
                continue
            for (sbi, tm, els, adt) in core.enum_switches(b, bi):
                if not adt.endswith('bo::Response'):
                    continue
                if er not in tm:
                    continue         # not a reply switch (the answer is not taken apart into refusal / success)
                # a transport REPLIES on the Error branch: it sends an `error …` text to the client or pushes the message onto the list of
                # answers (a function that merely logs, or hands the answer on, is not a transport)
                succ0 = {tb for v_, tb in tm.items() if v_ not in (ve, er)} | ({els} if b.term(els)['k'] != 'unreachable' else set())
                stop_ = lambda q, _bi=bi: q == _bi         # one turn of the session loop: do not walk on into the next command
                ereg = set(b.reach_from([tm[er]], stop=stop_, include_start=True)) - set(b.reach_from(sorted(succ0 - {tm[er]}), stop=stop_, include_start=True))
                replies = False
                for x in ereg:
                    tx = b.term(x)
                    if tx['k'] != 'call' or is_log(tx):
                        continue
                    d_ = callee_decl(tx)
                    if d_.endswith('Sender::try_send') or 'try_send' in d_ or d_ == 'std::io::Write::write_fmt':
                        fs_, _o = core.fmt_of_value(b, tx['args'][-1]) if tx['args'] else ([], [])
                        if any(f_.text().lstrip().startswith('error') for f_ in fs_):
                            replies = True
                    if d_ == 'std::vec::Vec::push' and 'String' in tx['f'].get('dargs', ''):
                        replies = True
                if not replies:
                    continue
                n += 1
                succ_targets = {tb for v_, tb in tm.items() if v_ not in (ve, er)} | ({els} if b.term(els)['k'] != 'unreachable' else set())
                vt = tm.get(ve, els)
                shared = vt in succ_targets
                ck.ob(rule, short(b.id), 'version-error-is-not-answered-as-success', not shared,
                      '%s answers a refused versioned write on its own branch (or on the branch of Error)' % short(b.id) if not shared else
                      '%s answers Response::VersionError on the branch that reports success (%s): a set-safe that lost the comparison is '
                      'acknowledged to its client exactly like the one that won' % (short(b.id), b.loc(vt)), b.loc(sbi))
    ck.floor(rule, n, 3, 'transports that take the answer of the request entry apart (tcp, http, ws)')


def _run02(ck, m):
    for k, v in RULES.items():
        ck.rule(k, v)
    ex = m.explorer()
    # ---- C02.a -------------------------------------------------------------------------
    n = 0
    named = {store_fn(m).id, increment_fn(m).id, remover_fn(m).id}
    for b in node_bodies(m):
        res = locks.rmw_findings(m, b, 'map')
        n += 1
        if not res:
            if b.id in named:
                ck.ob('C02.a', short(b.id), 'single-section', True,
                      'read and write of the entry are in one critical section of Database.map', '%s:%s' % (b.file, b.line))
            continue
        for r in res:
            # a write-back of entries taken from an earlier bulk copy is one finding per (function, copy): the helper through
            # which the write happens is an implementation detail that an "extract function" refactoring changes
            second = 'write-back' if 'bulk copy' in (r.get('same') or '') else r['second_fn']
            ck.ob('C02.a', short(b.id), '%s->%s' % (r['first_fn'], second), False,
                  '%s reads the entry in %s (%s) and, after releasing Database.map, writes it through %s (%s) with data '
                  'derived from that read (%s): two writers presenting the same base version can both pass the comparison'
                  % (short(b.id), r['first_fn'], r['first'], r['second_fn'], r['second'], r['same']), r['second'])
    ck.floor('C02.a', n, 300, 'bodies swept for non-atomic read-modify-write')
    ck.floor('C02.a', len(named), 3, 'named mutators located')

    # ---- C02.b -------------------------------------------------------------------------
    fx = m.fx()
    # constructors that give a Value a literal version (today: From<String>/From<&str> for Value)
    lit_ctor = {}
    for b in m.prog.user_bodies():
        if b.locals[0] != 'nundb::bo::Value' or b.kind not in ('fn', 'method'):
            continue
        for r in core.place_origins(b, {'l': 0}):
            if r[0] == 'agg':
                rv = b.blocks[r[1]]['s'][r[2]]['r']
                if rv.get('adt', '').endswith('bo::Value') and 'version' in rv.get('fields', []):
                    op = rv['ops'][rv['fields'].index('version')]
                    vs = [const_val(x) for x in origins(b, op) if x[0] == 'const']
                    if vs and len(vs) == len(origins(b, op)):
                        lit_ctor[b.id] = vs[0]
    changed = True
    while changed:
        changed = False
        for b in m.prog.user_bodies():
            if b.locals[0] != 'nundb::bo::Value' or b.id in lit_ctor or b.kind not in ('fn', 'method'):
                continue
            for r in core.place_origins(b, {'l': 0}, stop_at_calls=True):
                if r[0] == 'call' and callee(b.term(r[1])) in lit_ctor:
                    lit_ctor[b.id] = lit_ctor[callee(b.term(r[1]))]
                    changed = True
    ck.floor('C02.b', len(lit_ctor), 1, 'constructors that give a Value a literal version')
    nb = 0
    for b in node_bodies(m):
        top = None
        for bi, t in b.calls():
            if not t['f'].get('dargs', '').startswith('std::collections::HashMap::<std::string::String, nundb::bo::Value>::insert'):
                continue
            if top is None:
                top = ex.top_frame(b)
            if not fx.guard_sources(top, t['args'][0]):
                continue      # a private map under construction (loaders), not the shared one
            nb += 1
            lits = []
            for r in origins(b, t['args'][2], stop_at_calls=True):
                if r[0] == 'call':
                    cn = callee(b.term(r[1]))
                    if cn in lit_ctor:
                        lits.append((lit_ctor[cn], [r[1]]))
                elif r[0] == 'agg':
                    rv = b.blocks[r[1]]['s'][r[2]]['r']
                    if rv.get('adt', '').endswith('bo::Value') and 'version' in rv.get('fields', []):
                        op = rv['ops'][rv['fields'].index('version')]
                        ro = origins(b, op)
                        if ro and all(x[0] == 'const' for x in ro):
                            lits.append((const_val(next(iter(ro))), [r[1]]))
            if not lits:
                ck.ob('C02.b', short(b.id), 'insert:version-derived', True,
                      'the Value inserted into Database.map takes its version from a parameter / the old entry / the change',
                      b.loc(bi))
            for lit, sites in lits:
                ok, why = literal_ok(m, b, sites, lit)
                ck.ob('C02.b', short(b.id), 'literal-version:%s' % lit, ok,
                      '%s inserts a Value built with the literal version %s: %s' % (short(b.id), lit, why), b.loc(bi))
    ck.floor('C02.b', nb, 2, 'inserts into the shared Database.map')
    success_implies_write(ck, m)
    marker_unforgeable(ck, m)
    from props import C04 as _C04
    _C04.refusal_not_replicated(ck, m, rule='C02.i')
    version_arithmetic_saturates(ck, m)
    from nl import alias
    alias.repeat(ck, m, 'C01', ('C01.g',), 'C02.k')
    # ---- C02.c -------------------------------------------------------------------------
    rb = resolver_fn(m)
    sw = strategy_switch(m, rb)
    if sw is None:
        ck.undecided('C02.c', short(rb.id), 'strategy-switch', 'no switch over ConsensuStrategy in the resolver')
    else:
        sbi, tm = sw
        none_t = tm.get('None')
        region = {x for x in rb.reachable() if rb.dominates(none_t, x)}
        calls = [callee_decl(rb.term(x)) for x in region if rb.term(x)['k'] == 'call' and not is_log(rb.term(x))]
        effectful = [c for c in calls if not c.startswith(('std::fmt', 'std::clone', 'std::string::ToString', 'std::ops::Drop', 'std::mem::drop'))
                     and 'drop_in_place' not in c and c != 'std::hint::must_use']
        aggs = [s['r'] for x in region for s in rb.blocks[x]['s'] if s['k'] == 'assign' and s['r']['k'] == 'agg'
                and s['r'].get('adt', '').endswith('bo::Response')]
        only_ve = bool(aggs) and all(a['variant'] == 'VersionError' for a in aggs)
        # every field of the rebuilt error comes from the matched error (parameter 2)
        same_fields = True
        for x in region:
            for s in rb.blocks[x]['s']:
                if s['k'] == 'assign' and s['r']['k'] == 'agg' and s['r'].get('variant') == 'VersionError':
                    for op in s['r']['ops']:
                        rs = origins(rb, op)
                        if not rs or not all(r[0] == 'param' and r[1] == 2 for r in rs):
                            same_fields = False
        ok = not effectful and only_ve and same_fields
        ck.ob('C02.c', short(rb.id), 'none-arm-passes-error-on', ok,
              'strategy None rebuilds the VersionError from the matched fields and calls nothing' if ok else
              'strategy None arm: calls=%s, returns VersionError only=%s, fields untouched=%s' % (effectful, only_ve, same_fields),
              rb.loc(sbi))
    sb = store_fn(m)
    okc = False
    whyc = 'no switch over an Option<Value> (the stored entry) found in the store'
    for sbi in sorted(sb.reachable()):
        t = sb.term(sbi)
        if t['k'] != 'switch':
            continue
        for r in origins(sb, t['o']):
            if r[0] != 'discr':
                continue
            rv = sb.blocks[r[1]]['s'][r[2]]['r']
            base_ty = sb.locals[rv['p']['l']]
            if rv['adt'] != 'std::option::Option' or 'nundb::bo::Value' not in base_ty or rv['p'].get('p'):
                continue
            none_t = [tb for v, tb in t['targets'] if str(v) == '0'] or [t['else']]
            some_t = [tb for v, tb in t['targets'] if str(v) == '1'] or [t['else']]
            if none_t[0] == some_t[0]:
                continue
            # drop ladders switch on the same local again at the end: take the first (dominating) one
            region = {x for x in sb.reachable() if sb.dominates(none_t[0], x)}
            region_some = {x for x in sb.reachable() if sb.dominates(some_t[0], x)}
            if not any(sb.term(x)['k'] == 'call' for x in region | region_some):
                continue
            refus = [s['r']['variant'] for x in region for s in sb.blocks[x]['s']
                     if s['k'] == 'assign' and s['r']['k'] == 'agg' and s['r'].get('adt', '').endswith('bo::Response')
                     and s['r']['variant'] in ('Error', 'VersionError')]
            okc = not refus
            whyc = 'the absent-key branch of the store builds no Error / VersionError' if okc else \
                'the absent-key branch can refuse: %s' % refus
            break
        if okc or 'can refuse' in whyc:
            break
    ck.ob('C02.c', short(sb.id), 'absent-key-never-refused', okc, whyc, '%s:%s' % (sb.file, sb.line))


def success_implies_write(ck, m):
    fx = m.fx()
    ex = m.explorer()
    for b, succ_variants in ((store_fn(m), ('Set',)), (increment_fn(m), ('Ok',))):
        top = ex.top_frame(b)
        ins = {bi for bi, t in b.calls() if t['f'].get('dargs', '').startswith('std::collections::HashMap::<std::string::String, nundb::bo::Value>::insert')
               and fx.guard_sources(top, t['args'][0])}
        succ = [bi for bi in b.reachable() for s_ in b.blocks[bi]['s'] if s_['k'] == 'assign' and s_['r']['k'] == 'agg'
                and s_['r'].get('adt', '').endswith('bo::Response') and s_['r'].get('variant') in succ_variants]
        # with the insert calls cut out of the CFG no success reply may be reachable
        cut = set()
        for i in ins:
            for nx in b.succ(i):
                cut.add((i, nx))
        reach = core.reachable_without(b, cut)
        bad = [b.loc(x) for x in succ if x in reach]
        ck.ob('C02.d', short(b.id), 'success-implies-write', bool(ins) and bool(succ) and not bad,
              'every success reply of %s is preceded by an insert into Database.map' % short(b.id) if ins and succ and not bad else
              '%s can answer success (%s) on a path that writes nothing: the key keeps its version, so a second writer presenting the '
              'same base version succeeds too' % (short(b.id), bad), '%s:%s' % (b.file, b.line))
    # ---- C02.g -------------------------------------------------------------------------
    sbod = store_fn(m)
    nv_calls = [bi for bi, t in sbod.calls() if callee(t).endswith('bo::Change::next_version')]
    ve_blocks = [bi for bi, _op, _b in version_error_sites(m, sbod)]
    controlled = False

    def from_nv(body, op_, nvs):
        return any(r[0] == 'call' and r[1] in nvs for r in origins(body, op_, stop_at_calls=True))
    for bi, bl in enumerate(sbod.blocks):
        for s in bl['s']:
            if s['k'] == 'assign' and s['r']['k'] == 'bin' and s['r']['op'] in ('Le', 'Lt', 'Ge', 'Gt'):
                if from_nv(sbod, s['r']['a'], nv_calls) or from_nv(sbod, s['r']['b'], nv_calls):
                    for (s2, tt, ft) in core.bool_switches(sbod, local=s['l']['l']):
                        if any(sbod.dominates(tt, v) or sbod.dominates(ft, v) for v in ve_blocks):
                            controlled = True
    # a bool helper that receives the next_version result and compares it
    for bi, t in sbod.calls():
        cb_ = m.prog.bodies.get(callee(t))
        if cb_ is None or cb_.locals[0] != 'bool':
            continue
        fed = [i for i, a in enumerate(t['args']) if from_nv(sbod, a, nv_calls)]
        if not fed:
            continue
        for bl in cb_.blocks:
            for s in bl['s']:
                if s['k'] == 'assign' and s['r']['k'] == 'bin' and s['r']['op'] in ('Le', 'Lt', 'Ge', 'Gt'):
                    if any(r[0] == 'param' and (r[1] - 1) in fed for k_ in ('a', 'b') for r in origins(cb_, s['r'][k_])):
                        for (s2, tt, ft) in core.bool_switches(sbod, bi):
                            if any(sbod.dominates(tt, v) or sbod.dominates(ft, v) for v in ve_blocks):
                                controlled = True
    ck.ob('C02.g', short(sbod.id), 'refusal-on-the-resulting-version', bool(ve_blocks) and bool(nv_calls) and controlled,
          'VersionError is decided by comparing next_version\'s result with the stored version' if controlled else
          'the branch that refuses a write (VersionError at %s) is not controlled by a comparison of next_version\'s result with the stored '
          'version: at a stored version that cannot grow (i32::MAX, saturating add) a second writer presenting the same base is accepted and '
          'overwrites the first' % [sbod.loc(v) for v in ve_blocks], '%s:%s' % (sbod.file, sbod.line))
    # ---- C02.f -------------------------------------------------------------------------
    ib = increment_fn(m)
    aggs = [(bi2, s['r']) for bi2, bl in enumerate(ib.blocks) if not bl.get('cleanup') for s in bl['s']
            if s['k'] == 'assign' and s['r']['k'] == 'agg' and s['r'].get('adt', '').endswith('bo::Value') and 'version' in s['r'].get('fields', [])]
    marker_edges = []
    for bi2, t2 in ib.calls():
        if callee(t2).endswith('is_in_conflict_resolution'):
            for (s2, tt, ft) in core.bool_switches(ib, bi2):
                marker_edges.append((tt, ft))
    for bi2, rv in aggs:
        vop = rv['ops'][rv['fields'].index('version')]
        grows = any((r[0] == 'call' and callee_decl(ib.term(r[1])).split('::')[-1] in ('saturating_add', 'checked_add', 'wrapping_add'))
                    or (r[0] == 'arith') for r in origins(ib, vop, stop_at_calls=True))
        copies = _plain_version_copies(ib, vop, bi2)
        bad = [ib.loc(x) for x in copies if not any(ib.dominates(tt, x) and not ib.dominates(ft, x) for tt, ft in marker_edges)]
        okf = grows and not bad
        ck.ob('C02.f', short(ib.id), 'version-grows', okf,
              'the increment stores old.version + 1 (the old version itself only while the key is in conflict resolution)' if okf else
              'the increment can store the OLD version unchanged (%s; addition found: %s): an acknowledged increment leaves the key at the '
              'version a reader saw before it, so a set-safe based on that read is accepted and overwrites the increment'
              % (bad or 'no addition on the version', grows), ib.loc(bi2))
    ck.floor('C02.f', len(aggs), 1, 'Value aggregates built by the increment for an existing key')
    # ---- C02.e -------------------------------------------------------------------------
    ng = 0
    for b in m.prog.user_bodies():
        if b.kind not in ('fn', 'method') or b.locals[0] != 'nundb::bo::Response' or not node_body(b):
            continue
        lookups = [bi for bi, t in b.calls() if t['f'].get('dargs', '').startswith('std::collections::HashMap::<std::string::String, nundb::bo::Value>::get')
                   and not callee_decl(t).endswith('get_mut')]
        if not lookups:
            continue
        vals = []
        for bi2, bl in enumerate(b.blocks):
            for s in bl['s']:
                if s['k'] == 'assign' and s['r']['k'] == 'agg' and s['r'].get('adt', '').endswith('bo::Response') and s['r'].get('variant') == 'Value' \
                        and 'version' in s['r'].get('fields', []):
                    vals.append((bi2, s['r']['ops'][s['r']['fields'].index('version')]))
        if not vals:
            continue
        ng += 1
        # the literal reported for an absent key is a version a set-safe is CHECKED against: the "no version" sentinel (-1: the store
        # then takes stored+1, i.e. accepts unconditionally) or the marker would let two writers creating the same key both succeed
        lits = sorted({const_val(r) for _bi2, op_ in vals for r in origins(b, op_) if r[0] == 'const' and isinstance(const_val(r), int)})
        neg = [x for x in lits if x < 0]
        ck.ob('C02.e', short(b.id), 'absent-key-version-is-a-checked-one', not neg,
              'the version reported for an absent key (%s) is one the store compares' % lits if not neg else
              'get-safe reports the version %s for an absent key: a set-safe carrying -1 is unversioned — the store accepts it against any stored '
              'version — so two clients that both read the absent key and both send `set-safe k -1 …` both succeed, the first acknowledged write '
              'is overwritten' % neg, '%s:%s' % (b.file, b.line))
        # blocks where an integer literal enters the value that becomes the reported version
        lit_blocks = _literal_entry_blocks(b, vals[0][1])
        bad = []
        for lb_ in lookups:
            for (sbi, tm, els, adt) in enum_switches(b, lb_):
                some_t = tm.get('1')
                if some_t is None:
                    continue
                after_some = b.reach_from([some_t], include_start=True)
                bad += [b.loc(x) for x in lit_blocks if x in after_some]
        ck.ob('C02.e', short(b.id), 'reported-version-is-the-stored-one', not bad and bool(lit_blocks) or (not bad and not lit_blocks), 
              'the literal version is reported only where the lookup found no entry' if not bad else
              '%s reports a literal version (%s) on a path where the map HAS an entry for the key: the store compares a set-safe with the '
              'entry\'s version (a tombstone keeps old+1), so a client that follows get-safe with set-safe is refused on every retry'
              % (short(b.id), bad), '%s:%s' % (b.file, b.line))
    ck.floor('C02.e', ng, 1, 'readers that build Response::Value from a map lookup')
    # the value and the version of one reply come from ONE look at the entry: taken in two lock sections, a write that lands in
    # between makes get-safe report the old value under the new version — the compare-and-set then overwrites a value the client never saw
    from nl.locks import backward_slice
    nb = 0
    for b in m.prog.user_bodies():
        if b.kind not in ('fn', 'method') or b.locals[0] != 'nundb::bo::Response' or not node_body(b):
            continue
        for bi2, bl in enumerate(b.blocks):
            for s in bl['s']:
                if not (s['k'] == 'assign' and s['r']['k'] == 'agg' and s['r'].get('adt', '').endswith('bo::Response') and s['r'].get('variant') == 'Value'
                        and 'version' in s['r'].get('fields', []) and 'value' in s['r'].get('fields', [])):
                    continue

                def entry_sources(op_):
                    out = set()
                    for c in backward_slice(b, op_)[0]:
                        tc = b.term(c)
                        if tc['f'].get('dargs', '').startswith('std::collections::HashMap::<std::string::String, nundb::bo::Value>::get'):
                            out.add(c)
                        cb = m.prog.bodies.get(callee(tc))
                        if cb is not None and cb.argc >= 1 and cb.locals[1].endswith('bo::Database') and any(
                                'Database.map' in a.ids for a in locks.acquisitions(cb)):
                            out.add(c)
                    return out
                sv = entry_sources(s['r']['ops'][s['r']['fields'].index('value')])
                sn = entry_sources(s['r']['ops'][s['r']['fields'].index('version')])
                if not sv and not sn:
                    continue
                nb += 1
                ok = sv == sn or not sn or not sv
                ck.ob('C02.e', short(b.id), 'value-and-version-from-one-lookup', ok,
                      'the value and the version of the reply come from the same lookup of the entry' if ok else
                      'the reply takes its value from %s and its version from %s — two separate looks at the entry (two lock sections): a write '
                      'landing in between makes get-safe report the OLD value with the NEW version, and the set-safe the client then sends with '
                      'that version overwrites a value it never read (a lost update between two compare-and-set clients)'
                      % ([b.loc(x) for x in sorted(sv)], [b.loc(x) for x in sorted(sn)]), b.loc(bi2))
    ck.floor('C02.e', nb, 1, 'Response::Value replies built from the entry')


def node_body(b):
    return not b.id.startswith(('nundb::client::', 'nundb::command_line::', '<nundb::client::'))


def _plain_version_copies(b, operand, here):
    """blocks where the `version` field of a Value is copied, unchanged, into the def-use chain that ends in `operand`"""
    out = set()
    seen = set()

    def op(o, blk):
        p = o.get('c') or o.get('m')
        if not p:
            return
        if any(e[0] == 'f' and len(e) > 3 and e[3] == 'version' and e[2].endswith('bo::Value') for e in p.get('p', ())):
            out.add(blk)
            return
        local(p['l'])

    def local(l):
        if l in seen:
            return
        seen.add(l)
        for (bi, si, kind, pl) in b.defs().get(l, []):
            if kind == 'assign' and pl['k'] in ('use', 'cast'):
                op(pl['o'], bi)
    op(operand, here)
    return out


def _literal_entry_blocks(b, operand):
    """blocks where an integer constant is assigned into the def-use chain that ends in `operand`"""
    out = set()
    seen = set()

    def op(o, blk):
        if 'k' in o:
            c = o['k']
            if isinstance(c.get('v'), int) and not isinstance(c.get('v'), bool) and str(c.get('ty', '')).startswith(('i', 'u')):
                out.add(blk)
            return
        p = o.get('c') or o.get('m')
        if p:
            local(p['l'], [e for e in p.get('p', ()) if e[0] == 'f'])

    def local(l, path):
        if (l, tuple(map(tuple, path))) in seen:
            return
        seen.add((l, tuple(map(tuple, path))))
        for (bi, si, kind, pl) in b.defs().get(l, []):
            if kind != 'assign':
                continue
            k = pl['k']
            if k in ('use', 'cast'):
                op(pl['o'], bi)
            elif k == 'agg':
                ops = pl['ops']
                if path and path[0][1] < len(ops) and pl.get('ak') in ('tuple',):
                    op(ops[path[0][1]], bi)
                else:
                    for o in ops:
                        op(o, bi)
    o0 = operand.get('c') or operand.get('m')
    if o0:
        local(o0['l'], [e for e in o0.get('p', ()) if e[0] == 'f'])
    elif 'k' in operand:
        pass
    return out


def literal_ok(m, root, site_bis, lit):
    if lit == -2:
        # the in-conflict marker: must be the crate's marker constant
        return True, 'the in-conflict marker constant (reviewed: the marker is a version by design)'
    if not site_bis:
        return False, 'could not locate the branch that introduces it'
    # the site must be dominated by the None arm of a switch over an Option that came from the map
    for bi, t in root.calls():
        isopt = False
        d = callee_decl(t)
        cb = m.prog.bodies.get(callee(t))
        if d in ('std::collections::HashMap::get', 'std::option::Option::map', 'std::option::Option::cloned'):
            isopt = True
        if cb is not None and cb.locals[0].startswith('std::option::Option<nundb::bo::Value'):
            isopt = True
        if not isopt:
            continue
        for (sbi, tm, els, adt) in enum_switches(root, bi):
            none_t = tm.get('0')
            if none_t is None:
                continue
            if all(root.dominates(none_t, x) for x in site_bis):
                return True, 'only on the branch where the key was absent'
    # switches over a *reference* to the option (match &old {..})
    for sb in root.reachable():
        t = root.term(sb)
        if t['k'] != 'switch':
            continue
        for r in origins(root, t['o']):
            if r[0] == 'discr':
                rv = root.blocks[r[1]]['s'][r[2]]['r']
                if rv['adt'] == 'std::option::Option':
                    none_t = [tb for v, tb in t['targets'] if str(v) == '0']
                    if none_t and all(root.dominates(none_t[0], x) for x in site_bis):
                        # the switched option must hold a map entry
                        pure, why_not = _pure_lookup(m, root, core.place_origins(root, rv['p'], stop_at_calls=True))
                        if pure:
                            return True, 'only on the branch where the key was absent'
                        if why_not:
                            return False, why_not
    return False, 'stored for a key that may already exist (its version falls)'


_PURE = ('std::option::Option::map', 'std::option::Option::cloned', 'std::option::Option::copied', 'std::option::Option::as_ref',
         'std::option::Option::as_deref', 'std::clone::Clone::clone', 'std::option::Option::as_mut', 'std::borrow::ToOwned::to_owned')
_LOOKUPS = ('std::collections::HashMap::get', 'std::collections::HashMap::get_mut', 'std::collections::HashMap::remove',
            'std::collections::HashMap::insert', 'std::collections::HashMap::get_key_value')


def _pure_lookup(m, b, roots, depth=0):
    """is the Option the plain answer of a map lookup (Some exactly when the key is in the map)?  Adaptors that keep
    Some/None as it is are looked through; a predicate (filter / and_then / ...) makes "None" mean "absent OR rejected"."""
    why = None
    for r in roots:
        if r[0] != 'call' or depth > 8:
            continue
        t = b.term(r[1])
        d = callee_decl(t)
        if d in _LOOKUPS:
            return True, None
        cb = m.prog.bodies.get(callee(t))
        if cb is not None and cb.locals[0].startswith('std::option::Option<nundb::bo::Value'):
            return True, None
        if d in _PURE and t['args']:
            ok, w = _pure_lookup(m, b, origins(b, t['args'][0], stop_at_calls=True), depth + 1)
            if ok:
                return True, None
            why = why or w
        elif d.startswith('std::option::Option::'):
            why = ('the "absent" decision is taken on the result of %s, not on the map lookup itself: an entry that is present but '
                   'rejected by the predicate (a tombstone) is replaced by a fresh Value and loses its disk offsets, state and version'
                   % d.split('::')[-1])
    return False, why


_CMP = {'Lt': lambda a, c: a < c, 'Le': lambda a, c: a <= c, 'Gt': lambda a, c: a > c, 'Ge': lambda a, c: a >= c,
        'Eq': lambda a, c: a == c, 'Ne': lambda a, c: a != c}
_FLIP = {'Lt': 'Gt', 'Le': 'Ge', 'Gt': 'Lt', 'Ge': 'Le', 'Eq': 'Eq', 'Ne': 'Ne'}


def _marker_value(m):
    """the constant a change's version is compared with by the predicate that lets the store skip its version comparison"""
    sb = store_fn(m)
    P = m.prog
    vals = set()
    for _, t in sb.calls():
        cb = P.bodies.get(callee(t))
        if cb is None or cb.locals[0] != 'bool' or not any(cb.locals[i].endswith('bo::Change') for i in range(1, cb.argc + 1)):
            continue
        stack, seen = [cb], set()
        while stack:
            x = stack.pop()
            if x.id in seen:
                continue
            seen.add(x.id)
            for bl in x.blocks:
                for s in bl['s']:
                    if s['k'] == 'assign' and s['r']['k'] == 'bin' and s['r']['op'] in ('Eq', 'Ne'):
                        for o in (s['r']['a'], s['r']['b']):
                            for r in origins(x, o):
                                v = const_val(r)
                                if isinstance(v, int) and v < -1:
                                    vals.add(v)
            for _, t2 in x.calls():
                c2 = P.bodies.get(callee(t2))
                if c2 is not None and c2.locals[0] == 'bool':
                    stack.append(c2)
    return vals


def marker_unforgeable(ck, m):
    P = m.prog
    marks = _marker_value(m)
    ck.floor('C02.h', len(marks), 1, 'marker constants compared by the predicate that lets the store skip its comparison')
    if not marks:
        return
    n = 0
    for b in P.user_bodies():
        if b.id.startswith(('nundb::client::', 'nundb::command_line::')):
            continue
        for X, bl in enumerate(b.blocks):
            if bl.get('cleanup'):
                continue
            for s in bl['s']:
                if not (s['k'] == 'assign' and s['r']['k'] == 'agg' and s['r'].get('adt', '').endswith('bo::Request')
                        and s['r'].get('variant') in ('Set', 'Resolve') and 'version' in s['r'].get('fields', [])):
                    continue
                o = s['r']['ops'][s['r']['fields'].index('version')]
                roots = set(origins(b, o))
                if not any(r[0] == 'call' for r in roots):
                    continue            # the unversioned `set` passes the constant "no version"; a derived Clone copies a field
                n += 1
                # a place holding the parsed number: locals assigned from the same roots
                refused = set()
                for Y, bl2 in enumerate(b.blocks):
                    for s2 in bl2['s']:
                        if not (s2['k'] == 'assign' and s2['r']['k'] == 'bin' and s2['r']['op'] in _CMP):
                            continue
                        a_, c_ = s2['r']['a'], s2['r']['b']
                        op = s2['r']['op']
                        ra, rc = set(origins(b, a_)), set(origins(b, c_))
                        if rc & roots and all(r[0] == 'const' for r in ra):
                            a_, c_, ra, rc, op = c_, a_, rc, ra, _FLIP[op]
                        if not (ra & roots) or not rc or not all(r[0] == 'const' for r in rc):
                            continue
                        cs = [const_val(r) for r in rc]
                        if len(cs) != 1 or not isinstance(cs[0], int):
                            continue
                        dl = s2['l']['l'] if 'l' in s2 and isinstance(s2['l'], dict) else None
                        if dl is None:
                            continue
                        for (_sw, tt, ft) in bool_switches(b, local=dl):
                            for mk in marks:
                                taken = tt if _CMP[op](mk, cs[0]) else ft
                                if X not in b.reach_from([taken], include_start=True):
                                    refused.add(mk)
                missing = sorted(marks - refused)
                ck.ob('C02.h', short(b.id), 'client-version-excludes-the-marker', not missing,
                      'a client version equal to the marker %s is refused by the parser before the Set / Resolve request is built' % sorted(marks) if not missing else
                      'the version of the Set / Resolve request built here comes from the command text and can be %s, the in-conflict-resolution marker: the '
                      'store saves such a change as it comes (no comparison), so `set-safe k %s v` succeeds against any stored version, the '
                      'version falls to %s and every later write of the key is refused' % (missing, missing[0], missing[0]), b.loc(X))
    ck.floor('C02.h', n, 2, 'Set / Resolve requests built with a version taken from the command text')


def version_error_sites(m, sbod):
    """where the store builds its refusal: [(block of the store, operand of the `state` field or None, body the operand lives in)] —
    the aggregate itself, or the call of a private helper (`self.version_error(change, &old, state)`) that builds it, in which case
    the operand is the call argument that the helper puts into the field"""
    P = m.prog
    out = []

    def aggs(body):
        for bi, bl in enumerate(body.blocks):
            if bl.get('cleanup'):
                continue
            for s in bl['s']:
                if s['k'] == 'assign' and s['r']['k'] == 'agg' and s['r'].get('variant') == 'VersionError' and s['r'].get('adt', '').endswith('bo::Response'):
                    yield bi, s['r']
    for bi, rv in aggs(sbod):
        op = rv['ops'][rv['fields'].index('state')] if 'state' in rv.get('fields', []) else None
        out.append((bi, op, sbod))
    helpers = {h.id: h for h in P.private_helpers(sbod)}
    for bi, t in sbod.calls():
        hb = helpers.get(callee(t))
        if hb is None or not hb.locals[0].endswith('bo::Response'):
            continue
        for hbi, rv in aggs(hb):
            op = None
            if 'state' in rv.get('fields', []):
                for r in origins(hb, rv['ops'][rv['fields'].index('state')]):
                    if r[0] == 'param' and 1 <= r[1] <= len(t['args']):
                        op = t['args'][r[1] - 1]
            out.append((bi, op, sbod))
    return out


def version_arithmetic_saturates(ck, m):
    """C02.j — see RULES"""
    from nl import panics
    P = m.prog
    L = locks.LockModel(P)
    C = panics.Census(P, L)
    bodies = [store_fn(m), increment_fn(m)]
    bodies += [b for b in P.user_bodies() if b.kind == 'method' and b.locals[0] == 'i32' and b.argc == 2 and b.locals[1] == '&nundb::bo::Change'
               and b.locals[2] == '&nundb::bo::Value']
    n, bad = 0, []
    for b in bodies:
        n += 1
        for s in C.direct(b):
            if s.what.startswith('assert:Overflow') and ('i32' in (s.detail or '') or True):
                # only arithmetic on the i32 version / the increment's own number
                bad.append('%s %s at %s' % (short(b.id), s.what, s.loc()))
    # the increment adds the client's number with checked_add by design (refused when it overflows): its own asserts are not versions
    bad = [x for x in bad if not x.startswith(short(increment_fn(m).id) + ' ') or 'version' in x]
    ck.ob('C02.j', 'versions', 'version-arithmetic-cannot-overflow', not bad,
          'no overflow-checked addition in the store / next_version (%d functions)' % n if not bad else
          'overflow-checked addition on a version: %s — with a presented or stored version of i32::MAX the store panics (debug) while it holds '
          'the write guard of Database.map, the lock stays poisoned and every later set, set-safe, increment, remove or get-safe on that '
          'database fails; in a release build the sum wraps to i32::MIN and a write that is not older is refused' % bad, '')
    ck.floor('C02.j', n, 3, 'functions doing version arithmetic')


controlling_switches = locks.controlling_switches


def entry_fields_in_slice(m, body, operand, adt_suffix='bo::Value', depth=1):
    """names of the fields of `adt_suffix` that are read in the backward slice of `operand` (through every rvalue kind and through call
    arguments; a crate-local callee that is handed the entry is looked into, `depth` levels)"""
    seen = set()
    fields = {}

    def note(place, where):
        for e in place.get('p', ()):
            if e[0] == 'f' and str(e[2]).endswith(adt_suffix):
                fields.setdefault(e[3] or str(e[1]), where)

    def visit_op(o, where):
        if 'k' in o or 'rt' in o:
            return
        p = o.get('c') or o.get('m')
        note(p, where)
        visit_local(p['l'])

    def visit_local(l):
        if l in seen:
            return
        seen.add(l)
        for (bi, si, kind, pl) in body.defs().get(l, []) + body.defs().get(('partial', l), []):
            if kind == 'call':
                for a in pl['args']:
                    visit_op(a, body.loc(bi))
                cb_ = m.prog.bodies.get(callee(pl))
                if cb_ is not None and depth > 0 and any(adt_suffix in str(x) for x in cb_.locals[1:cb_.argc + 1]):
                    for cbi, bl in enumerate(cb_.blocks):
                        if bl.get('cleanup'):
                            continue
                        for s_ in bl['s']:
                            if s_['k'] == 'assign':
                                rv = s_['r']
                                for o in ([rv.get('o')] if rv.get('o') else []) + [rv.get('a'), rv.get('b')] + list(rv.get('ops', ())):
                                    if o and ('c' in o or 'm' in o):
                                        note(o.get('c') or o.get('m'), cb_.loc(cbi))
                                if rv.get('p'):
                                    note(rv['p'], cb_.loc(cbi))
            else:
                rv = pl if 'k' in pl and pl['k'] != 'assign' else pl['r']
                k = rv['k']
                if k in ('use', 'cast', 'repeat'):
                    visit_op(rv['o'], body.loc(bi))
                elif k in ('ref', 'rawptr', 'discr'):
                    note(rv['p'], body.loc(bi))
                    visit_local(rv['p']['l'])
                elif k == 'bin':
                    visit_op(rv['a'], body.loc(bi))
                    visit_op(rv['b'], body.loc(bi))
                elif k == 'un':
                    visit_op(rv['a'], body.loc(bi))
                elif k == 'agg':
                    for o in rv['ops']:
                        visit_op(o, body.loc(bi))
    visit_op(operand, None)
    return fields


def refusal_decided_by_versions_only(ck, m, rule='C02.n'):
    ck.rule(rule, 'a versioned write to an existing key is refused or accepted on versions alone: no branch that decides whether the store '
                  'builds its VersionError depends on the state or the value of the stored entry — get-safe reports the version of a tombstone '
                  'like any other, so a stale writer that is let through because the entry "is removed" reuses a version number that was '
                  'already handed out (two writers with the same base both succeed, the stored version goes down)')
    sbod = store_fn(m)
    sites = version_error_sites(m, sbod)
    bad = []
    nsw = 0
    for v, _op, _b in sites:
        for sw in controlling_switches(sbod, v):
            nsw += 1
            t = sbod.term(sw)
            f = entry_fields_in_slice(m, sbod, t['o'])
            for name in ('state', 'value'):
                if name in f:
                    bad.append('%s (read at %s, decides at %s)' % (name, f[name], sbod.loc(sw)))
    okf = bool(sites) and nsw > 0 and not bad
    ck.ob(rule, short(sbod.id), 'refusal-decided-by-versions-only', okf,
          'the %d branch(es) that decide the refusal of the store read only versions of the entry' % nsw if okf else
          'the refusal of a versioned write depends on the stored entry\'s %s: a stale set-safe is accepted or refused by what the key '
          'currently holds, not by the version get-safe reported' % sorted(set(bad)), '%s:%s' % (sbod.file, sbod.line))
