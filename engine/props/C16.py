"""C16 — after any restart the oplog is either discarded or still decodes correctly.

Decides the ordering discipline that makes the on-disk flag trustworthy: (a) in the replication loop a
key id is obtained (and for a new id the on-disk flag invalidated) before the oplog record that uses
it is appended; the flag writer is unbuffered; (b) snapshot_keys writes the key map before it marks
the log valid, and at every place where the on-disk flag changes the in-memory flag is left equal to
what the file now reads as — including start-up, where an absent flag file reads as valid;
(c) key ids are allocated in one place, called only from the single-consumer replication loop;
(d) a database id never comes from a collection length or from a literal other than the admin
database's 0; (e) start-up cleans the metadata on the invalid branch (shared with C05.d).
Does NOT decide the outcome of a kill between two specific writes, nor the decoding of every record.
"""
from nl import core
from nl.core import origins, callee, callee_decl, is_log, bool_switches, const_val
from nl.model import short
from props import repl

RULES = {
    'C16.a': 'key id (and flag invalidation for a new id) precedes the oplog append that uses it; flag writer has capacity 1',
    'C16.b': 'key map written before the flag is set valid; wherever the on-disk flag changes the in-memory flag is made equal '
             'to what the file reads as (start-up included)',
    'C16.c': 'key ids are allocated by one function whose only callers are in the replication loop',
    'C16.d': 'database ids do not originate from a collection length or from a literal other than the admin 0',
    'C16.e': 'the key -> id map only grows: ids are handed out as `len()` of the map, which is unique only while no entry is ever removed — '
             'no remove / retain / clear / drain on Databases.keys_map in node code',
}


def run(ck, m):
    _run16(ck, m)
    from nl import alias as _alias
    ck.rule('C16.f', 'the log decodes to what was logged (C12.a, repeated): the retry after a rotation writes the same record as the first '
                     'attempt, field by field — a record with db id and key id swapped decodes, after the restart that kept the log, to another '
                     'database and key')
    _alias.repeat(ck, m, 'C12', ('C12.a',), 'C16.f', key_filter=lambda k: 'retry-writes-the-same-record' in k)
    discard_is_total(ck, m)
    metadata_written_by_every_snapshot(ck, m)
    every_listed_database_is_loaded(ck, m)


def _run16(ck, m):
    for k, v in RULES.items():
        ck.rule(k, v)
    P = m.prog
    lb, lsw = repl.fanout_loop(m)
    # allocator: the function that inserts a new (key -> id) pair into the key map, the id taken from the map's length
    KM = 'std::collections::HashMap::<std::string::String, u64>::'
    alloc = [b for b in P.user_bodies() if b.kind in ('fn', 'method')
             and any(t['f'].get('dargs', '').startswith(KM + 'insert') for _, t in b.calls())
             and any(t['f'].get('dargs', '').startswith(KM + 'len') for _, t in b.calls())]
    def in_loop(body, depth=0):
        """the body is the replication loop, nested in it, or a helper whose only callers are"""
        if body.id == lb.id or body.id.startswith(lb.id + '::'):
            return True
        cs = P.callers().get(body.id, [])
        return depth < 3 and bool(cs) and all(in_loop(cb, depth + 1) for cb, _ in cs)
    if len(alloc) > 1:
        # more than one function hands out ids: the one the replication loop uses is judged below; any other one is a second
        # allocator outside the flag protocol unless it invalidates the flag itself before it inserts
        main = [b for b in alloc if P.callers().get(b.id) and all(in_loop(cb) for cb, _ in P.callers().get(b.id, []))]
        for e in [b for b in alloc if b not in main]:
            ins_e = [bi for bi, t in e.calls() if t['f'].get('dargs', '').startswith(KM + 'insert')]
            inv_e = [bi for bi, t in e.calls() if callee(t).endswith('invalidate_oplog')]
            ok_e = bool(inv_e) and all(any(e.dominates(x, i) for x in inv_e) for i in ins_e)
            ck.ob('C16.c', short(e.id), 'second-allocator', ok_e,
                  'a second allocator that invalidates the flag before every id it hands out' if ok_e else
                  '%s (called from %s) hands out key ids (insert + len on the key map) outside the replication loop and without invalidating '
                  'the on-disk flag: the ids exist only in memory while the flag stays valid, the keys file is never rewritten for them, and '
                  'after a clean restart the records written under them decode to other keys'
                  % (short(e.id), sorted({short(cb.id) for cb, _ in P.callers().get(e.id, [])})), '%s:%s' % (e.file, e.line))
        alloc = main
    if len(alloc) != 1:
        ck.undecided('C16.c', 'allocator', 'anchor', 'expected one key-id allocator (insert + len on the key map), found %d' % len(alloc))
        return
    ab = alloc[0]
    callers = P.callers().get(ab.id, [])
    ok = bool(callers) and all(in_loop(cb) for cb, _ in callers)
    ck.ob('C16.c', short(ab.id), 'single-consumer-callers', ok,
          'key ids are allocated only from the replication loop (%d call sites)' % len(callers) if ok else
          'key ids are also allocated from %s' % sorted({short(cb.id) for cb, _ in callers if not in_loop(cb)}), '%s:%s' % (ab.file, ab.line))
    # ---- (a) ---------------------------------------------------------------------------
    # appends that use an allocated id: in the loop, or in a helper the loop calls
    n = 0
    users = {cb.id: cb for cb, _ in callers}
    inv_in_alloc = [bi for bi, t in ab.calls() if callee(t).endswith('invalidate_oplog')]
    for ub in users.values():
        appends = [(bi, t) for bi, t in ub.calls() if 'op_log' in callee(t) and 'try_write' in callee(t)]
        inv_here = [bi for bi, t in ub.calls() if callee(t).endswith('invalidate_oplog')]
        for bi, t in appends:
            roots = origins(ub, t['args'][2], stop_at_calls=True)
            from_alloc = [r[1] for r in roots if r[0] == 'call' and callee(ub.term(r[1])) == ab.id]
            if not from_alloc:
                continue
            n += 1
            ok = all(ub.dominates(x, bi) for x in from_alloc)
            why = 'the key id is allocated (and the flag invalidated) before the record is appended'
            if ok and not inv_in_alloc:
                # the invalidation lives here, behind an is-new test: that test (the branch controlling the invalidation)
                # must be passed before the append — an append that comes first can be killed, or refused (`?`), before
                # the flag is written, leaving a log flagged valid that names an id no keys file knows
                ctrl_before = False
                for x in inv_here:
                    if ub.dominates(bi, x) or bi == x:
                        continue            # invalidation after the append
                    ctrl = [c for c in ub.reachable() if ub.term(c)['k'] == 'switch' and ub.dominates(c, x) and c != x]
                    if any(ub.dominates(c, bi) for c in ctrl) and any(ub.dominates(a, x) for a in from_alloc):
                        ctrl_before = True
                ok = ctrl_before
                why = ('the is-new test and the invalidation it guards come before the append' if ok else
                       'the record naming the new key id is appended before the flag is invalidated (invalidation sites in %s: %s): a kill, '
                       'or a refused append returning early, leaves the log flagged valid while it names a key id no keys file knows'
                       % (short(ub.id), [ub.loc(x) for x in inv_here]))
            ck.ob('C16.a', short(ub.id) if ub.id != lb.id else short(lb.id), 'id-before-append', ok, why, ub.loc(bi))
    ck.floor('C16.a', n, 1 if len(users) == 1 and lb.id not in users else 2, 'oplog appends that use an allocated key id')
    # every record names its key by an id the allocator handed out for THAT key (or by a literal for the records that name no key:
    # create-db, snapshot): an id obtained any other way (a lookup with a default) is some other key's id — id 0 is the first key the
    # node ever registered — so the record decodes to that key
    na = 0
    for ub in users.values():
        for bi, t in ub.calls():
            if not ('op_log' in callee(t) and 'try_write' in callee(t)) or len(t['args']) < 3:
                continue
            na += 1
            roots = origins(ub, t['args'][2], stop_at_calls=True)
            other = [r for r in roots if not (r[0] == 'const' or (r[0] == 'call' and callee(ub.term(r[1])) == ab.id))]
            ck.ob('C16.a', short(ub.id), 'key-id-from-the-allocator:%d' % na, not other,
                  'the key id of the record is the allocator\'s answer for the key (or a literal for a record that names no key)' if not other else
                  'the record appended at %s takes its key id from %s, not from the allocator: for a key the node has no id for, the record is '
                  'written under another key\'s id (the default 0 is the first key ever registered) and decodes to that key, in this life and '
                  'after every restart' % (ub.loc(bi), sorted({callee_decl(ub.term(r[1])).split('::')[-1] if r[0] == 'call' else r[0] for r in other})),
                  ub.loc(bi))
    ck.floor('C16.a', na, 4, 'oplog appends in the replication loop')
    ins = [bi for bi, t in ab.calls() if t['f'].get('dargs', '').startswith(KM + 'insert')]
    if inv_in_alloc:
        inv = inv_in_alloc
        # on EVERY path: the invalidation comes before the insert, or every path from the insert to the return passes it (an
        # invalidation behind a role / mode test is skipped exactly when that test says so, and the role is not a property of the log)
        ok = bool(ins) and all(any(ab.dominates(r, i) or ab.postdominates(r, i) for r in inv) for i in ins)
        # invalidation sits on the new-key path and before the function returns the id
        ck.ob('C16.a', short(ab.id), 'new-id-invalidates-flag', ok,
              'a new key id is always accompanied by invalidate_oplog before the id is returned' if ok else
              'a new key id can be returned without invalidating the on-disk flag (the invalidation at %s is conditional): the key is registered '
              'and logged while the flag stays valid, the keys file is never updated, and after a restart the log is kept although it names '
              'an id the keys file does not know — the next new key gets the same id' % [ab.loc(r) for r in inv], '%s:%s' % (ab.file, ab.line))
    else:
        for ub in users.values():
            inv_here = [bi for bi, t in ub.calls() if callee(t).endswith('invalidate_oplog')]
            acalls = [bi for bi, t in ub.calls() if callee(t) == ab.id]
            ck.ob('C16.a', short(ub.id), 'new-id-invalidates-flag', bool(inv_here) and all(any(ub.dominates(a, x) for x in inv_here) for a in acalls),
                  'the caller of the allocator invalidates the flag for a new id' if inv_here else
                  '%s allocates key ids but neither it nor the allocator invalidates the on-disk flag' % short(ub.id), '%s:%s' % (ub.file, ub.line))
    fw = [b for b in P.user_bodies() if b.id.endswith('get_invalidate_file_write_mode')]
    if fw:
        caps = []
        for bi, t in fw[0].calls():
            if callee_decl(t) == 'std::io::BufWriter::with_capacity':
                caps += [const_val(r) for r in origins(fw[0], t['args'][0])]
        ck.ob('C16.a', short(fw[0].id), 'flag-writer-unbuffered', caps == [1],
              'the flag writer has capacity 1: the single byte goes straight to the file' if caps == [1] else 'flag writer capacity %s' % caps,
              '%s:%s' % (fw[0].file, fw[0].line))
    # ---- (b) ---------------------------------------------------------------------------
    sk = [b for b in P.user_bodies() if b.id.endswith('disk_ops::snapshot_keys')]
    if sk:
        b = sk[0]
        w = [bi for bi, t in b.calls() if 'write_keys_map' in callee(t)]
        v = [bi for bi, t in b.calls() if 'mark_op_log_as_valid' in callee(t)]
        # what is written is the whole in-memory key map (a clone of it), not a filtered subset: every id the log may name is stored
        whole = True
        why_w = ''
        from nl.locks import backward_slice
        for x in w:
            arg = b.term(x)['args'][0]
            calls_, _ = backward_slice(b, arg)
            leafs = {callee_decl(b.term(c)).split('::')[-1] for c in calls_}
            shrink = leafs & {'retain', 'remove', 'filter', 'filter_map', 'drain', 'take', 'skip', 'truncate', 'clear', 'extract_if'}
            mut_calls = [bi2 for bi2, t2 in b.calls() if callee_decl(t2).split('::')[-1] in ('retain', 'remove', 'clear', 'drain', 'extract_if')
                         and 'HashMap::<std::string::String, u64' in t2['f'].get('dargs', '') and b.dominates(bi2, x)]
            if shrink or mut_calls:
                whole = False
                why_w = sorted(shrink | {callee_decl(b.term(c)).split('::')[-1] for c in mut_calls})
        ck.ob('C16.b', short(b.id), 'whole-key-map-written', bool(w) and whole,
              'the keys snapshot stores the whole key map' if w and whole else
              'the keys snapshot stores a subset of the key map (%s): records of the omitted keys no longer decode after a restart and their ids '
              'are handed out again (ids are taken from the map\'s length)' % why_w, '%s:%s' % (b.file, b.line))
        ok = bool(w) and bool(v) and all(b.dominates(x, y) for x in w for y in v)
        ck.ob('C16.b', short(b.id), 'map-before-valid', ok,
              'the key map is written before the log is marked valid' if ok else 'the log can be marked valid before the key map is on disk', '%s:%s' % (b.file, b.line))
        # "written" means written: the writer of the key map returns normally only if the open and the write succeeded — its fallible
        # calls are unwrapped (or its Result is returned and tested here).  A writer that logs the error and returns lets the flag be
        # set over a missing / stale keys file; the log is then kept although its ids are unknown
        for x in w:
            wb_ = P.bodies.get(callee(b.term(x)))
            if wb_ is None:
                continue
            scope = [wb_] + [P.bodies[k] for k in P.bodies if k.startswith(wb_.id + '::{closure')]
            swallowed, nf_ = [], 0
            returns_result = wb_.locals[0].startswith('std::result::Result<')
            for sb_ in scope:
                for bi2, t2 in sb_.calls():
                    dloc = t2['d']['l'] if not t2['d'].get('p') else None
                    if dloc is None or not sb_.locals[dloc].startswith('std::result::Result<'):
                        continue
                    d2 = callee_decl(t2)
                    if not (d2.startswith(('std::fs::', 'std::io::', 'bincode::')) or 'serialize' in d2):
                        continue
                    nf_ += 1
                    users = [callee_decl(t3) for x3, t3 in sb_.calls() if any(r[0] == 'call' and r[1] == bi2 for a in t3['args']
                                                                            for r in origins(sb_, a, stop_at_calls=True))]
                    if any(u.endswith(('Result::unwrap', 'Result::expect')) for u in users):
                        continue
                    swallowed.append('%s@%s' % (d2.split('::')[-1], sb_.loc(bi2)))
            ok_w = not swallowed or returns_result
            ck.ob('C16.b', short(wb_.id), 'key-map-write-cannot-fail-silently', ok_w and nf_ > 0,
                  'every fallible step of the key-map writer is unwrapped: the function returns only after a successful write' if ok_w and nf_ > 0 else
                  'the key-map writer does not unwrap %s and returns normally: after an I/O error (disk full, too many open files) snapshot_keys '
                  'still marks the log valid — the flag says valid over a missing or stale keys file, no later round rewrites it, and after a '
                  'restart the kept log names ids the keys file does not know (the next new key reuses one)' % swallowed, '%s:%s' % (wb_.file, wb_.line))
    shr = []
    nk = 0
    for b2 in P.user_bodies():
        if b2.id.startswith(('nundb::client::', 'nundb::command_line::')):
            continue
        for bi2, t2 in b2.calls():
            if not t2['f'].get('dargs', '').startswith(KM):
                continue
            nk += 1
            if callee_decl(t2).split('::')[-1] in ('remove', 'remove_entry', 'retain', 'clear', 'drain', 'extract_if'):
                shr.append('%s@%s' % (short(b2.id), b2.loc(bi2)))
    ck.ob('C16.e', 'keys_map', 'key-map-only-grows', not shr,
          'no entry is ever taken out of the key map (%d uses examined)' % nk if not shr else
          'an entry is removed from the key map at %s: the allocator hands out `len()` as the next id, so after the map shrank the next new key '
          'receives the id of a key that is still alive — the records of that key decode to the new one, in this life and (the keys snapshot '
          'stores both under one id) after every restart' % shr, shr[0] if shr else '')
    ck.floor('C16.e', nk, 4, 'uses of the key -> id map')
    # flag writers keep memory and disk equal
    for name, want in (('invalidate_oplog', False), ('mark_op_log_as_valid', True)):
        fs = [b for b in P.user_bodies() if b.id.endswith('disk_ops::' + name)]
        if not fs:
            continue
        b = fs[0]
        mem = []
        for bi, t in b.calls():
            d = callee_decl(t)
            if d.startswith('std::sync::atomic::Atomic') and d.split('::')[-1] in ('swap', 'store'):
                if any(any(s[0] == 'f' and s[2] == 'is_oplog_valid' for s in r[-1]) for r in origins(b, t['args'][0])):
                    mem += [const_val(r) for r in origins(b, t['args'][1])]
        disk = []
        for bi, t in b.calls():
            if callee_decl(t) in ('std::io::Write::write', 'std::io::Write::write_all'):
                for r in origins(b, t['args'][1]):
                    if r[0] == 'agg':
                        rv = b.blocks[r[1]]['s'][r[2]]['r']
                        disk += [const_val(x) for op in rv['ops'] for x in origins(b, op)]
                    elif r[0] == 'const':
                        v_ = const_val(r)
                        if isinstance(v_, str):
                            v_ = [ord(ch) for ch in v_]
                        disk += list(v_) if isinstance(v_, list) else [v_]
        # the flag is one byte at offset 0: a writer that keeps its stream (the replication loop's) must rewind before each write,
        # a writer that opens the file itself starts at 0
        wcalls = [bi for bi, t in b.calls() if callee_decl(t) in ('std::io::Write::write', 'std::io::Write::write_all')]
        rewinds = [bi for bi, t in b.calls() if callee_decl(t) in ('std::io::Seek::seek', 'std::io::Seek::rewind')]
        opens = [bi for bi, t in b.calls() if P.bodies.get(callee(t)) is not None and 'File' in P.bodies[callee(t)].locals[0]]
        at_zero = bool(wcalls) and all(any(b.dominates(r_, w_) for r_ in rewinds) for w_ in wcalls)
        if not at_zero and opens and not rewinds:
            at_zero = all(any(b.dominates(o_, w_) for o_ in opens) for w_ in wcalls)
        ck.ob('C16.b', short(b.id), 'flag-written-at-offset-zero', at_zero,
              'the flag byte is written after a rewind to offset 0' if at_zero else
              '%s writes the flag byte without rewinding its stream: a long-lived stream writes the second and later flags at offset 1, 2, … '
              'while the reader looks at offset 0 — the disk keeps saying valid after a new key was logged' % name, '%s:%s' % (b.file, b.line))
        ok = mem == [want] and disk == [1 if want else 0]
        ck.ob('C16.b', short(b.id), 'memory-equals-disk', ok,
              '%s stores %s in memory and writes %s to the file' % (name, mem, disk), '%s:%s' % (b.file, b.line))
    # start-up
    try:
        sb, cbi, db_, vbi, hbi = repl.startup_unit(m)
    except core.AnchorError as e:
        ck.undecided('C16.b', 'start-up', 'anchor', str(e))
        sb = None
    if sb is not None:
        cleans = [bi for bi, t in db_.calls() if 'clean_op_log_metadata' in callee(t)]
        # does the clean remove the flag file?  (then the file reads as valid afterwards)
        removes_flag = False
        for bi in cleans:
            cb = P.bodies.get(callee(db_.term(bi)))
            if cb is not None and any('remove_invalidate' in callee(t) for _, t in cb.calls()):
                removes_flag = True
        arg = sb.term(cbi)['args'][-1]
        bad = []
        sws = bool_switches(db_, vbi)
        handed = origins(sb, arg, stop_at_calls=True)
        if hbi is None:
            loc = (arg.get('m') or arg.get('c') or {}).get('l')
            raw = any(r[0] == 'call' and r[1] == vbi for r in handed)
        else:
            # the deciding helper's return value is what is handed on
            if not any(r[0] == 'call' and r[1] == hbi for r in handed):
                bad.append('the value handed to Databases does not come from the start-up decision')
            loc = 0
            raw = any(r[0] == 'call' and r[1] == vbi for r in core.place_origins(db_, {'l': 0}, stop_at_calls=True))
        if raw and removes_flag:
            # the value read is handed on unchanged: wrong on the invalid branch if the clean removed the file
            bad.append('the flag read (false) is handed on although the clean removed the flag file (which now reads valid)')
        # constant assignments per branch
        for (sbi, tt, ft) in sws:
            for (dbi, dsi, kind, pl) in _const_defs(db_, loc):
                val = pl
                if db_.dominates(ft, dbi) and not db_.dominates(tt, dbi):
                    if removes_flag and val is not True:
                        bad.append('invalid branch stores %s in memory while the cleaned disk reads valid' % val)
                    if not removes_flag and val is not False:
                        bad.append('invalid branch stores %s in memory while the disk flag stays invalid' % val)
                if db_.dominates(tt, dbi) and not db_.dominates(ft, dbi) and val is not True:
                    bad.append('valid branch stores %s' % val)
        ck.ob('C16.b', short(sb.id), 'start-up-memory-equals-disk', not bad,
              'the flag handed to Databases equals what the flag file reads as after the start-up decision' if not bad else '; '.join(bad),
              sb.loc(cbi))
        # the keys map must be loaded after the decision (a discarded map is not carried over)
        load = [bi for bi, t in sb.calls() if callee(t).endswith('load_keys_map_from_disk')]
        decision_sites = cleans if hbi is None else [hbi]
        okl = bool(load) and all(not any(sb.dominates(l_, c) for c in decision_sites) for l_ in load)
        ck.ob('C16.b', short(sb.id), 'keys-map-loaded-after-clean', okl,
              'the keys map is read after the invalid-log clean-up' if okl else
              'the keys map is loaded before the clean-up and carried into the fresh log', sb.loc(load[0]) if load else '')
    # ---- (d) ---------------------------------------------------------------------------
    n = 0
    for b in P.user_bodies():
        if b.id.startswith(('nundb::client::', 'nundb::command_line::')):
            continue
        for bi, t in b.calls():
            if callee(t).endswith('bo::DatabaseMataData::new') and len(t['args']) == 2:
                n += 1
                kinds = set()
                for r in origins(b, t['args'][0], stop_at_calls=True):
                    if r[0] == 'const':
                        kinds.add('literal:%s' % const_val(r))
                    elif r[0] == 'call':
                        d = callee_decl(b.term(r[1]))
                        if d.split('::')[-1] in ('len', 'count'):
                            kinds.add('length')
                        elif d.endswith('from_le_bytes'):
                            kinds.add('stored')
                        else:
                            kinds.add('call:' + d.split('::')[-1])
                    elif r[0] == 'param':
                        kinds.add('param')
                    else:
                        kinds.add(r[0])
                ok = kinds <= {'literal:0', 'stored', 'param'}
                why = 'database id comes from %s' % sorted(kinds)
                if 'length' in kinds:
                    why += ': ids from a count collide after a restart that loaded only the snapshotted subset (A(1), B(2) created, only B ' \
                           'snapshotted, restart, create C -> id 2 again)'
                if any(k.startswith('literal:') and k != 'literal:0' for k in kinds):
                    why += ': every database loaded by this strategy shares one id'
                ck.ob('C16.d', short(b.id), 'db-id-origin:%s' % '+'.join(sorted(kinds)), ok, why, b.loc(bi))
    # ... nor is the id of an existing metadata record overwritten: the id a database was created or LOADED with is the one its oplog
    # records carry; re-numbering it where databases are registered (by position, by count) makes the log of the previous run decode to
    # another database after the restart while the flag still says valid
    for b in P.user_bodies():
        if b.id.startswith(('nundb::client::', 'nundb::command_line::')):
            continue
        for bi, bl in enumerate(b.blocks):
            if bl.get('cleanup'):
                continue
            for s_ in bl['s']:
                if s_['k'] != 'assign' or not s_['l'].get('p'):
                    continue
                last = [e for e in s_['l']['p'] if e[0] == 'f'][-1:]
                if last and last[0][3] == 'id' and str(last[0][2]).endswith('DatabaseMataData'):
                    n += 1
                    ck.ob('C16.d', short(b.id), 'db-id-overwritten', False,
                          '%s assigns DatabaseMataData.id of an existing record (%s): a database loaded from disk loses the id its oplog records '
                          'were written with — after a restart the kept log decodes to another database or to none' % (short(b.id), b.loc(bi)), b.loc(bi))
    ck.floor('C16.d', n, 5, 'database metadata constructions')


def _const_defs(b, local, _seen=None):
    """(block, _, _, constant) for boolean constants that may flow into local"""
    seen = _seen or set()
    out = []
    if local is None or local in seen:
        return out
    seen.add(local)
    for (bi, si, kind, pl) in b.defs().get(local, []):
        if kind == 'assign' and pl['k'] == 'use':
            o = pl['o']
            if 'k' in o:
                out.append((bi, si, kind, o['k'].get('v')))
            else:
                p = o.get('m') or o.get('c')
                if p and not p.get('p'):
                    out += _const_defs(b, p['l'], seen)
    return out


def _removes_files(P, bid, seen=None):
    seen = seen if seen is not None else set()
    if bid in seen or bid not in P.bodies:
        return False
    seen.add(bid)
    for _bi, t in P.bodies[bid].calls():
        if callee_decl(t) in ('std::fs::remove_file', 'std::fs::remove_dir_all') or _removes_files(P, callee(t), seen):
            return True
    return False


def discard_is_total(ck, m):
    """C16.g — see RULES"""
    P = m.prog
    ck.rule('C16.g', 'a discarded log is discarded whole: in the function that throws the operation log away every step — the flag file, the live '
                     'file, the listing of the rotated files — is reached on every path; an early way out ("no live file, nothing else to clean") '
                     'leaves rotated files behind whose records name key ids that the emptied key map is about to hand out again')
    cands = [b for b in P.user_bodies() if b.kind in ('fn', 'method') and b.id.startswith('nundb::disk_ops::')
             and any(callee_decl(t) == 'std::fs::read_dir' for _, t in b.calls())
             and any(callee_decl(t) == 'std::fs::remove_file' for _, t in b.calls())
             and sum(1 for _, t in b.calls() if callee(t) in P.bodies and _removes_files(P, callee(t))) >= 2]
    n = 0
    for b in cands:
        n += 1
        steps = [(bi, 'read_dir') for bi, t in b.calls() if callee_decl(t) == 'std::fs::read_dir'] + \
                [(bi, short(callee(t))) for bi, t in b.calls() if callee(t) in P.bodies and _removes_files(P, callee(t))]
        skipped = sorted('%s (%s)' % (nm, b.loc(bi)) for bi, nm in steps if not b.postdominates(bi, 0))
        ck.ob('C16.g', short(b.id), 'discard-is-total', not skipped,
              'every one of the %d steps of the discard is reached on every path' % len(steps) if not skipped else
              'the discard can end before %s: part of the log outlives the discard although the key map and the flag were reset' % skipped,
              '%s:%s' % (b.file, b.line))
    ck.floor('C16.g', n, 1, 'functions that discard the operation log (flag file, live file, rotated files)')


def metadata_written_by_every_snapshot(ck, m):
    """C16.h — see RULES"""
    P = m.prog
    ck.rule('C16.h', 'every completed snapshot leaves the metadata file (database id, conflict strategy) behind: the call that writes it is reached '
                     'on every path of the snapshot writer — a database whose metadata write was lost to a kill gets it back with the next snapshot '
                     'instead of coming back, after the next restart, under the fall-back id that another database may own by then')
    wr = [b for b in P.user_bodies() if b.id.endswith('NodeDrive::storage_data_disk')]
    if not wr:
        ck.undecided('C16.h', 'writer', 'anchor', 'disk snapshot writer not found')
        return
    wb = wr[0]
    mw = []
    for bi, t in wb.calls():
        cb = P.bodies.get(callee(t))
        if cb is None:
            continue
        fam = [cb] + [P.bodies[k] for k in P.bodies if k.startswith(cb.id + '::{closure')]
        reads_meta = any(any(e[0] == 'f' and str(e[2]).endswith('bo::DatabaseMataData') for e in (s_.get('r', {}).get('p') or {}).get('p', ()))
                         or any(e[0] == 'f' and str(e[2]).endswith('bo::DatabaseMataData')
                                for o in ([s_.get('r', {}).get('o')] if s_.get('r', {}).get('o') else [])
                                for e in ((o.get('c') or o.get('m') or {}).get('p', ())))
                         for x in fam for bl in x.blocks for s_ in bl['s'] if s_['k'] == 'assign')
        writes = any(callee_decl(t2).startswith(('std::io::Write::write', 'std::fs::write')) for x in fam for _, t2 in x.calls())
        if reads_meta and writes:
            mw.append(bi)
    okf = bool(mw) and any(wb.postdominates(x, 0) for x in mw)
    ck.ob('C16.h', short(wb.id), 'metadata-written-by-every-snapshot', okf,
          'the metadata writer is called on every path of the snapshot writer' if okf else
          'the snapshot writer can finish without writing the metadata file (calls: %s): id and strategy of the database are restored from the '
          'fall-back (the number of databases loaded so far, Newer) after the next restart' % [wb.loc(x) for x in mw], '%s:%s' % (wb.file, wb.line))


def every_listed_database_is_loaded(ck, m):
    """C16.i — see RULES"""
    from nl import locks
    P = m.prog
    ck.rule('C16.i', 'every database file the start-up listing finds becomes a database (or the start fails): in the per-entry loader the call that '
                     'registers the loaded database depends on the directory entry and on the `.keys` suffix test only — a loader that skips a database '
                     '(a missing values file, a short file) comes up without it while its identifier is still in the kept operation log, and the next '
                     'create-db is handed an id that a loaded database already owns')
    cands = [b for b in P.user_bodies() if b.kind in ('fn', 'method') and b.id.startswith('nundb::storage::disk::')
             and any(callee(t).endswith('bo::Databases::add_database') for _, t in b.calls())
             and any(callee(t).endswith('create_db_from_file_name') for _, t in b.calls())]
    ALLOWED = ('ends_with', 'file_name', 'into_string', 'unwrap', 'deref', 'as_str', 'as_ref', 'to_string', 'clone', 'to_str', 'to_string_lossy', 'borrow',
               'as_os_str', 'to_owned', 'expect')
    n = 0
    for b in cands:
        for bi, t in b.calls():
            if not callee(t).endswith('bo::Databases::add_database'):
                continue
            n += 1
            bad = []
            for sw in locks.controlling_switches(b, bi):
                calls_, _pp = locks.backward_slice(b, b.term(sw)['o'], control=True)
                for c in sorted(calls_):
                    tc = b.term(c)
                    if is_log(tc):
                        continue
                    leaf = callee_decl(tc).split('::')[-1]
                    if leaf not in ALLOWED:
                        bad.append('%s (%s)' % (callee_decl(tc), b.loc(c)))
            ck.ob('C16.i', short(b.id), 'every-listed-database-is-loaded', not bad,
                  'the database of every `.keys` entry is loaded and registered' if not bad else
                  'whether a listed database is loaded also depends on %s: a database that is skipped keeps its records in the operation log '
                  'while its id is free for the next create-db' % sorted(set(bad))[:3], b.loc(bi))
    ck.floor('C16.i', n, 1, 'registrations of a loaded database')
