"""nun-db specific anchors, located by semantic predicates over the facts (types, enum
variants, protocol constants) rather than by function name.  Names are used for labels only.
"""
import json
from . import core
from .core import origins, callee, callee_decl, is_log, AnchorError
from .interp import Explorer
from .effects import Fx

REQUEST = 'nundb::bo::Request'
RESPONSE = 'nundb::bo::Response'


def short(fn):
    """label of a body id without the crate/module prefix"""
    parts = fn.split('::')
    if '{closure' in parts[-1] or '{promoted' in parts[-1]:
        i = len(parts) - 1
        while i > 0 and ('{closure' in parts[i] or '{promoted' in parts[i]):
            i -= 1
        return '::'.join(parts[max(0, i - 1):]) if parts[i - 1][0].isupper() or '<' in parts[i - 1] else '::'.join(parts[i:])
    if len(parts) >= 2 and (parts[-2][:1].isupper() or parts[-2].startswith('<')):
        return '::'.join(parts[-2:])
    return parts[-1]


class Model:
    def __init__(self, prog):
        self.prog = prog
        self._disp = None
        self._guards = None
        self._arm_fx = {}
        self._ex = None
        self._repl = None
        self._lister = None

    # ---------------------------------------------------------------- dispatcher
    def request_switch(self, body):
        """the dominating switch over discriminant(Request) in `body`: (bi, {Variant: target}, else)"""
        cands = []
        for bi in sorted(body.reachable()):
            t = body.term(bi)
            if t['k'] != 'switch' or len(t['targets']) < 5:
                continue
            for r in origins(body, t['o']):
                if r[0] == 'discr':
                    rv = body.blocks[r[1]]['s'][r[2]]['r']
                    if rv['adt'] == REQUEST:
                        cands.append(bi)
        if not cands:
            return None
        # drop elaboration adds "drop ladders" that also switch on the discriminant; the real
        # match is the switch with the most arms that contain a call (ladders only drop)
        def real_arms(bi):
            t = body.term(bi)
            n = 0
            for tb in {tb for _, tb in t['targets']}:
                st, seen = [tb], set()
                found = False
                while st and not found and len(seen) < 12:
                    x = st.pop()
                    if x in seen:
                        continue
                    seen.add(x)
                    tt = body.term(x)
                    if tt['k'] == 'call' or any(s['k'] == 'assign' and s['r']['k'] == 'agg' for s in body.blocks[x]['s']):
                        found = True
                    elif tt['k'] in ('goto', 'drop', 'switch'):
                        st.extend(body.succ(x))
                n += found
            return n
        scored = sorted(((real_arms(c), -c, c) for c in cands), reverse=True)
        if scored[0][0] < 3:
            return None
        bi = scored[0][2]
        t = body.term(bi)
        tm = {}
        for v, tb in t['targets']:
            name = self.prog.variant_of_discr(REQUEST, v)
            tm[name] = tb
        return bi, tm, t['else']

    def dispatcher(self):
        """the request dispatcher: the unique body returning Response whose dominating switch
        over discriminant(Request) has >= 30 arms"""
        if self._disp is None:
            found = []
            for b in self.prog.user_bodies():
                if b.locals[0] != RESPONSE or b.kind not in ('fn', 'method'):
                    continue
                sw = self.request_switch(b)
                if sw and len(sw[1]) >= 30:
                    found.append((b, sw))
            if len(found) != 1:
                raise AnchorError('request dispatcher: expected exactly one body switching over >=30 '
                                  'Request variants and returning Response, found %d' % len(found))
            self._disp = found[0]
        return self._disp

    def variants(self):
        return [v['name'] for v in self.prog.adts[REQUEST]['variants']]

    def arm_region(self, body, sw, variant):
        bi, tm, els = sw
        tb = tm.get(variant)
        if tb is None:
            return None
        # several variants may share one target (then the region is shared)
        return {x for x in body.reachable() if body.dominates(tb, x)}

    def replication_table(self):
        """the body that maps a handled Request to replication-stream messages: takes a Request
        by value and a Response, returns Response, switches over the Request discriminant"""
        if self._repl is None:
            found = []
            for b in self.prog.user_bodies():
                if b.locals[0] != RESPONSE or b.kind not in ('fn', 'method'):
                    continue
                if REQUEST not in b.locals[1:b.argc + 1] or RESPONSE not in b.locals[1:b.argc + 1]:
                    continue
                sw = self.request_switch(b)
                if sw:
                    found.append((b, sw))
            if len(found) != 1:
                raise AnchorError('replication table: expected one body (Request, Response) -> Response '
                                  'switching over Request, found %d' % len(found))
            self._repl = found[0]
        return self._repl

    # ---------------------------------------------------------------- guards
    def guards(self):
        """guard functions: local fns returning Response that take a `&dyn Fn(..) -> Response`.
        Classified by signature; their *behaviour* is checked by the guard-predicate rules."""
        if self._guards is None:
            G = {}
            for b in self.prog.user_bodies():
                if b.kind not in ('fn', 'method') or b.locals[0] != RESPONSE:
                    continue
                fnp = [i for i in range(1, b.argc + 1)
                       if b.locals[i].startswith('&dyn ') and 'Fn(' in b.locals[i] and b.locals[i].endswith('-> ' + RESPONSE)]
                if len(fnp) != 1:
                    continue
                ptypes = [b.locals[i] for i in range(1, b.argc + 1)]
                spec = {'fn_param': fnp[0], 'key_param': None, 'perm_param': None, 'name': b.id}
                for i, ty in enumerate(ptypes, 1):
                    if 'PermissionKind' in ty:
                        spec['perm_param'] = i
                if any(core.is_atomic_bool_ty(ty) for ty in ptypes):
                    spec['kind'] = 'admin'
                    spec['auth_param'] = [i for i, ty in enumerate(ptypes, 1) if core.is_atomic_bool_ty(ty)][0]
                elif any(ty == 'std::option::Option<&std::string::String>' for ty in ptypes):
                    spec['kind'] = 'dbname_perm'
                    spec['key_param'] = [i for i, ty in enumerate(ptypes, 1) if ty == 'std::option::Option<&std::string::String>'][0]
                elif ptypes.count('&std::string::String') == 1 and 'nundb::bo::PermissionKind' in ptypes:
                    spec['kind'] = 'safe'
                    spec['key_param'] = ptypes.index('&std::string::String') + 1
                elif ptypes.count('&std::string::String') == 1 and '&nundb::bo::PermissionKind' in ptypes:
                    spec['kind'] = 'dbname'
                elif not any('String' in ty for ty in ptypes) and any('Client' in ty for ty in ptypes):
                    spec['kind'] = 'db'
                else:
                    spec['kind'] = 'unknown-guard'
                G[b.id] = spec
            self._guards = G
        return self._guards

    def guard_of_kind(self, kind):
        r = [(n, s) for n, s in self.guards().items() if s['kind'] == kind]
        if len(r) != 1:
            raise AnchorError('guard of kind %s: expected exactly one, found %d' % (kind, len(r)))
        return self.prog.bodies[r[0][0]], r[0][1]

    # ---------------------------------------------------------------- listing function
    def lister(self):
        """list_keys: the method of Database returning Vec<String> that takes (&String, bool)"""
        if self._lister is None:
            found = []
            for b in self.prog.user_bodies():
                if b.kind == 'method' and b.locals[0] == 'std::vec::Vec<std::string::String>' and b.argc == 3 \
                        and b.locals[1] == '&nundb::bo::Database' and b.locals[3] == 'bool':
                    found.append(b)
            if len(found) != 1:
                raise AnchorError('key lister: expected one Database method (&String, bool) -> Vec<String>, '
                                  'found %d' % len(found))
            self._lister = found[0]
        return self._lister

    # ---------------------------------------------------------------- exploration
    def explorer(self):
        if self._ex is None:
            G = self.guards()
            reentry = self.reentry_names()

            def rec(cb):
                s = G.get(cb.id)
                if s is None or s['kind'] == 'unknown-guard':
                    return None
                return s
            summaries = {}
            try:
                summaries[self.lister().id] = 'listed'
            except AnchorError:
                pass
            self._ex = Explorer(self.prog, guard_recognizer=rec, stop_at=lambda n: n in reentry,
                                summaries=summaries)
            self._fx = Fx(self._ex)
        return self._ex

    def fx(self):
        self.explorer()
        return self._fx

    def reentry_names(self):
        """bodies that call the dispatcher directly (process_request): exploring an arm stops
        there and reports a re-dispatch event instead of recursing"""
        d = self.dispatcher()[0]
        out = set()
        for (b, bi) in self.prog.callers().get(d.id, []):
            out.add(b.id)
        return out

    def arm_effects(self, variant):
        """[(Event, kind, info)] for everything reachable from the dispatcher arm of variant"""
        if variant in self._arm_fx:
            return self._arm_fx[variant]
        body, sw = self.dispatcher()
        region = self.arm_region(body, sw, variant)
        ex = self.explorer()
        fx = self.fx()
        out = []
        raw = []
        if region is not None:
            top = ex.top_frame(body)

            def on(ev):
                raw.append(ev)
                for kind, info in fx.classify(ev):
                    out.append((ev, kind, info))
            ex._stack = []
            ex.walk(top, on, block_filter=region)
        self._arm_fx[variant] = (out, raw)
        return self._arm_fx[variant]

    def effects_from(self, body, block_filter=None):
        """explore from an arbitrary root body with symbolic parameters"""
        ex = self.explorer()
        fx = self.fx()
        out, raw = [], []
        top = ex.top_frame(body)

        def on(ev):
            raw.append(ev)
            for kind, info in fx.classify(ev):
                out.append((ev, kind, info))
        ex._stack = []
        ex.walk(top, on, block_filter=block_filter)
        return out, raw

    # ---------------------------------------------------------------- helpers on guard stacks
    @staticmethod
    def in_guard(guards):
        return any(g[0] == 'in-guard' for g in guards)

    @staticmethod
    def has_admin(guards):
        return any(g[0] in ('admin', 'admin-inline') for g in guards)

    @staticmethod
    def entries(guards, kind):
        return [g for g in guards if g[0] == kind]

    def secure_prefix(self):
        """the `$$` constant as used by the secure-key guard (value of the starts_with argument)"""
        gb, spec = self.guard_of_kind('safe')
        vals = set()
        for bi, t in gb.calls():
            if callee_decl(t) == 'std::str::starts_with' and len(t['args']) > 1:
                for r in origins(gb, t['args'][1]):
                    s = core.const_str(r)
                    if s is not None:
                        vals.add(s)
        if len(vals) != 1:
            raise AnchorError('secure-key guard: expected one constant prefix in its starts_with test, found %r' % (vals,))
        return next(iter(vals))

    def key_is_provably_not_secure(self, vals, prefix='$$'):
        """every abstract value of the key is a string whose literal prefix is known, is at least
        as long as the secure prefix and does not start with it"""
        ex = self.explorer()
        if not vals:
            return False
        for v in vals:
            lit, whole = ex.literal_prefix(v)
            if lit is None:
                return False
            if lit.startswith(prefix):
                return False
            if len(lit) < len(prefix) and not whole:
                # a short literal followed by a variable part could still complete the prefix
                if prefix.startswith(lit):
                    return False
        return True

    def key_is_constant_secure(self, vals, prefix='$$'):
        ex = self.explorer()
        if not vals:
            return False
        for v in vals:
            lit, whole = ex.literal_prefix(v)
            if lit is None or not lit.startswith(prefix):
                return False
        return True

    def enum_const(self, vals):
        """names of fieldless enum variants among abstract values (const or aggregate)"""
        ex = self.explorer()
        out = set()
        for v in vals:
            if v[0] == 'agg':
                fr = ex.frames[v[1]]
                rv = fr.body.blocks[v[2]]['s'][v[3]]['r']
                if rv.get('variant'):
                    out.add(rv['variant'])
                    continue
            if v[0] == 'const':
                c = json.loads(v[1])
                if c.get('variant'):
                    out.add(c['variant'])
                    continue
            out.add('?')
        return out
