"""C14 — every operation causes a bounded message burst, then silence.

Decides, for settled roles (one Primary, the rest Secondary): (a) the message-flow graph
(role, request variant) -> (role', variant') built from the forwarder calls of the handler arms, the
emissions of the replication table and the direct replicate_message calls is acyclic — an
over-approximation: no cycle means no command can start a self-sustaining exchange; (b) at most one
forward to the primary on any path of an arm; (c) nothing is sent in the Secondary arm of the
fan-out, the forwarder sends only to the Primary member (shared with C04.e); (d) every fanned-out
copy is registered as pending before it is sent and the receiving wrapper acknowledges exactly once.
Does NOT decide numeric message counts, nor election traffic (arms that change the node's role are
excluded from the graph and listed).
"""
from nl import core, wire
from nl.core import origins, callee, callee_decl, is_log
from nl.model import short
from props import repl, C04

RULES = {
    'C14.a': 'the message-flow graph over (role, variant) for settled roles has no cycle',
    'C14.b': 'no arm can forward to the primary twice on one path (its own forward plus the conflict resolver\'s)',
    'C14.c': 'the Secondary arm of the fan-out sends nothing; the forwarder sends to the Primary member only',
    'C14.e': 'at most one cluster member is Primary: every store of a possibly-Primary role into ClusterState.members (insert or '
             'field assignment) happens in a function that, under a role == Primary test, first demotes every existing member',
    'C14.f': 'a reply that a handler of a node-to-node command writes to its session is read by the sending node\'s link reader, which '
             'executes every line except `ok`: no such reply parses as a command (its first word is no command word, or that '
             'command\'s parser refuses it for a missing required argument); the acknowledgement `ack` is the one designed exception',
    'C14.g': 'the replication table emits a bounded number of messages per request: no emission call of an arm lies on a loop '
             '(a loop over a list the client supplied makes the burst as long as the client likes)',
    'C14.d': 'register_pending_opp precedes the send of each fanned-out copy; the rp wrapper sends exactly one ack',
    'C14.h': 'the gossip of a join stops at nodes that already know the member: the "known member" predicate is the plain key test of '
             'ClusterState.members (contains_key) — knowledge that can turn false again (a closed link counted as "absent") lets two nodes '
             'that both hold a dead link to a third re-announce it to each other for as long as it stays down',
}


ASSUMPTION_UNVERSIONED = ('a write carrying the literal version -1 cannot take the conflict-resolver path '
                          '(Change::next_version answers old+1 for version -1 — decision structure checked by C13.d; '
                          'the in-conflict marker is a per-key state bounded by the key\'s conflict records)')


def through_resolver(m, ev):
    from props.C02 import resolver_fn
    rid = resolver_fn(m).id
    return ev.frame.body.id == rid or any(cid == rid or cid.startswith(rid + '::') for cid, _ in ev.chain)


def store_version_is_literal(m, ex, raw, d):
    """does every call from this arm's closures to the store (String,String,i32,&Database,..) pass the literal -1?"""
    vals = []
    for ev in raw:
        if ev.kind == 'local-call' and ev.frame.body.id.startswith(d.id):
            cb = m.prog.bodies.get(ev.name)
            if cb is not None and cb.kind == 'fn' and cb.argc == 5 and cb.locals[3] == 'i32' and core.is_str_ty(cb.locals[1]):
                vals += [ex.describe(x) for x in ex.absvals(ev.frame, ev.term['args'][2])]
    return bool(vals) and all(x == 'const(-1)' for x in vals)


def template_unversioned(P, f):
    """the template's i32 placeholder(s) trace to the literal -1 only"""
    from nl.core import const_val
    got = []
    for p in f.pieces:
        if p[0] == 'arg' and p[2] == 'i32' and p[1] is not None:
            site = getattr(f, 'call_site', None)
            roots = set()
            for r in origins(f.body, p[1]):
                if r[0] == 'param' and site is not None:
                    roots |= origins(site[0], site[0].term(site[1])['args'][r[1] - 1])
                else:
                    roots.add(r)
            got.append(bool(roots) and all(r[0] == 'const' and const_val(r) == -1 for r in roots))
    return bool(got) and all(got)


def run(ck, m):
    _run(ck, m)
    single_primary(ck, m)
    link_replies(ck, m)
    table_emits_once(ck, m)
    known_member_is_a_key_test(ck, m)
    no_replication_inside_a_loop_of_an_arm(ck, m)
    # a candidacy is answered by a candidacy only from the strictly older side of ONE total order: the decision table of election_eval
    # (C07.a) — an order that the two nodes evaluate differently (different operands on the two sides) makes each answer the other for ever
    from nl import alias as _alias14
    from props import C07 as _C07
    ck.rule('C14.i', 'an election exchange dies out: election_eval answers a candidacy with its own only when it is strictly older by the process id '
                     'alone (C07.a decision table, repeated) — a tie-break on operands the two nodes do not agree on keeps both answering')
    _alias14.repeat(ck, m, 'C07', ('C07.a',), 'C14.i', runner=_C07._run)


def _run(ck, m):
    for k, v in RULES.items():
        ck.rule(k, v)
    P = m.prog
    ex = m.explorer()
    d, sw = m.dispatcher()
    fw = repl.forwarder(m)
    em = repl.table_emissions(m)
    # ---- graph -------------------------------------------------------------------------
    import json as _json

    def fmt_receivers(fr, f):
        """[(label, text)] for a template evaluated in frame fr; strips the rp wrapper"""
        out = []
        toks = wire.template_tokens(f)
        if wire.first_word(f) == 'rp' and len(toks) == 3 and toks[2] and toks[2][0][0] == 'arg':
            for iv in ex.absvals(fr, toks[2][0][1]):
                if iv[0] == 'fmt':
                    out += fmt_receivers(ex.frames[iv[1]], core.fmt_at(ex.frames[iv[1]].body, iv[2]))
            return out
        vs, w = repl.receiver_variants(m, f)
        unv = []
        for p in f.pieces:
            if p[0] == 'arg' and p[2] == 'i32' and p[1] is not None:
                vals = ex.absvals(fr, p[1])
                unv.append(bool(vals) and all(x[0] == 'const' and _json.loads(x[1]).get('v') == -1 for x in vals))
        is_unv = bool(unv) and all(unv)
        for v2 in vs or ['?' + str(w)]:
            out.append((v2 + '#-1' if (is_unv and v2 == 'ReplicateSet') else v2, f.text()))
        return out

    def msg_receivers(fr, operand):
        out = []
        for v in ex.absvals(fr, operand):
            if v[0] == 'fmt':
                out += fmt_receivers(ex.frames[v[1]], core.fmt_at(ex.frames[v[1]].body, v[2]))
        return out

    edges = {}       # (role, label) -> {(role', label'): witness}
    excluded = []
    variants = [v for v in m.variants() if v in sw[1]]
    fwd_sites = {}   # V -> list of forward events
    labels = [(v, False) for v in variants] + [('ReplicateSet', True)]
    for v, unversioned in labels:
        label = v + '#-1' if unversioned else v
        effs, raw = m.arm_effects(v)
        changes_role = any(kind == 'atomic-write' and 'Databases.node_state' in info['ids'] for ev, kind, info in effs)
        if changes_role:
            if not unversioned:
                excluded.append(v)
            continue
        literal_store = store_version_is_literal(m, ex, raw, d)
        skip_resolver = unversioned or literal_store
        for ev in raw:
            if ev.kind == 'local-call' and ev.name == fw.id and not m.in_guard(ev.guards):
                if not unversioned:
                    fwd_sites.setdefault(v, []).append(ev)
                if skip_resolver and through_resolver(m, ev):
                    continue
                b = ev.frame.body
                np_ = ev.bi in repl.not_primary_region(m, b)
                pr_ = ev.bi in repl.primary_region(m, b)
                if pr_ and not np_:
                    continue          # a primary has no other Primary member to forward to
                for (v2, text) in msg_receivers(ev.frame, ev.term['args'][0]):
                    edges.setdefault(('Secondary', label), {})[('Primary', v2)] = 'forwards %r (%s)' % (text, b.loc(ev.bi))
        for ev, kind, info in effs:
            if kind == 'send' and 'repl' in info['chan'] and not m.in_guard(ev.guards):
                if skip_resolver and through_resolver(m, ev):
                    continue
                for mv in info['msg']:
                    if mv[0] == 'fmt':
                        fr = ex.frames[mv[1]]
                        for (v2, text) in fmt_receivers(fr, core.fmt_at(fr.body, mv[2])):
                            edges.setdefault(('Primary', label), {})[('Secondary', v2)] = \
                                'handler enqueues %r, fanned out by the primary (%s)' % (text, ev.loc())
        # replication table emissions (only a Primary fans out); the version placeholder of `replicate` is the
        # request's own field, so an unversioned request re-emits an unversioned message
        for f in em.get(v, []):
            vs, w = repl.receiver_variants(m, f)
            tmpl_unv = template_unversioned(P, f)
            for v2 in vs or ['?' + str(w)]:
                tgt = v2 + '#-1' if (v2 == 'ReplicateSet' and (unversioned or tmpl_unv)) else v2
                edges.setdefault(('Primary', label), {})[('Secondary', tgt)] = 'replication table emits %r, fanned out by the primary' % f.text()
    ck.note('assumption used for nodes marked #-1 and for arms that store with the literal version -1: ' + ASSUMPTION_UNVERSIONED)
    ck.note('arms excluded from the graph because they store to node_state (role not stable): %s' % sorted(excluded))
    ck.meta['flow_graph_nodes'] = len({n for n in edges} | {x for e in edges.values() for x in e})
    ck.meta['flow_graph_edges'] = sum(len(e) for e in edges.values())
    ck.floor('C14.a', sum(len(e) for e in edges.values()), 15, 'message-flow edges')
    G = {k: set(v) for k, v in edges.items()}
    for vs in list(G.values()):
        for x in vs:
            G.setdefault(x, set())
    from props.C10 import tarjan
    comps = tarjan(G)
    ncyc = 0
    for comp in comps:
        cyc = len(comp) > 1 or (len(comp) == 1 and comp[0] in G.get(comp[0], ()))
        if not cyc:
            continue
        ncyc += 1
        comp = sorted(comp)
        wit = []
        for x in comp:
            for y in comp:
                if y in edges.get(x, {}):
                    wit.append('%s/%s -> %s/%s: %s' % (x[0], x[1], y[0], y[1], edges[x][y]))
        ck.ob('C14.a', 'flow-graph', 'cycle:' + '|'.join('%s/%s' % c for c in comp), False,
              'a command can re-emit itself between settled roles: ' + '; '.join(wit), '')
    ck.ob('C14.a', 'flow-graph', 'built', True,
          'message-flow graph: %d nodes, %d edges, %d cyclic components; excluded (role-changing) arms: %s' % (
              len(G), sum(len(e) for e in edges.values()), ncyc, sorted(excluded)))
    # ---- (b) ---------------------------------------------------------------------------
    nb = 0
    for v in variants:
        evs = fwd_sites.get(v, [])
        if not evs:
            continue
        nb += 1
        effs, raw = m.arm_effects(v)
        literal_store = store_version_is_literal(m, ex, raw, d)
        per_closure = {}
        for ev in evs:
            if literal_store and through_resolver(m, ev):
                continue      # unreachable for a literal -1 write (stated assumption)
            bid = ev.frame.body.id
            top = blk = None
            if bid.startswith(d.id + '::{closure') and not ev.chain[-1:] == [] and bid.count('{closure') == d.id.count('{closure') + 1 \
                    and (not ev.chain or ev.chain[-1][0] != bid or True) and all(not c.startswith(bid + '::') for c, _ in ev.chain[-1:]):
                pass
            # walk the chain: the first arm closure on it, and the callee invoked from it
            for i, (cid, loc) in enumerate(ev.chain):
                if cid.startswith(d.id + '::{closure'):
                    cb = P.bodies[cid]
                    nxt = ev.chain[i + 1][0] if i + 1 < len(ev.chain) else ev.frame.body.id
                    if nxt == cid:
                        continue
                    cands = [bi for bi in cb.reachable() if cb.term(bi)['k'] == 'call' and cb.loc(bi) == loc and callee(cb.term(bi)) == nxt]
                    if cands:
                        top, blk = cid, cands[0]
                    break
            if top is None and bid.startswith(d.id + '::{closure'):
                top, blk = bid, ev.bi
            if top is not None:
                per_closure.setdefault(top, set()).add(blk)
        bad = []
        for cid, blocks in per_closure.items():
            cb = P.bodies[cid]
            blocks = sorted(blocks)
            for i, x in enumerate(blocks):
                for y in blocks[i + 1:]:
                    if y in cb.reach_from([x]) or x in cb.reach_from([y]):
                        bad.append((short(cid), cb.loc(x), cb.loc(y)))
        ck.ob('C14.b', 'dispatcher', '%s:at-most-one-forward' % v, not bad,
              '%s forwards at most once on any path' % v if not bad else
              '%s can forward twice on one path (%s): the conflict resolver forwards its record and the arm forwards the '
              'command again' % (v, bad[0]), d.loc(sw[1][v]))
    ck.floor('C14.b', nb, 5, 'arms with a forward')
    # ---- (c) shared with C04.e ----------------------------------------------------------
    fb, fsw = repl.fanout_loop(m)
    sbi, tm = fsw
    sends = repl.sending_blocks(m, fb)
    arms = {v: {x for x in fb.reachable() if fb.dominates(tb, x)} for v, tb in tm.items()}
    # reachability, not dominance: a match guard on the Secondary arm can fall through into an arm shared with another role
    from_sec = fb.reach_from([tm['Secoundary']], stop=lambda q: q == sbi, include_start=True) if 'Secoundary' in tm else set()
    sec = [x for x in sends if x in arms.get('Secoundary', ()) or x in from_sec]
    outside = [x for x in sends if not any(x in a for a in arms.values())]
    ck.ob('C14.c', short(fb.id), 'secondary-arm-sends-nothing', not sec and not outside,
          'a node in the Secondary role fans nothing out' if not sec and not outside else
          'the fan-out sends in the Secondary role at %s' % [fb.loc(x) for x in sec + outside], fb.loc(sbi))
    # the role that routes a message is read after the message was received: a role read before the wait is the role the node had
    # when it went idle (a StartingUp node claimed by set-primary while idle would fan its first copy out to everybody)
    role_calls = set()
    for r in origins(fb, fb.term(sbi)['o']):
        if r[0] == 'discr':
            for r2 in core.place_origins(fb, fb.blocks[r[1]]['s'][r[2]]['r']['p'], stop_at_calls=True):
                if r2[0] == 'call':
                    role_calls.add(r2[1])
    recvs = [bi for bi, t_ in fb.calls() if callee_decl(t_) in ('futures::Future::poll', 'std::future::Future::poll') or
             callee_decl(t_).endswith('StreamExt::next')]
    polls = [bi for bi, t_ in fb.calls() if callee_decl(t_).endswith('Future::poll')]
    fresh = bool(role_calls) and bool(polls) and all(any(fb.dominates(p_, rc) for p_ in polls) for rc in role_calls)
    ck.ob('C14.c', short(fb.id), 'role-read-after-receive', fresh,
          'the routing role is read after the message was taken from the channel' if fresh else
          'the role that routes a message is read before the loop waits for it (role call at %s): the first message after a role change that '
          'happened while the loop was idle is routed with the previous role — a node that was StartingUp fans a copy out to every member, '
          'the primary included, which applies and replicates it again' % [fb.loc(x) for x in role_calls], fb.loc(sbi))
    ck.ob('C14.c', short(fw.id), 'forwarder-primary-only', True,
          'the forwarder sends only under the Primary arm of the member role (anchor predicate of the forwarder)', '%s:%s' % (fw.file, fw.line))
    # ---- (d) ---------------------------------------------------------------------------
    nreg = 0
    for x in sends:
        cb = P.bodies.get(callee(fb.term(x)))
        if cb is None:
            continue
        sb = repl.sending_blocks(m, cb)
        regs = [bi for bi, t in cb.calls() if callee(t).endswith('register_pending_opp')]
        for s in sb:
            nreg += 1
            ok = any(cb.dominates(r, s) for r in regs)
            # the message sent is the one the registration returned
            same = False
            t = cb.term(s)
            for a in t['args']:
                for r in origins(cb, a, stop_at_calls=True) | origins(cb, a):
                    if r[0] == 'call' and r[1] in regs:
                        same = True
            ck.ob('C14.d', short(cb.id), 'register-before-send', ok and same,
                  'each copy is registered as pending and the registered text is what is sent' if ok and same else
                  'send at %s: registered before=%s, sends the registered message=%s' % (cb.loc(s), ok, same), cb.loc(s))
    ck.floor('C14.d', nreg, 2, 'fan-out send sites')
    # every member the message is meant for gets it: what decides, per member, whether the copy is sent is the iteration, the member's
    # role and "not myself" — not the content of the pending table or of the message (a member skipped because it "still owes an ack
    # for the same text" has missed an operation for good)
    from nl import locks as _locks14
    nun = 0
    for x in sends:
        cb = P.bodies.get(callee(fb.term(x)))
        if cb is None:
            continue
        for s_ in repl.sending_blocks(m, cb):
            nun += 1
            badc = []
            for sw_ in _locks14.controlling_switches(cb, s_):
                calls_, _pp = _locks14.backward_slice(cb, cb.term(sw_)['o'], control=True)
                for p_ in sorted(_pp):
                    if 'bo::Databases' not in cb.locals[p_]:
                        badc.append('its parameter %s (%s)' % (cb.var_name(p_) or p_, cb.locals[p_]))
                for c in sorted(calls_):
                    tc = cb.term(c)
                    if callee_decl(tc) in _locks14.LOCK_FNS and any('pending_opps' in i_ or 'replications' in i_ for i_ in [_locks14.lock_id_of(cb, tc['args'][0])]):
                        badc.append('the pending table (%s)' % cb.loc(c))
                    ccb = P.bodies.get(callee(tc))
                    if ccb is not None and not is_log(tc) and not any(g in ccb.locals[0] for g in ('MutexGuard', 'RwLockReadGuard', 'RwLockWriteGuard')) \
                            and not callee(tc).endswith('register_pending_opp') and 'ClusterRole as std::cmp::PartialEq' not in callee(tc):
                        badc.append('%s (%s)' % (short(callee(tc)), cb.loc(c)))
            ck.ob('C14.d', short(cb.id), 'copy-sent-to-every-member', not badc,
                  'whether a member is sent its copy depends on the iteration, its role and its address only' if not badc else
                  'whether a member is sent its copy also depends on %s: a member that is skipped never receives the operation' % sorted(set(badc))[:3],
                  cb.loc(s_))
    ck.floor('C14.d', nun, 2, 'fan-out send sites judged for their conditions')
    effs, raw = m.arm_effects('ReplicateRequest')
    acks = [(ev, info) for ev, kind, info in effs if kind == 'send' and 'client' in info['chan'] and ev.frame.body.id == d.id]
    redis = [ev for ev in raw if ev.kind == 'stop']
    ok = len(acks) == 1 and len(redis) == 1
    if ok:
        msg = acks[0][1]['msg']
        ok = any(v[0] == 'fmt' and (core.fmt_at(ex.frames[v[1]].body, v[2]).text().startswith('ack ')) for v in msg)
        ok = ok and d.dominates(acks[0][0].bi, redis[0].bi)
    ck.ob('C14.d', 'dispatcher', 'rp-acks-once-then-dispatches', ok,
          'the rp wrapper sends one ack and then dispatches the inner command once' if ok else
          'rp wrapper: %d acknowledgements, %d re-dispatches' % (len(acks), len(redis)), d.loc(sw[1]['ReplicateRequest']))



def single_primary(ck, m, rule='C14.e'):
    """C14.e — the forwarder sends to every member whose role is Primary (C14.c), so "at most one forward" needs "at most one
    Primary member": sites that can store Primary must demote the others."""
    from props.C07 import role_of_root, natural_loops
    P = m.prog
    CM = 'nundb::bo::ClusterMember'

    def role_values(b, op):
        names = set()
        for r in origins(b, op):
            names |= role_of_root(m, b, r)
        return names

    def stores(b):
        """(block, set of role names that may be stored) for inserts of a ClusterMember / assignments to .role"""
        out = []
        for bi, t in b.calls():
            if CM + '>::insert' in t['f'].get('dargs', '') and len(t['args']) > 2:
                for r in origins(b, t['args'][2]):
                    if r[0] == 'agg':
                        rv = b.blocks[r[1]]['s'][r[2]]['r']
                        if rv.get('adt') == CM and 'role' in rv.get('fields', []):
                            out.append((bi, role_values(b, rv['ops'][rv['fields'].index('role')])))
                    else:
                        out.append((bi, {'?'}))
        for bi, bl in enumerate(b.blocks):
            if bl.get('cleanup'):
                continue
            for s in bl['s']:
                if s['k'] == 'assign' and any(e[0] == 'f' and len(e) > 3 and e[2] == CM and e[3] == 'role' for e in s['l'].get('p', ())):
                    rv = s['r']
                    names = set()
                    if rv['k'] == 'use':
                        names = role_values(b, rv['o'])
                    elif rv['k'] == 'agg':
                        names = {rv.get('variant')}
                    out.append((bi, names or {'?'}))
        return out
    n = 0
    for b in P.user_bodies():
        if b.id.startswith(('nundb::client::', 'nundb::command_line::')):
            continue
        st = stores(b)
        may_primary = [(bi, names) for bi, names in st if names - {'Secoundary', 'StartingUp'}]
        if not may_primary:
            continue
        n += 1
        # demotion: inside a loop, under the true edge of `role == Primary`, a store whose role is the constant Secoundary
        loops = natural_loops(b)
        demote = False
        partial = []
        for bi, t in b.calls():
            if callee_decl(t) == 'std::cmp::PartialEq::eq' and 'ClusterRole' in t['f'].get('dargs', ''):
                if not any('Primary' in role_of_root(m, b, r) for a in t['args'] for r in origins(b, a)):
                    continue
                for (s2, tt, ft) in core.bool_switches(b, bi):
                    for sbi, names in st:
                        if names == {'Secoundary'} and b.dominates(tt, sbi) and not b.dominates(ft, sbi) and any(sbi in body for h, body in loops):
                            demote = True
                            # the demotion is total: the loop walks the member table itself (no filter / skip / take in between), and every
                            # turn of the loop passes the store — a member left out (the node's own record has no link) stays Primary
                            h_, body_ = min(((h, body) for h, body in loops if sbi in body), key=lambda x: len(x[1]))
                            for nbi in body_:
                                tn = b.term(nbi)
                                if tn['k'] == 'call' and callee_decl(tn) == 'std::iter::Iterator::next':
                                    it_ty = tn['f'].get('dargs', '')
                                    sel = [w for w in ('Filter<', 'FilterMap<', 'Skip<', 'SkipWhile<', 'Take<', 'TakeWhile<', 'StepBy<') if w in it_ty]
                                    if sel:
                                        partial.append('the demotion loop iterates through %s' % ', '.join(x.rstrip('<') for x in sel))
                            cut = {(sbi, nx) for nx in b.succ(sbi)}
                            free = core.reachable_without(b, cut, start=h_) & body_
                            latches = [x for x in body_ if h_ in b.succ(x) and x != sbi]
                            nexts = [x for x in body_ if b.term(x)['k'] == 'call' and callee_decl(b.term(x)) == 'std::iter::Iterator::next']
                            # a turn that took an element (passed the Some edge of next) and came back to the head without the store
                            for nb_ in nexts:
                                for (s3, tm3, els3, adt3) in core.enum_switches(b, nb_):
                                    some = tm3.get('1', els3)
                                    skipping = core.reachable_without(b, cut, start=some) & body_
                                    if some in body_ and any(x in skipping for x in latches) and sbi != some:
                                        partial.append('a turn of the demotion loop can skip the store (%s)' % b.loc(some))
        ck.ob(rule, short(b.id), 'primary-store-demotes-others', demote,
              'storing a Primary member first rewrites every existing member as Secondary' if demote else
              '%s can give a member the Primary role (%s) without demoting the member that held it: the member table then has two Primary '
              'entries and the forwarder sends every client write of a secondary to both' % (short(b.id), [sorted(x) for _, x in may_primary]),
              b.loc(may_primary[0][0]))
        if demote:
            ck.ob(rule, short(b.id), 'demotion-is-total', not partial,
                  'the demotion visits every member and rewrites each of them' if not partial else
                  '%s: a member the loop leaves out keeps the Primary role next to the new primary — the node\'s own record (it has no link) after it '
                  'won and then lost an election: its cluster-state names two primaries and its forwarder sends to both' % '; '.join(sorted(set(partial))),
                  b.loc(may_primary[0][0]))
    ck.floor(rule, n, 1, 'functions that can store a Primary member')


DESIGNED_LINK_REPLIES = {
    'ack': 'the acknowledgement of an rp message: executing it on the sender is its purpose (accounting judged by C15)',
}


def link_replies(ck, m):
    """C14.f — see RULES"""
    from props import C10
    P = m.prog
    prods, schemas = C10.wire_facts(m)
    ex = m.explorer()
    # the reader of a node link: takes lines from the socket and executes them, `ok` aside
    readers = []
    for b in P.user_bodies():
        if b.id.startswith(('nundb::client::', 'nundb::command_line::')):
            continue
        if not any(callee(t) in m.reentry_names() for _, t in b.calls()):
            continue
        oks = [bi for bi, t in b.calls() if callee_decl(t).endswith(('PartialEq::eq', 'PartialEq::ne'))
               and any(core.const_str(r) == 'ok' for a in t['args'] for r in origins(b, a))]
        if oks:
            readers.append(b)
    ck.floor('C14.f', len(readers), 1, 'link readers (execute every line read from a node link except `ok`)')
    # variants that node-to-node messages parse to
    linkv = {}
    for p_ in prods:
        if not (p_.chans & {'repl', 'member'}):
            continue
        for f in p_.fmts:
            fs = [f]
            toks = wire.template_tokens(f)
            if wire.first_word(f) == 'rp' and len(toks) == 3 and len(toks[2]) == 1 and toks[2][0][0] == 'arg':
                f2, _o2 = wire.message_templates(P, f.body, toks[2][0][1])
                fs = list(f2) + [f]
            for g in fs:
                vs, w = repl.receiver_variants(m, g)
                for v in vs or []:
                    linkv.setdefault(v, g.text())
    for fs_ in repl.table_emissions(m).values():
        for g in fs_:
            vs, w = repl.receiver_variants(m, g)
            for v in vs or []:
                linkv.setdefault(v, g.text())
    ck.floor('C14.f', len(linkv), 10, 'request variants that node-to-node messages parse to')
    d, sw = m.dispatcher()
    nrep = 0
    seen = set()
    for v in sorted(linkv):
        if v not in sw[1]:
            continue
        effs, raw = m.arm_effects(v)
        for ev, kind, info in effs:
            if kind != 'send' or 'client' not in info['chan']:
                continue
            for mv in info['msg']:
                if mv[0] == 'const':
                    s_ = core.const_str(mv)
                    if not isinstance(s_, str):
                        continue
                    fr = ev.frame
                    f = core.Fmt(fr.body, ev.bi, [('lit', s_)], [])
                    mv = ('fmt', None, ev.bi)
                elif mv[0] == 'fmt':
                    fr = ex.frames[mv[1]]
                    f = core.fmt_at(fr.body, mv[2])
                    if f is None:
                        continue
                else:
                    continue
                nrep += 1
                w = wire.first_word(f)
                if w not in schemas:
                    continue
                key = (short(fr.body.id), f.text().strip())
                if key in seen:
                    continue
                seen.add(key)
                if w in DESIGNED_LINK_REPLIES:
                    ck.ob('C14.f', key[0], 'reply:%s' % key[1], True, 'designed: ' + DESIGNED_LINK_REPLIES[w], fr.body.loc(mv[2]))
                    continue
                top, variants, reason = schemas[w]
                problems, _mapping = wire.check_template(P, f, top)
                refused = [x for x in problems if 'required slot' in x]
                ck.ob('C14.f', key[0], 'reply:%s' % key[1], bool(refused),
                      'the reply %r starts with the command word %r; its parser refuses it (%s), the link reader drops it' % (f.text(), w, refused[0]) if refused else
                      'the reply %r (answer to a %s that arrived over a node link, e.g. %r) parses as the command %r -> %s: the node that sent the '
                      'message reads the reply on its link and executes it — one client operation produces a second, unrequested command and '
                      'its own replication burst' % (f.text(), v, linkv[v], w, variants), fr.body.loc(mv[2]))
    ck.floor('C14.f', nrep, 5, 'session replies of handlers of node-to-node commands')


def table_emits_once(ck, m):
    """C14.g — see RULES"""
    rb, rsw = m.replication_table()
    n = 0
    for variant, tb in sorted(rsw[1].items()):
        if tb == rsw[2]:
            continue
        region = m.arm_region(rb, rsw, variant)
        looped = []
        for bi in sorted(region):
            t = rb.term(bi)
            if t['k'] != 'call' or is_log(t):
                continue
            cb = m.prog.bodies.get(callee(t))
            if cb is None or not repl.sends_repl(m, cb.id):
                continue
            n += 1
            if bi in rb.reach_from([bi]):
                looped.append(rb.loc(bi))
        if looped:
            ck.ob('C14.g', short(rb.id), 'arm:%s:emission-not-in-a-loop' % variant, False,
                  'the %s arm of the replication table emits inside a loop (%s): one client command is fanned out as many messages — and as '
                  'many acknowledgements per secondary — as the list it carries has entries; the count is chosen by the client'
                  % (variant, looped), looped[0])
    ck.ob('C14.g', short(rb.id), 'emissions-outside-loops', True, '%d emission calls of the replication table examined' % n, '')
    ck.floor('C14.g', n, 8, 'emission calls in the replication table')



def known_member_is_a_key_test(ck, m):
    """C14.h — see RULES"""
    P = m.prog
    MM = 'std::collections::HashMap::<std::string::String, nundb::bo::ClusterMember>::'
    preds = [b for b in P.user_bodies() if b.kind == 'method' and b.locals[0] == 'bool' and b.argc == 2 and core.is_str_ty(b.locals[2])
             and 'Databases' in b.locals[1] and any(t['f'].get('dargs', '').startswith(MM) and callee_decl(t).split('::')[-1] in ('contains_key', 'get')
                                                    for _, t in b.calls())]
    ck.floor('C14.h', len(preds), 1, 'membership predicates (Databases, &String) -> bool over ClusterState.members')
    for b in preds:
        roots = core.place_origins(b, {'l': 0}, stop_at_calls=True)
        ok = bool(roots) and all(r[0] == 'call' and b.term(r[1])['f'].get('dargs', '').startswith(MM + 'contains_key') for r in roots)
        others = sorted({callee_decl(b.term(r[1])).split('::')[-1] if r[0] == 'call' else r[0] for r in roots
                         if not (r[0] == 'call' and b.term(r[1])['f'].get('dargs', '').startswith(MM + 'contains_key'))})
        ck.ob('C14.h', short(b.id), 'known-member-is-a-key-test', ok,
              'a member is known exactly while its name is a key of ClusterState.members' if ok else
              'the membership predicate answers from %s, not from the key test alone: a member that is in the map can count as unknown (its link '
              'is closed), so a `replicate-join` for a node that is down is acted on again by every node that already knows it — each failed '
              're-link closes the channel again and the secondaries keep sending the join to each other' % others, '%s:%s' % (b.file, b.line))


def no_replication_inside_a_loop_of_an_arm(ck, m):
    """C14.j — see RULES"""
    from props.C07 import natural_loops
    P = m.prog
    ck.rule('C14.j', 'one client command puts a bounded number of messages on the replication stream: in the dispatcher (and the closures of its arms) '
                     'no call that enqueues a replication message or forwards to the primary lies inside a loop — a handler that replicates one '
                     'message per stored record (the resolved conflict records at an arbiter registration) causes a burst that grows with the data')
    d, sw = m.dispatcher()
    try:
        fw = repl.forwarder(m).id
    except core.AnchorError:
        fw = None
    fam = [d] + [P.bodies[k] for k in P.bodies if k.startswith(d.id + '::{closure')]
    n, bad = 0, []
    for b in fam:
        loops = natural_loops(b)
        for bi, t in b.calls():
            c = callee(t)
            if is_log(t) or P.bodies.get(c) is None:
                continue
            if not (c == fw or repl.sends_repl(m, c)):
                continue
            n += 1
            if any(bi in body for _h, body in loops):
                bad.append('%s called in a loop at %s' % (short(c), b.loc(bi)))
    ck.ob('C14.j', 'dispatcher', 'no-replication-inside-a-loop', not bad,
          'none of the %d replicating / forwarding calls of the dispatcher lies in a loop' % n if not bad else
          'the dispatcher replicates inside a loop: %s' % sorted(set(bad))[:3], '%s:%s' % (d.file, d.line))
    ck.floor('C14.j', n, 5, 'replicating / forwarding calls in the dispatcher')
