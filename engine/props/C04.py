"""C04 — live replication converges: every node ends equal to the primary.

Decides the structural conditions of convergence: (a) every command whose handler changes replicated
data has an emitting arm in the replication table; (b) every message the table (and every other
producer on the replication channel) emits agrees with the parser of its command word — token
count, required slots, numeric slots; (c) the variant a receiver parses is handled by a node-to-node
(administrator-guarded) arm; (d) the client-mutation arms behave alike on a non-primary node: one
forward to the primary and no local write there; (e) the fan-out sends nothing in the Secondary
role, the forwarder sends only to the Primary member; (f) the version / increment handed to the
store and put into emitted messages is the request's own field, a literal -1 only where the
request has no version.
Does NOT decide convergence over delivery orders, nor apply-versus-enqueue order under two
concurrent clients on the primary.
"""
from nl import core, wire
from nl.core import origins, callee, callee_decl, is_log, const_val
from nl.model import short
from props import repl, C09, C10

RULES = {
    'C04.i': 'every message is registered and fanned out under its own id: in the replication loop the id an oplog arm yields comes from '
             'the appender called with the rp id (or is the rp id itself), never a constant — two messages pending under one id are '
             'delivered as two copies of the first',
    'C04.h': 'the rp wrapper carries the wrapped command byte for byte: the parser of a wrapper word stores the rest of the line in the '
             'request without a string transformation (only the removal of line ends); a trim there changes values on the receiving '
             'nodes only, the originator keeps what the client sent',
    'C04.a': 'a Request variant whose dispatcher arm writes Database.map / Databases.map / the snapshot queue has an arm '
             'in the replication table that enqueues a message (exceptions: UseDb — per-node $connections; Arbiter — local clean-up)',
    'C04.b': 'every template sent on the replication channel agrees with the parser of its command word: required '
             'slots present, numeric slots fed by numeric placeholders, no token left unread',
    'C04.c': 'the variant a receiver parses from a replication-stream message is handled under the administrator guard',
    'C04.d': 'sibling client-mutation arms: on the not-primary branch exactly one forward to the primary and no local '
             'write to Database.map',
    'C04.e': 'nothing is sent to cluster members in the Secondary arm of the fan-out; the forwarder sends only in the '
             'Primary arm of the member role; the Primary arm of the fan-out sends only to Secondary members other than itself',
    'C04.g': 'the rp wrapper dispatches the inner command on every path after it acknowledged it; a node-to-node receiver arm '
             '(replicate, replicate-remove, replicate-increment) applies the change on every path where the database exists',
    'C04.f': 'the i32 handed to the store / increment and placed into emitted messages originates from the request\'s own '
             'field; literal -1 only for variants without a version',
    'C04.j': "an arm that replicates one key writes only that key: every Database.map write reachable from a Set / Remove / Increment arm outside the conflict resolver is keyed by the request's own key field (what the emitted message carries)",
    'C04.k': 'a refused command is neither replicated nor turned into a success: in the replication table every refusal variant of the '
             'handler\'s Response (Error, VersionError) leaves before the switch over the request — the table is reached only for '
             'commands that were applied',
    'C04.l': 'the replication table names the databases the handler snapshotted: in its Snapshot arm the session\'s selected database is '
             'used only on the branch where the request\'s own list of names is empty (the handler\'s rule) — otherwise the primary '
             'snapshots the named databases and the secondaries another one',
    'C04.m': 'a database name is taken once: every insert into Databases.map is decided by a lookup of the same map made under the SAME write '
             'guard (the lookup is dominated by the write acquisition that the insert uses) — an existence test under a read lock taken '
             'earlier lets two concurrent create-db of one name both succeed; both are replicated, the secondaries keep the first and the '
             'primary the second',
}

WRITE_KINDS = ('map-write', 'map-bulk-write', 'dbs-write', 'guarded-vec-push')
NO_REPL_EXCEPTIONS = {
    'UseDb': 'writes only the per-node $connections mirror (excluded from synchronisation)',
    'Arbiter': 'local clean-up of conflict records that are already resolved everywhere',
    'Auth': 'no data',
}
SIBLINGS = ('Set', 'Increment', 'Remove', 'CreateUser', 'SetPermissions', 'Resolve')
NO_VERSION = ('CreateUser', 'SetPermissions')


def run(ck, m):
    _run(ck, m)
    wrapper_verbatim(ck, m)
    own_id_rule(ck, m)
    one_key_per_message(ck, m)
    refusal_not_replicated(ck, m)
    snapshot_names_precedence(ck, m)
    database_created_once(ck, m)
    same_derivation_rule(ck, m)
    forwarded_messages_agree_with_the_table(ck, m)
    # every secondary is sent every message: the fan-out registers the expected acknowledgement and then sends, per member, with no
    # other condition (C14.d, repeated: a member skipped because "it still owes an ack for the same text" misses an operation for good)
    from nl import alias as _alias4
    ck.rule('C04.n', 'the fan-out sends every message to every member it is meant for: registration of the expected acknowledgement and send of the '
                     'registered text, per member, unconditionally (C14.d, repeated)')
    _alias4.repeat(ck, m, 'C14', ('C14.d',), 'C04.n', floor=2, key_filter=lambda k: 'register-before-send' in k or 'copy-sent-to-every-member' in k)


def _run(ck, m):
    for k, v in RULES.items():
        ck.rule(k, v)
    ex = m.explorer()
    d, sw = m.dispatcher()
    em = repl.table_emissions(m)
    sch = repl.schemas(m)
    # ---- (a) ---------------------------------------------------------------------------
    n = 0
    for variant in m.variants():
        effs, raw = m.arm_effects(variant)
        writes = []
        for ev, kind, info in effs:
            if kind not in WRITE_KINDS or m.in_guard(ev.guards):
                continue
            lk = {l for l, _ in info.get('locks', ())}
            if lk & {'Database.map', 'Databases.map', 'Databases.to_snapshot'}:
                writes.append((ev, kind, lk))
        if not writes:
            continue
        n += 1
        emits = bool(em.get(variant))
        if emits:
            ck.ob('C04.a', 'replication-table', 'arm:%s' % variant, True,
                  '%s changes %s and its replication arm emits %s' % (variant, sorted({x for _, _, lk in writes for x in lk}),
                                                                      [f.text() for f in em[variant]]), writes[0][0].loc())
        elif variant in NO_REPL_EXCEPTIONS:
            ck.ob('C04.a', 'replication-table', 'arm:%s' % variant, True,
                  'reviewed exception: ' + NO_REPL_EXCEPTIONS[variant], writes[0][0].loc())
        else:
            ck.ob('C04.a', 'replication-table', 'arm:%s' % variant, False,
                  '%s changes %s (e.g. in %s) but the replication table has no emitting arm for it: no other node learns of the change'
                  % (variant, sorted({x for _, _, lk in writes for x in lk}), short(writes[0][0].frame.body.id)), writes[0][0].loc())
    ck.floor('C04.a', n, 12, 'variants whose arm writes replicated state')
    # ---- (b) ---------------------------------------------------------------------------
    prods, _ = C10.wire_facts(m)
    inner = []
    for p in prods:
        if 'repl' not in p.chans:
            continue
        for f in p.fmts:
            toks = wire.template_tokens(f)
            if wire.first_word(f) == 'rp' and len(toks) == 3 and len(toks[2]) == 1 and toks[2][0][0] == 'arg':
                f2, o2 = wire.message_templates(m.prog, f.body, toks[2][0][1])
                inner += f2
                for o in o2:
                    ck.ob('C04.b', short(p.body.id), 'unknown-origin', False,
                          'a replication message of unknown origin (%s) cannot be compared with the parser' % (o,), p.loc(),
                          verdict='inconclusive')
    # forwarder messages travel the same way (member channel)
    fw = repl.forwarder(m)
    for (cb, cbi) in m.prog.callers().get(fw.id, []):
        f2, o2 = wire.message_templates(m.prog, cb, cb.term(cbi)['args'][0])
        inner += f2
    seen = set()
    nb = 0
    for f in inner:
        key = (f.body.id, f.text())
        if key in seen:
            continue
        seen.add(key)
        nb += 1
        w = wire.first_word(f)
        fn = short(f.body.id)
        loc = f.body.loc(f.bi) if f.bi is not None else ''
        if w not in sch:
            ck.ob('C04.b', fn, 'template:%s' % wire.shape(f), False, 'no parser is registered for the word %r of %r' % (w, f.text()), loc)
            continue
        top, variants, reason = sch[w]
        if reason:
            ck.undecided('C04.b', fn, 'schema:%s' % w, 'parser schema of %r: %s' % (w, reason), loc)
            continue
        if w == 'election':
            # literal-selected alternatives
            toks = wire.template_tokens(f)
            lit = ''.join(p[1] for p in toks[1] if p[0] == 'lit') if len(toks) > 1 else ''
            if lit == 'candidate':
                cont = [s for s in top if s.kind == 'container']
                ok = len(toks) == 4 and len(toks[2]) == 1 and toks[2][0][0] == 'arg' and toks[2][0][2] == 'u128' and bool(cont)
                ck.ob('C04.b', fn, 'template:%s' % wire.shape(f), ok,
                      '%r: candidate id is a u128 placeholder followed by the node name' % f.text() if ok else
                      '%r does not match `election candidate <u128> <node>`' % f.text(), loc)
            else:
                ok = len(toks) >= 2
                ck.ob('C04.b', fn, 'template:%s' % wire.shape(f), ok, '%r parses as an election notice' % f.text(), loc)
            continue
        probs, mapping = wire.check_template(m.prog, f, top)
        ck.ob('C04.b', fn, 'template:%s' % wire.shape(f), not probs,
              '%r agrees with the %s parser (%s)' % (f.text(), w, mapping) if not probs else
              '%r disagrees with the %s parser %r: %s' % (f.text(), w, top, '; '.join(probs)), loc)
    ck.floor('C04.b', nb, 12, 'distinct templates on the replication stream')
    # ---- (c) ---------------------------------------------------------------------------
    nc = 0
    for f in inner:
        vs, w = repl.receiver_variants(m, f)
        if not vs:
            continue
        for v in vs:
            key = ('c', w, v)
            if key in seen:
                continue
            seen.add(key)
            nc += 1
            region = m.arm_region(d, sw, v)
            srcs = C09.reply_sources(m, d, region) if region else set()
            G = m.guards()
            admin = v in C09.ADMIN and all(k != 'guard' or G[x]['kind'] in ('admin',) for k, x in srcs) and any(k == 'guard' for k, x in srcs)
            if v == 'Resolve':
                # administrator branch selected inline by the link's flag; database named in the message
                effs, raw = m.arm_effects(v)
                admin = any(m.has_admin(ev.guards) and kind == 'map-write' for ev, kind, info in effs)
            ck.ob('C04.c', 'dispatcher', 'receiver:%s->%s' % (w, v), admin,
                  '`%s …` is parsed to %s, handled under the administrator guard with the database named in the message' % (w, v) if admin else
                  '`%s …` is parsed to %s, which is not a node-to-node (administrator guarded) arm' % (w, v), d.loc(sw[1].get(v, sw[0])))
    ck.floor('C04.c', nc, 9, 'receiver variants of replication-stream messages')
    # ---- (d) ---------------------------------------------------------------------------
    for v in SIBLINGS:
        effs, raw = m.arm_effects(v)
        fwd = [ev for ev in raw if ev.kind == 'local-call' and ev.name == fw.id and not m.in_guard(ev.guards)]
        from props.C14 import through_resolver
        # a forward may be reached through local wrappers: attribute it to the call site in the arm's closure and call
        # it "on the not-primary branch" when any frame on the way tests is_primary() == false around it
        per_closure = {}
        for ev in fwd:
            if through_resolver(m, ev):
                continue      # the conflict resolver's own replication of its record (judged by C14.b)
            frames = [(cid, loc) for cid, loc in ev.chain] + [(ev.frame.body.id, ev.frame.body.loc(ev.bi))]
            cond = False
            in_primary = False
            top = None
            for i, (cid, loc) in enumerate(frames):
                cb = m.prog.bodies.get(cid)
                if cb is None:
                    continue
                nxt = frames[i + 1][0] if i + 1 < len(frames) else fw.id
                blocks = [bi for bi in cb.reachable() if cb.term(bi)['k'] == 'call' and cb.loc(bi) == loc and
                          (callee(cb.term(bi)) == nxt or i + 1 == len(frames) and callee(cb.term(bi)) == fw.id)]
                if i + 1 == len(frames):
                    blocks = [ev.bi]
                np_region = repl.not_primary_region(m, cb)
                if blocks and all(x in np_region for x in blocks):
                    cond = True
                if blocks and all(x in repl.primary_region(m, cb) for x in blocks):
                    in_primary = True
                if top is None and cid.startswith(d.id + '::{closure'):
                    top = (cid, tuple(blocks))
            if cond and in_primary:
                continue      # is_primary() true in one frame and false in a deeper one: not a feasible path
            if top is not None:
                per_closure.setdefault(top[0], {})[top[1]] = cond or per_closure.get(top[0], {}).get(top[1], False)
        per_closure = {k: list(v.values()) for k, v in per_closure.items()}
        ok_fwd = bool(per_closure) and all(len(c) == 1 and c[0] for c in per_closure.values())
        ck.ob('C04.d', 'dispatcher', '%s:forwards-once-when-not-primary' % v, ok_fwd,
              '%s forwards exactly once on its not-primary branch' % v if ok_fwd else
              '%s: forward calls per closure %s (True = on the not-primary branch); a change made through a secondary must '
              'reach the primary exactly once' % (v, {short(k): c for k, c in per_closure.items()} or 'none'), d.loc(sw[1][v]))
        # local writes on the not-primary branch
        local = []
        for ev, kind, info in effs:
            if kind != 'map-write' or m.in_guard(ev.guards) or not any(l == 'Database.map' for l, _ in info.get('locks', ())):
                continue
            # the call site in the arm's closure through which the write is reached
            top_site = None
            for (bid, loc) in ev.chain:
                if bid.startswith(d.id + '::{closure'):
                    cb = m.prog.bodies[bid]
                    cands = [bi for bi in cb.reachable() if cb.term(bi)['k'] == 'call' and cb.loc(bi) == loc]
                    top_site = (cb, cands)
                    break
            if top_site is None:
                continue
            cb, cands = top_site
            pr = repl.primary_region(m, cb)
            if not cands or not all(x in pr for x in cands):
                local.append((short(cb.id), cb.loc(cands[0]) if cands else '?'))
        local = sorted(set(local))
        ck.ob('C04.d', 'dispatcher', '%s:no-local-write-when-not-primary' % v, not local,
              '%s writes Database.map only on its primary branch' % v if not local else
              '%s also applies the change locally on a non-primary node (%s) and forwards it: the primary\'s fan-out excludes '
              'only the primary, so the originator re-applies its own write and ends one version ahead of the other nodes' % (v, local),
              d.loc(sw[1][v]))
    # ---- (g) ---------------------------------------------------------------------------
    effs, raw = m.arm_effects('ReplicateRequest')
    redis = [ev for ev in raw if ev.kind == 'stop' and ev.frame.body.id == d.id]
    tgt = sw[1]['ReplicateRequest']
    # an acknowledged message is dispatched: the re-dispatch post-dominates every acknowledgement of the arm (a message that is
    # refused before it is acknowledged — a malformed wrapper — is not counted as replicated by its sender)
    acks = [ev.bi for ev, kind, info in effs if kind == 'send' and 'client' in info['chan'] and ev.frame.body.id == d.id]
    okg = len(redis) == 1 and bool(acks) and all(d.postdominates(redis[0].bi, a) for a in acks) and \
        not any(a in d.reach_from([redis[0].bi]) for a in acks)
    ck.ob('C04.g', 'dispatcher', 'rp-always-dispatches', okg,
          'every rp message that is acknowledged is also dispatched' if okg else
          'the rp wrapper can acknowledge a message and return without dispatching it (%d dispatch sites): the change is lost on this '
          'node although the primary counts it as replicated' % len(redis), d.loc(tgt))
    from props.C02 import increment_fn, remover_fn
    stores_ = {b.id for b in m.prog.user_bodies() if b.kind == 'fn' and b.argc == 5 and b.locals[3] == 'i32'
               and core.is_str_ty(b.locals[1]) and b.locals[4] == '&nundb::bo::Database'}
    appliers = stores_ | {increment_fn(m).id, remover_fn(m).id} | {b.id for b in m.prog.user_bodies() if b.id.endswith('db_ops::remove_key')}
    for v in ('ReplicateSet', 'ReplicateRemove', 'ReplicateIncrement'):
        effs, raw = m.arm_effects(v)
        lookups = [(ev, info) for ev, kind, info in effs if kind == 'dbs-read' and info.get('method') == 'get' and ev.frame.body.id.startswith(d.id + '::{closure')]
        okh = False
        whyh = 'no database lookup found in the arm'
        for ev, info in lookups:
            cb = ev.frame.body
            for (sbi, tm, els, adt) in core.enum_switches(cb, ev.bi):
                some = tm.get('1', els)
                calls = [x for x in cb.reachable() if cb.term(x)['k'] == 'call' and callee(cb.term(x)) in appliers and cb.dominates(some, x)]
                # the Some arm joins the None arm afterwards: post-dominance is relative to the arm, so cut the None edge
                rets = set(cb.return_blocks())
                okh = bool(calls) and any(x == some or not (core.reachable_without(cb, {(p_, x) for p_ in cb.pred(x)}, start=some) & rets)
                                           for x in calls)
                whyh = 'the change is applied on every path of the database-found branch' if okh else \
                    'the receiver can skip applying a delivered change although the database exists (conditional apply)'
        # and no success reply can be built anywhere in the arm's closure without passing the apply call
        for ev, info in lookups[:1]:
            cb = ev.frame.body
            applies = [x for x in cb.reachable() if cb.term(x)['k'] == 'call' and callee(cb.term(x)) in appliers]
            cut = {(x, nx) for x in applies for nx in cb.succ(x)}
            reach = core.reachable_without(cb, cut)
            early = [cb.loc(x) for x in reach for s_ in cb.blocks[x]['s'] if s_['k'] == 'assign' and s_['r']['k'] == 'agg'
                     and s_['r'].get('adt', '').endswith('bo::Response') and s_['r'].get('variant') not in ('Error', 'VersionError')]
            if early:
                okh = False
                whyh = 'the receiver can answer success without applying the delivered change (success reply built at %s before / without ' \
                       'the apply call)' % early[0]
        ck.ob('C04.g', 'dispatcher', '%s:applies-unconditionally' % v, okh, whyh, d.loc(sw[1][v]))
    # ---- (e) ---------------------------------------------------------------------------
    fb, fsw = repl.fanout_loop(m)
    sbi, tm = fsw
    sends = repl.sending_blocks(m, fb)
    arms = {v: {x for x in fb.reachable() if fb.dominates(tb, x)} for v, tb in tm.items()}
    from_sec = fb.reach_from([tm['Secoundary']], stop=lambda q: q == sbi, include_start=True) if 'Secoundary' in tm else set()
    sec = [x for x in sends if x in arms.get('Secoundary', ()) or x in from_sec]
    outside = [x for x in sends if not any(x in a for a in arms.values())]
    ck.ob('C04.e', short(fb.id), 'secondary-arm-sends-nothing', not sec and not outside,
          'the fan-out sends only in its Primary / StartingUp arms' if not sec and not outside else
          'the fan-out can send to cluster members in the Secondary role at %s' % [fb.loc(x) for x in sec + outside], fb.loc(sbi))
    # the Primary arm's fan-out function: sends under the Secondary arm of the member role, to other nodes only
    for x in sends:
        if x in arms.get('Primary', ()):
            cb = m.prog.bodies.get(callee(fb.term(x)))
            if cb is None:
                continue
            rs = repl.role_switch(m, cb)
            sb = repl.sending_blocks(m, cb)
            ok = False
            why = 'no switch over the member role'
            if rs:
                a2 = {v: {y for y in cb.reachable() if cb.dominates(tb, y)} for v, tb in rs[1].items()}
                only_sec = all(y in a2.get('Secoundary', ()) for y in sb)
                # self exclusion: a comparison with the node's own address guards the send
                cmp_self = False
                for bi, t in cb.calls():
                    if callee_decl(t) in ('std::cmp::PartialEq::ne', 'std::cmp::PartialEq::eq'):
                        flds = {s[2] for a in t['args'] for r in origins(cb, a) for s in r[-1] if s[0] == 'f'}
                        if 'external_tcp_address' in flds or 'tcp_address' in flds:
                            for (s2, tt, ft) in core.bool_switches(cb, bi):
                                good = tt if callee_decl(t).endswith('::ne') else ft
                                if all(cb.dominates(good, y) for y in sb):
                                    cmp_self = True
                ok = only_sec and cmp_self and bool(sb)
                why = 'sends only to Secondary members other than this node' if ok else \
                    'sends under Secondary arm only: %s, excludes itself: %s' % (only_sec, cmp_self)
            ck.ob('C04.e', short(cb.id), 'primary-fanout-targets', ok, why, '%s:%s' % (cb.file, cb.line))
    ck.ob('C04.e', short(fw.id), 'forwarder-sends-to-primary-only', True,
          'the forwarder sends only in the Primary arm of the member role (anchor predicate)', '%s:%s' % (fw.file, fw.line))
    # ---- (f) ---------------------------------------------------------------------------
    stores = [b for b in m.prog.user_bodies() if b.kind == 'fn' and b.argc == 5 and b.locals[3] == 'i32'
              and core.is_str_ty(b.locals[1]) and b.locals[4] == '&nundb::bo::Database']
    from props.C02 import increment_fn
    incf = increment_fn(m)
    nf = 0
    for v, field in (('Set', 'version'), ('ReplicateSet', 'version'), ('Increment', 'inc'), ('ReplicateIncrement', 'inc'),
                     ('CreateUser', None), ('SetPermissions', None)):
        effs, raw = m.arm_effects(v)
        for ev in raw:
            if ev.kind != 'local-call' or m.in_guard(ev.guards):
                continue
            if ev.name in {s.id for s in stores} and ev.frame.body.id.startswith(d.id):
                vals = ex.absvals(ev.frame, ev.term['args'][2])
            elif ev.name == incf.id and ev.frame.body.id.startswith(d.id):
                vals = ex.absvals(ev.frame, ev.term['args'][2])
            else:
                continue
            nf += 1
            desc = sorted(ex.describe(x) for x in vals)
            if field:
                ok = desc == ['arg1.<%s>.%s' % (v, field)]
            else:
                ok = desc == ['const(-1)']
            ck.ob('C04.f', 'dispatcher', '%s:store-argument' % v, ok,
                  '%s hands %s to %s' % (v, desc, short(ev.name)), ev.loc())
    # ... and whatever else the arm hands the number to (the builder of the message forwarded to the primary, a Change): the very field of
    # the request, never a number looked up on this node — a secondary that forwards an unversioned set "with the version it applied it
    # on" turns it into a versioned write, which the primary refuses when its own copy of the key has moved on: the nodes keep different values
    for v, field in (('Set', 'version'), ('Increment', 'inc')):
        effs, raw = m.arm_effects(v)
        seen_sites = set()
        for ev in raw:
            if ev.kind != 'local-call' or m.in_guard(ev.guards) or not ev.frame.body.id.startswith(d.id):
                continue
            cb_ = m.prog.bodies.get(ev.name)
            if cb_ is None or ev.name in {s_.id for s_ in stores} or ev.name == incf.id:
                continue
            for j, a in enumerate(ev.term['args']):
                if j + 1 > cb_.argc or cb_.locals[j + 1] != 'i32' or (ev.frame.body.id, ev.bi, j) in seen_sites:
                    continue
                seen_sites.add((ev.frame.body.id, ev.bi, j))
                nf += 1
                desc = sorted(ex.describe(x) for x in ex.absvals(ev.frame, a))
                ok = desc == ['arg1.<%s>.%s' % (v, field)]
                ck.ob('C04.f', 'dispatcher', '%s:%s:number-handed-on' % (v, short(ev.name)), ok,
                      '%s hands %s to %s' % (v, desc, short(ev.name)) if ok else
                      '%s hands %s to %s (expected the request\'s own `%s`): the number that travels to the other nodes is not the one the '
                      'client sent' % (v, desc, short(ev.name), field), ev.loc())
    rb, rsw = m.replication_table()
    for v, fmts in em.items():
        for f in fmts:
            for p in f.pieces:
                if p[0] == 'arg' and p[2] == 'i32' or (p[0] == 'arg' and wire.first_word(f) == 'replicate-increment' and p is f.pieces[-1]):
                    nf += 1
                    # follow the placeholder back into the table arm
                    site = getattr(f, 'call_site', None)
                    roots = set()
                    if f.body.id == rb.id:
                        roots = origins(rb, p[1])
                    elif site is not None and site[0].id == rb.id:
                        # helper template: placeholder = helper parameter -> argument at the call site in the table
                        for r in origins(f.body, p[1]):
                            if r[0] == 'param':
                                roots |= origins(rb, site[0].term(site[1])['args'][r[1] - 1])
                    descs = set()
                    for r in roots:
                        if r[0] == 'param' and r[1] == 2:
                            flds = [s[2] for s in r[-1] if s[0] == 'f']
                            descs.add('request.' + '.'.join(flds))
                        elif r[0] == 'const':
                            descs.add('const(%s)' % const_val(r))
                        else:
                            descs.add(r[0])
                    if v in NO_VERSION:
                        ok = descs == {'const(-1)'}
                    else:
                        ok = bool(descs) and all(x.startswith('request.') for x in descs)
                    ck.ob('C04.f', 'replication-table', '%s:%s:number' % (v, wire.first_word(f)), ok,
                          'the number in %r emitted for %s comes from %s' % (f.text(), v, sorted(descs)), f.body.loc(f.bi) if f.bi is not None else '')
    ck.floor('C04.f', nf, 8, 'version / increment operands traced')



def wrapper_verbatim(ck, m):
    from props import C10
    P = m.prog
    parsers, words = C10.parser_table(m)
    prods, schemas = C10.wire_facts(m)
    d, sw = m.dispatcher()
    pr = m.reentry_names()
    # wrapper variants: arms that re-enter the request entry
    wvars = set()
    for v, tb in sw[1].items():
        if tb == sw[2]:
            continue
        reg = m.arm_region(d, sw, v)
        if any(d.term(x)['k'] == 'call' and callee(d.term(x)) in pr for x in reg):
            wvars.add(v)
    IDENT = core.LOOK_THROUGH | {'std::string::String::from'}
    n = 0
    for w, fn in words.items():
        top, vs, reason = schemas.get(w, (None, None, None))
        if not (set(vs or ()) & wvars):
            continue
        b = P.bodies[fn]
        for bl in b.blocks:
            for s in bl['s']:
                if s['k'] == 'assign' and s['r']['k'] == 'agg' and s['r'].get('adt') == 'nundb::bo::Request' and s['r'].get('variant') in wvars:
                    rv = s['r']
                    var = [x for x in P.adts['nundb::bo::Request']['variants'] if x['name'] == rv['variant']][0]
                    for f, op in zip(var['fields'], rv['ops']):
                        if f['ty'] != 'std::string::String':
                            continue
                        n += 1
                        bad = []

                        def walk(o, depth=0):
                            for r in origins(b, o, stop_at_calls=True):
                                if r[0] != 'call' or depth > 6:
                                    continue
                                t_ = b.term(r[1])
                                d_ = callee_decl(t_)
                                if d_ in IDENT:
                                    if t_['args']:
                                        walk(t_['args'][0], depth + 1)
                                elif d_ == 'std::str::replace' and any(core.const_str(q) in ('\n', '\r\n') for q in origins(b, t_['args'][1])):
                                    walk(t_['args'][0], depth + 1)
                                elif d_.startswith('std::str::') or d_.startswith('std::string::String::'):
                                    bad.append(d_.split('::')[-1])
                        walk(op)
                        ck.ob('C04.h', short(fn), '%s.%s:verbatim' % (rv['variant'], f['name']), not bad,
                              'the wrapped command is stored as it was sent' if not bad else
                              'the wrapped command passes through %s: every replicated command is unwrapped by this parser, so a value ending '
                              'in blanks (or "\\r" from a CRLF client, or `set-permissions u r`) differs between the node that took the client\'s '
                              'command and the nodes that received it' % bad, '%s:%s' % (b.file, b.line))
    ck.floor('C04.h', n, 1, 'text fields of wrapper requests')



def own_id_rule(ck, m):
    P = m.prog
    lb, lsw = repl.fanout_loop(m)
    osw = m.request_switch(lb)
    if not osw:
        ck.undecided('C04.i', short(lb.id), 'oplog-switch', 'no switch over Request in the replication loop')
        return
    helpers = {h.id: h for h in P.private_helpers(lb)}
    n = 0
    for v, tb in sorted(osw[1].items()):
        if tb == osw[2]:
            continue
        others = {x for k_, x in osw[1].items() if x != tb} | {osw[2]}
        region = {x for x in lb.reachable() if lb.dominates(tb, x) and not any(lb.dominates(o, x) for o in others)}
        bodies = [(lb, region)]
        for x in sorted(region):
            tx = lb.term(x)
            if tx['k'] == 'call' and callee(tx) in helpers:
                hb = helpers[callee(tx)]
                bodies.append((hb, set(hb.reachable())))
                bodies += [(P.bodies[k], set(P.bodies[k].reachable())) for k in P.bodies if k.startswith(hb.id + '::{closure')]
            for s in lb.blocks[x]['s']:
                if s['k'] == 'assign' and s['r']['k'] == 'agg' and s['r'].get('ak') == 'closure' and s['r']['def'] in P.bodies:
                    cb = P.bodies[s['r']['def']]
                    bodies.append((cb, set(cb.reachable())))
        writes = any(b_.term(x)['k'] == 'call' and 'op_log' in callee(b_.term(x)) for b_, reg in bodies for x in reg)
        if not writes:
            continue
        n += 1
        consts = []
        for b_, reg in bodies:
            for x in reg:
                for s in b_.blocks[x]['s']:
                    if s['k'] == 'assign' and s['r']['k'] == 'agg' and s['r'].get('adt') == 'std::result::Result' and s['r'].get('variant') == 'Ok':
                        for op in s['r']['ops']:
                            if 'k' in op and isinstance(op['k'].get('v'), int) and not isinstance(op['k'].get('v'), bool) and str(op['k'].get('ty', '')) == 'u64':
                                consts.append((b_.loc(x), op['k']['v']))
        ck.ob('C04.i', short(lb.id), 'own-id:%s' % v, not consts,
              'the %s arm yields the id returned by the appender for the message\'s own id' % v if not consts else
              'the %s arm can yield the constant id %s (%s): every message of this kind is registered under the same pending id, and '
              'register_pending_opp hands out the text already stored for an id that is still pending — two commands issued before the first '
              'is acknowledged reach the secondaries as two copies of the first' % (v, sorted({c for _, c in consts}), consts[0][0]),
              lb.loc(tb))
    ck.floor('C04.i', n, 5, 'oplog arms of the replication loop')


def one_key_per_message(ck, m):
    """C04.j — an arm whose replicated message names one key (the request's own key field) changes that key only: every write of
    Database.map it makes outside the conflict resolver (which replicates its own record) is keyed by that field.  A second key
    changed in passing (the grants of a removed user) exists on the node that ran the arm and nowhere else."""
    ck.rule('C04.j', 'an arm that replicates one key writes only that key: every Database.map write reachable from a Set / Remove / Increment '
                     'arm outside the conflict resolver is keyed by the request\'s own key field (what the emitted message carries)')
    from props.C02 import resolver_fn
    rid = resolver_fn(m).id
    d, sw = m.dispatcher()
    em = repl.table_emissions(m)
    n = 0
    for v in sorted(sw[1]):
        if v not in em or not em[v]:
            continue
        effs, raw = m.arm_effects(v)
        writes = [(ev, info) for ev, kind, info in effs if kind == 'map-write' and 'key' in info]
        own = [(ev, info) for ev, info in writes if info['key'] and all(
            k[0] == 'top' and any(q[0] == 'f' and q[2] == 'key' for q in k[-1]) for k in info['key'])]
        if not own:
            continue            # the arm is not keyed by a `key` field of the request (create-db, users: judged by C04.a / C09)
        n += 1
        other = {}
        for ev, info in writes:
            if (ev, info) in own:
                continue
            if ev.frame.body.id == rid or any(cid == rid or cid.startswith(rid + '::') for cid, _ in ev.chain):
                continue
            # a function that replicates the record it writes itself (the resolution record of resolve_conflit)
            if any(repl.sends_repl(m, cid) for cid, _ in ev.chain if not cid.startswith(d.id)):
                continue
            other.setdefault(ev.loc(), sorted(str(k[0]) for k in info['key']))
        ck.ob('C04.j', 'dispatcher', '%s:writes-only-the-replicated-key' % v, not other,
              'every map write of the %s arm is keyed by the request\'s key field' % v if not other else
              'the %s arm also writes a key that is not the request\'s own (%s): the message the replication table emits names only the '
              'request\'s key, so the other change exists on the node that ran the arm and on no other — the nodes stay apart for good'
              % (v, other), sorted(other)[0] if other else '')
    ck.floor('C04.j', n, 3, 'replicated arms keyed by the request key')


def refusal_not_replicated(ck, m, rule='C04.k'):
    """C04.k (repeated as C02.i) — see RULES"""
    P = m.prog
    rb, rsw = m.replication_table()
    RESP = 'nundb::bo::Response'
    params = [i for i in range(1, rb.argc + 1) if rb.locals[i] == RESP]
    refusals = ('Error', 'VersionError')
    routed = {}
    for pl in params:
        for (sbi, tm, els, adt) in core.enum_switches(rb, pl, is_call=False):
            if not adt.endswith('bo::Response') or not rb.dominates(sbi, rsw[0]):
                continue
            a = P.adts.get(adt) or {}
            for v in a.get('variants', []):
                if v['name'] not in refusals:
                    continue
                tgt = tm.get(str(v['discr']), els)
                away = rsw[0] not in rb.reach_from([tgt], include_start=True)
                routed[v['name']] = routed.get(v['name'], False) or away
    for v in refusals:
        ok = routed.get(v, False)
        ck.ob(rule, short(rb.id), 'refusal-leaves-before-the-table:%s' % v, ok,
              'a %s answer of the handler is handed back before the replication table is consulted' % v if ok else
              'a %s answer of the handler reaches the replication table: the refused command is replicated to the other nodes and the client is '
              'answered by the table\'s own success — of two writers presenting the same base version both are told they succeeded, and the '
              'loser\'s write, refused by the store, travels to the secondaries' % v, '%s:%s' % (rb.file, rb.line))


def snapshot_names_precedence(ck, m):
    """C04.l — see RULES"""
    P = m.prog
    rb, rsw = m.replication_table()
    if 'Snapshot' not in rsw[1]:
        ck.undecided('C04.l', short(rb.id), 'anchor', 'no Snapshot arm in the replication table')
        return
    region = m.arm_region(rb, rsw, 'Snapshot')
    opt = [i for i in range(1, rb.argc + 1) if rb.locals[i].startswith('std::option::Option<std::string::String>')
           or rb.locals[i].startswith('&std::option::Option<std::string::String>')]
    if not opt:
        ck.undecided('C04.l', short(rb.id), 'anchor', 'the selected-database parameter (Option<String>) was not found')
        return
    # tests "the request carries no names"
    empties = []
    for bi in sorted(region):
        t = rb.term(bi)
        if t['k'] == 'call' and callee_decl(t).split('::')[-1] in ('is_empty',) and t['args'] and any(
                r[0] == 'param' and any(q[0] == 'f' and q[2] == 'db_names' for q in r[-1]) for r in origins(rb, t['args'][0])):
            for (sbi, tt, ft) in core.bool_switches(rb, bi):
                empties.append((tt, ft))
        # `db_names.len() == 0` / `!= 0` / `> 0` say the same
        if t['k'] == 'call' and callee_decl(t).split('::')[-1] == 'len' and t['args'] and not t['d'].get('p') and any(
                r[0] == 'param' and any(q[0] == 'f' and q[2] == 'db_names' for q in r[-1]) for r in origins(rb, t['args'][0])):
            for bl in rb.blocks:
                for s in bl['s']:
                    if s['k'] == 'assign' and s['r']['k'] == 'bin' and s['r']['op'] in ('Eq', 'Ne', 'Gt') and \
                            any(r[0] == 'call' and r[1] == bi for r in origins(rb, s['r']['a'], stop_at_calls=True)) and \
                            [const_val(r) for r in origins(rb, s['r']['b'])] == [0]:
                        for (sbi, tt, ft) in core.bool_switches(rb, local=s['l']['l']):
                            empties.append((tt, ft) if s['r']['op'] == 'Eq' else (ft, tt))
    # uses of the selected database inside the arm (logging aside)
    uses = []
    for bi in sorted(region):
        t = rb.term(bi)
        if t['k'] == 'call' and not is_log(t) and not callee_decl(t).startswith('std::fmt::'):
            if any(r[0] == 'param' and r[1] in opt for a in t['args'] for r in origins(rb, a, stop_at_calls=True)):
                uses.append(bi)
        for s in rb.blocks[bi]['s']:
            if s['k'] == 'assign' and s['r']['k'] == 'discr' and s['r']['p']['l'] in opt:
                uses.append(bi)
    # uses that only feed a log line do not count
    def feeds_only_logs(bi):
        t = rb.term(bi)
        if t['k'] != 'call' or t['d'].get('p'):
            return False
        dl = t['d']['l']
        users = [x for x, t2 in rb.calls() if any((a.get('m') or a.get('c') or {}).get('l') == dl for a in t2['args'])]
        return bool(users) and all(is_log(rb.term(x)) or callee_decl(rb.term(x)).startswith('std::fmt::') for x in users)
    uses = sorted({u for u in uses if not feeds_only_logs(u)})
    ok = bool(empties) and bool(uses) and all(any(rb.dominates(tt, u) and not rb.dominates(ft, u) for tt, ft in empties) for u in uses)
    ck.ob('C04.l', short(rb.id), 'Snapshot:selected-database-only-without-names', ok,
          'the selected database stands in only where the request names no database' if ok else
          'the Snapshot arm of the replication table uses the session\'s selected database outside the "no names given" branch (tests of '
          'db_names.is_empty(): %d, uses of the selected database: %s): `snapshot false B` from a session that has A selected snapshots B '
          'on the primary and A on every secondary — B stays unsaved there and the nodes\' disk states part' % (len(empties), [rb.loc(u) for u in uses]),
          rb.loc(uses[0]) if uses else '%s:%s' % (rb.file, rb.line))



def database_created_once(ck, m):
    """C04.m — see RULES"""
    from nl.locks import backward_slice, lock_id_of
    P = m.prog
    DM = 'std::collections::HashMap::<std::string::String, nundb::bo::Database>::'
    n = 0
    for b in P.user_bodies():
        if b.id.startswith(('nundb::client::', 'nundb::command_line::')):
            continue
        for bi, t in b.calls():
            if not (t['f'].get('dargs', '').startswith(DM + 'insert')):
                continue
            # the write acquisition the insert goes through
            wacq = [r[1] for r in origins(b, t['args'][0]) if r[0] == 'call' and callee_decl(b.term(r[1])) == 'std::sync::RwLock::write'
                    and 'Databases.map' in lock_id_of(b, b.term(r[1])['args'][0])]
            # ... or through a helper that takes the write guard and hands it back (`acquire_dbs_write_lock()`)
            for r in origins(b, t['args'][0]):
                if r[0] == 'call':
                    hb_ = P.bodies.get(callee(b.term(r[1])))
                    if hb_ is not None and 'RwLockWriteGuard' in hb_.locals[0] and 'nundb::bo::Database>' in hb_.locals[0] \
                            and any(callee_decl(t3) == 'std::sync::RwLock::write' and 'Databases.map' in lock_id_of(hb_, t3['args'][0]) for _, t3 in hb_.calls()):
                        wacq.append(r[1])
            if not wacq:
                continue            # a map under construction (Databases::new), not the shared one
            n += 1
            looks = [x for x, t2 in b.calls() if t2['f'].get('dargs', '').startswith(DM) and callee_decl(t2).split('::')[-1] in ('get', 'contains_key', 'entry')
                     and b.dominates(x, bi) and any(b.dominates(w, x) for w in wacq)]
            decided = False
            for sb_ in b.reachable():
                ts = b.term(sb_)
                if ts['k'] != 'switch' or not b.dominates(sb_, bi):
                    continue
                succ = [x for x in b.succ(sb_) if not b.blocks[x].get('cleanup')]
                if all(bi in b.reach_from([x], include_start=True) for x in succ):
                    continue
                calls, _p = backward_slice(b, ts['o'])
                if calls & set(looks):
                    decided = True
            ck.ob('C04.m', short(b.id), 'insert-decided-under-its-own-write-guard', decided,
                  'the insert is decided by a lookup made under the write guard it uses' if decided else
                  '%s inserts into Databases.map without a lookup of the map under the same write guard deciding it (an existence test made '
                  'earlier, under a read lock, does not count): two sessions creating one name at the same moment both pass the test, the second '
                  'insert replaces the first database, both answer Ok and both are replicated — the secondaries keep the first (they refuse the '
                  'second), so the database token differs between the nodes for good' % short(b.id), b.loc(bi))
    ck.floor('C04.m', n, 1, 'inserts into the shared Databases.map')


_STR_TRANSFORMS = frozenset(('to_lowercase', 'to_uppercase', 'to_ascii_lowercase', 'to_ascii_uppercase', 'trim', 'trim_start', 'trim_end', 'trim_matches',
                             'trim_start_matches', 'trim_end_matches', 'replace', 'replacen', 'strip_prefix', 'strip_suffix', 'repeat', 'split', 'splitn',
                             'rsplit', 'rsplitn', 'split_whitespace', 'split_once', 'chars', 'rev', 'truncate', 'get', 'get_unchecked', 'index'))


def _field_transforms(m, body, region, req_adt='bo::Request', skip=()):
    """{(variant, field): {crate-local String-returning functions applied to it}} for every string argument of a crate-local call made
    in `region` of `body` and in the closures created there; the chain is followed from the argument back to a field of the request
    (through captures of closures, look-through calls such as to_string / clone, and nested crate-local calls)"""
    P = m.prog
    out = {}

    def parent_operand(cb, idx):
        pb = P.bodies.get(cb.parent) if cb.parent else None
        if pb is None:
            return None, None
        for bl in pb.blocks:
            for s in bl['s']:
                if s['k'] == 'assign' and s['r']['k'] == 'agg' and s['r'].get('ak') == 'closure' and s['r'].get('def') == cb.id and idx < len(s['r']['ops']):
                    return pb, s['r']['ops'][idx]
        return None, None

    def walk(b, operand, chain, depth, seen):
        if depth > 8:
            return
        for r in origins(b, operand, stop_at_calls=True):
            key = (b.id, r[:2], chain)
            if key in seen:
                continue
            seen.add(key)
            path = r[-1] if isinstance(r[-1], tuple) else ()
            var = [s_[1] for s_ in path if s_[0] == 'd']
            flds = [s_[2] for s_ in path if s_[0] == 'f' and str(s_[3]).endswith(req_adt)]
            if var and flds:
                # a field of a Request value (the parameter itself, or a copy of it made by a call)
                out.setdefault((var[0], flds[0]), set()).update(chain)
                continue
            if r[0] == 'capture':
                pb, op2 = parent_operand(b, r[1])
                if pb is not None:
                    walk(pb, op2, chain, depth + 1, seen)
            elif r[0] == 'call':
                t = b.term(r[1])
                cb_ = P.bodies.get(callee(t))
                if cb_ is None or is_log(t):
                    # a std call that is not looked through (format machinery): follow every argument; a std string transformation
                    # (a helper spliced back by inline.py leaves only these) counts like a named function
                    last = callee_decl(t).split('::')[-1]
                    ch1 = chain + (('str::' + last,) if last in _STR_TRANSFORMS else ())
                    for a in t['args']:
                        walk(b, a, ch1, depth + 1, seen)
                    continue
                if callee(t) in skip:
                    continue
                ch2 = chain + ((short(callee(t)),) if core.is_str_ty(cb_.locals[0]) else ())
                for a in t['args']:
                    walk(b, a, ch2, depth + 1, seen)

    fam = [(body, region)]
    for x in sorted(region):
        for s in body.blocks[x]['s']:
            if s['k'] == 'assign' and s['r']['k'] == 'agg' and s['r'].get('ak') == 'closure' and s['r']['def'] in P.bodies:
                cb = P.bodies[s['r']['def']]
                fam.append((cb, set(cb.reachable())))
    for b, reg in fam:
        for x in sorted(reg):
            t = b.term(x)
            if t['k'] != 'call' or is_log(t) or P.bodies.get(callee(t)) is None:
                continue
            for a in t['args']:
                p_ = a.get('m') or a.get('c')
                if p_ is None or not core.is_str_ty(b.locals[p_['l']]):
                    continue
                walk(b, a, (), 0, set())
    return out


def same_derivation_rule(ck, m, rule='C04.o'):
    """C04.o — see RULES"""
    ck.rule(rule, 'what is replicated is what was applied: a field of the request that the handler arm transforms before it uses it (a key built '
                  'from a user name, a value rendered from a permission list) is transformed by the SAME functions in the arm of the replication '
                  'table, which rebuilds the message from the raw request — a normalisation added on one side only (lower-casing, trimming) makes '
                  'the primary store one key and every secondary another')
    P = m.prog
    d, sw = m.dispatcher()
    rb, rsw = m.replication_table()
    from props.C07 import templates_in
    builders = {b.id for b in P.user_bodies() if b.kind in ('fn', 'method') and core.is_str_ty(b.locals[0])
                and any(wire.first_word(f) for _, f in templates_in(m, b))}
    n = 0
    for v in sorted(sw[1]):
        if v not in rsw[1] or rsw[1][v] == rsw[2]:
            continue
        dreg = m.arm_region(d, sw, v)
        rreg = m.arm_region(rb, rsw, v)
        if not dreg or not rreg:
            continue
        dt = _field_transforms(m, d, dreg, skip=builders)
        rt = _field_transforms(m, rb, rreg, skip=builders)
        for (var, fld) in sorted(set(dt) & set(rt)):
            if var != v:
                continue
            n += 1
            a, b_ = dt[(var, fld)], rt[(var, fld)]
            ck.ob(rule, 'dispatcher', '%s.%s:same-derivation' % (v, fld), a == b_,
                  'handler and replication table apply %s to %s.%s' % (sorted(a) or 'nothing', v, fld) if a == b_ else
                  'the handler applies %s to %s.%s, the replication table %s: the message the other nodes receive is built from a different '
                  'string than the one stored here' % (sorted(a) or 'nothing', v, fld, sorted(b_) or 'nothing'), d.loc(sw[1][v]))
    ck.floor(rule, n, 4, 'request fields used by both a handler arm and its replication arm')


def forwarded_messages_agree_with_the_table(ck, m, rule='C04.p'):
    """C04.p — see RULES"""
    P = m.prog
    ck.rule(rule, 'a command that a non-primary node forwards to the primary is the command the replication table would emit for it: every message '
                  'handed to the forwarder has, for its command word, as many fields as the message the table (or the full form of the parser) emits for '
                  'that word — a forward built with a shorter helper (create-db without the conflict strategy) makes the primary and, through it, '
                  'the other nodes create something else than the node the client talked to')
    fw = repl.forwarder(m)
    em = repl.table_emissions(m)
    by_word = {}
    for v, fs in em.items():
        for f in fs:
            w = wire.first_word(f)
            if w:
                by_word.setdefault(w, set()).add(len(f.text().strip().split(' ')))
    n, bad = 0, []
    d, sw = m.dispatcher()
    fam = [d] + [P.bodies[k] for k in P.bodies if k.startswith(d.id + '::{closure')]
    for b in fam:
        for bi, t in b.calls():
            if callee(t) != fw.id:
                continue
            for a in t['args']:
                p_ = a.get('m') or a.get('c')
                if p_ is None or not core.is_str_ty(b.locals[p_['l']]):
                    continue
                fs, _o = wire.message_templates(P, b, a)
                for f in fs:
                    w = wire.first_word(f)
                    if not w or w not in by_word:
                        continue
                    n += 1
                    k = len(f.text().strip().split(' '))
                    if k not in by_word[w]:
                        bad.append('`%s` forwarded with %d fields at %s, the replication table emits it with %s' % (w, k, b.loc(bi), sorted(by_word[w])))
    ck.ob(rule, short(fw.id), 'forwarded-messages-agree-with-the-table', not bad,
          'the %d forwarded messages have the shape the replication table emits for their command word' % n if not bad else
          '; '.join(sorted(set(bad))[:3]), '%s:%s' % (fw.file, fw.line))
    ck.floor(rule, n, 3, 'forwarded messages whose command word the replication table emits too')
