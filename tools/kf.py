#!/usr/bin/env python3
"""kf.py known <prop> <key> <what>   |   kf.py fixed <prop> <commit-subject-prefix> <key> <what>"""
import json, sys, subprocess
p = '/verif/known_findings.json'
kf = json.load(open(p))
mode, prop = sys.argv[1], sys.argv[2]
if mode == 'known':
    key, what = sys.argv[3], sys.argv[4]
    kf = [e for e in kf if not (e['property'] == prop and e['key'] == key)]
    kf.append({'property': prop, 'status': 'known', 'key': key, 'what': what})
else:
    prefix, key, what = sys.argv[3], sys.argv[4], sys.argv[5]
    log = subprocess.check_output(['git', '-C', '/repo', 'log', '--format=%h %s'], text=True).strip().split('\n')
    c = [l.split()[0] for l in log if l.split(' ', 1)[1].startswith(prefix)][0]
    kf = [e for e in kf if not (e['property'] == prop and e['key'] == key)]
    kf.append({'property': prop, 'status': 'fixed', 'commit': c, 'key': key, 'what': 'fixed: property=%s %s %s' % (prop, c, what)})
json.dump(kf, open(p, 'w'), indent=1)
