#!/bin/sh
# Build the fact extractor and warm the dependency metadata of /repo (offline).
set -e
cd "$(dirname "$0")"
export CARGO_NET_OFFLINE=true
(cd engine/driver && cargo build --release --offline 2>&1 | tail -2)
python3 - <<'PY'
import sys
sys.path.insert(0, 'engine')
from nl import core
out, info = core.extract('dev')
print('facts:', out, info)
PY
