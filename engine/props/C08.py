"""C08 — secure ($$) keys are invisible and immutable to non-administrators.

Decides (family G + guard predicates), for every dispatcher arm, that each read / write /
subscription on `Database.map` / `Watchers.map` is bound to the secure-key guard called with
the very key the effect uses, or to the administrator guard, or uses a key that is provably
not a `$$` key.  Does NOT decide the two-run non-interference statement.
"""
from nl import core
from nl.core import origins, callee, callee_decl, is_log, bool_switches, reachable_without, const_str
from nl.model import short

RULES = {
    'C08.a': 'every map-read / map-write / watch-subscribe effect reachable from a dispatcher arm is under '
             'the admin guard, or under the secure-key guard called with the same key, or its key is a '
             'constant-prefixed string that cannot start with the secure prefix, or comes from a listing '
             'that hides secure keys from non-administrators',
    'C08.a.guard-internal': 'code inside the guard functions touches only the permission list of the session '
                            'user and sends only constant refusal texts',
    'C08.b': 'guard predicates: the secure-key guard hands the closure on only if !starts_with(key, "$$") or '
             'the client is admin; has_permission answers is_admin for "$$" keys; one "$$" constant',
    'C08.c': 'the listing hides "$$" keys unless its flag is set, and the Keys arm derives the flag from '
             'the administrator flag of the session',
    'C08.d': 'the tombstone path refuses the database token key before any effect, for every caller',
    'C08.f': 'no argument of a client command can carry a line break into the node-to-node stream, where the text after it would '
             'run with administrator rights and could rewrite $$ keys (same rule as C09.e)',
    'C08.e': 'the rp wrapper re-enters the dispatcher with the client it received',
    'C08.h': 'what a session is told depends on its own permission list only (C09.d, repeated): every list the permission check reads is '
             'named after the session\'s user — a fallback to another list makes a non-administrator\'s replies a function of $$ keys that '
             'are not its own',
    'C08.i': 'nobody becomes administrator without the whole credential (C09.c auth-store, repeated): the administrator flag of a session is '
             'stored only after both credential comparisons (full equality) — an administrator may read and write every $$ key',
    'C08.g': 'a refused command is not replicated (C09.a.reply, repeated): an arm whose replication-table arm emits answers success only '
             'through its guard, and an Error answer of the guard can not reach a locally built success — the secure-key refusal is an '
             'Error like any other; answered Ok, the replication table sends the refused command to the other nodes, which run it with '
             'administrator rights and overwrite the $$ key there',
}

SENSITIVE = ('map-read', 'map-write', 'map-bulk-read', 'map-bulk-write', 'watch-write')


def keydesc(ex, vals):
    return sorted(ex.describe(v) for v in vals)


def same_key(ex, eff_vals, guard_vals):
    if not eff_vals or not guard_vals:
        return False
    return set(eff_vals) <= set(guard_vals)


def is_admin_flag(ex, f):
    """abstract value = the session's administrator flag (is_admin_auth(), or the load of Client.auth)"""
    if f[0] != 'call':
        return False
    f2 = ex.frames[f[1]]
    t = f2.body.term(f[2])
    if callee(t).endswith('bo::Client::is_admin_auth'):
        return True
    if core.is_atomic_load(t):
        for v in ex.absvals(f2, t['args'][0]):
            path = v[-1] if isinstance(v[-1], tuple) else ()
            if any(s[0] == 'f' and s[2] == 'auth' and s[3].endswith('bo::Client') for s in path):
                return True
    return False


def listed_ok(m, ex, v):
    """v = ('summary','listed', fid, bi, path): the listing call hides secure keys from
    non-admins iff its flag argument is the constant false or the session's admin flag"""
    fr = ex.frames[v[2]]
    t = fr.body.term(v[3])
    if len(t['args']) < 3:
        return False, 'no-flag'
    flags = ex.absvals(fr, t['args'][2])
    desc = sorted(ex.describe(x) for x in flags)
    ok = bool(flags)
    for f in flags:
        if f[0] == 'const':
            import json
            c = json.loads(f[1])
            if c.get('v') is False:
                continue
            ok = False
        elif is_admin_flag(ex, f):
            continue
        else:
            ok = False
    return ok, 'flag=%s' % desc


def judge(m, ex, prefix, variant, ev, kind, info):
    """-> (ok, reason)"""
    g = ev.guards
    if m.has_admin(g):
        return True, 'admin guard'
    key = info.get('key')
    safe = m.entries(g, 'safe')
    if kind in ('map-bulk-read', 'map-bulk-write'):
        # iteration over the whole map: only the listing function may do it outside the admin guard
        if ev.frame.body.id == m.lister().id or (ev.frame.body.parent or '').startswith(m.lister().id):
            return True, 'inside the key listing (filter checked by C08.c)'
        if kind == 'map-bulk-read' and ev.frame.body.id in filtered_scanners(m, prefix):
            okf, whyf = scanner_flag_ok(m, ex, ev)
            if okf:
                return True, 'inside a scan that applies the listing\'s secure-key filter, called with %s' % whyf
            return False, 'scan behind the secure-key filter but called with %s (not the administrator flag / false)' % whyf
        return False, 'iterates the whole map outside the admin guard'
    if safe:
        gk = safe[-1][2]
        if same_key(ex, key, gk):
            return True, 'secure-key guard called with the same key'
        if m.key_is_constant_secure(gk, prefix):
            return True, 'secure-key guard called with a constant %s key (admin only)' % prefix
    if key is not None and m.key_is_provably_not_secure(key, prefix):
        return True, 'key cannot start with %s: %s' % (prefix, keydesc(ex, key))
    if key is not None and key and all(v[0] == 'summary' and v[1] == 'listed' for v in key):
        oks = [listed_ok(m, ex, v) for v in key]
        if all(o for o, _ in oks):
            return True, 'key comes from a listing that hides %s keys (%s)' % (prefix, oks[0][1])
        return False, 'key comes from a listing that may include %s keys (%s)' % (prefix, '; '.join(r for _, r in oks))
    return False, 'key %s is not bound to the guard key %s' % (
        keydesc(ex, key or ()), keydesc(ex, safe[-1][2]) if safe else '(no secure-key guard)')


def credential_reader_ok(m, ex, ev):
    """UseDb exception: the function that performs the read compares the value with the presented
    token and returns only the boolean: no other use of the entry (no send, no format outside log)"""
    b = ev.frame.body
    if b.locals[0] != 'bool':
        return False, 'reader does not return bool'
    allowed = ('std::sync::RwLock::read', 'std::result::Result::unwrap', 'std::result::Result::expect',
               'std::ops::Deref::deref', 'std::collections::HashMap::get', 'std::string::ToString::to_string',
               'std::cmp::PartialEq::eq', 'std::cmp::PartialEq::ne', 'std::fmt::format', 'std::hint::must_use',
               'std::fmt::rt::Argument::new_display', 'std::fmt::Arguments::new')
    for bi, t in b.calls():
        if is_log(t):
            continue
        d = callee_decl(t)
        if d not in allowed:
            return False, 'reader calls %s' % d
    return True, 'value flows only into an equality test'


def run(ck, m):
    _run(ck, m)
    from props import C09
    C09.framing_rule(ck, m, rule='C08.f')
    from nl import alias
    alias.repeat(ck, m, 'C09', ('C09.a.reply',), 'C08.g', floor=12, runner=C09.replies)
    alias.repeat(ck, m, 'C09', ('C09.c',), 'C08.i', runner=C09.writers, key_filter=lambda k: 'auth-store' in k)
    alias.repeat(ck, m, 'C09', ('C09.d',), 'C08.h', runner=C09.fresh_credentials, key_filter=lambda k: 'permission-list-of-the-session-user' in k)
    ck.rule('C08.j', 'a listing is filtered for the session that asks (C01.c answer-computed-by-this-call, repeated): the lister scans the map on every '
                     'path — a remembered answer was filtered with the administrator flag of whoever asked first')
    alias.repeat(ck, m, 'C01', ('C01.c',), 'C08.j', key_filter=lambda k: 'answer-computed-by-this-call' in k)


def _run(ck, m):
    for k, v in RULES.items():
        ck.rule(k, v)
    ex = m.explorer()
    try:
        prefix = m.secure_prefix()
    except core.AnchorError as e:
        gb, spec = m.guard_of_kind('safe')
        ck.ob('C08.b', short(gb.id), 'secure-prefix-test', False,
              'the secure-key guard no longer tests its key against a constant prefix (%s)' % e, '%s:%s' % (gb.file, gb.line))
        prefix = '$$'
    disp, sw = m.dispatcher()
    n_arms = 0
    n_eff = 0
    for variant in m.variants():
        if variant not in sw[1]:
            ck.ob('C08.a', 'dispatcher', 'arm:%s' % variant, False, 'variant has no dispatcher arm', disp.loc(sw[0]),
                  verdict='inconclusive')
            continue
        n_arms += 1
        effs, raw = m.arm_effects(variant)
        seen = {}
        for ev, kind, info in effs:
            if kind not in SENSITIVE:
                continue
            locks = {l for l, _ in info.get('locks', ())}
            if not (locks & {'Database.map', 'Watchers.map'}):
                continue   # a local map that is not shared state
            if kind == 'watch-write' and info.get('method') not in ('insert', 'entry', 'get_mut'):
                continue
            n_eff += 1
            fn = short(ev.frame.body.id)
            if m.in_guard(ev.guards):
                # guard internals: only the session user's permission list may be read
                key = info.get('key')
                ok = kind == 'map-read' and key and all(
                    (ex.literal_prefix(v)[0] or '').startswith('$$permission_$') for v in key)
                inst = '%s:%s' % (kind, ','.join(keydesc(ex, key or ())))
                ck.ob('C08.a.guard-internal', fn, inst, bool(ok),
                      'guard-internal %s of key %s' % (kind, keydesc(ex, key or ())), ev.loc())
                continue
            ok, why = judge(m, ex, prefix, variant, ev, kind, info)
            if not ok and variant == 'UseDb' and kind == 'map-read':
                key = info.get('key') or ()
                if key and m.key_is_constant_secure(key, prefix):
                    ok2, why2 = credential_reader_ok(m, ex, ev)
                    if ok2:
                        ok, why = True, 'login credential check: ' + why2
                    else:
                        why = why + '; ' + why2
            if not ok and variant in ('UnWatch', 'UnWatchAll') and kind == 'watch-write':
                ok2, why2 = unwatch_removes_only_own(m, ev)
                if ok2:
                    ok, why = True, why2
            inst = '%s:%s:%s' % (variant, kind, ','.join(keydesc(ex, info.get('key') or ())) or info.get('method'))
            prev = seen.get((fn, inst))
            if prev is None or (prev and not ok):
                seen[(fn, inst)] = ok
                ck.ob('C08.a', fn, inst, ok,
                      'arm %s: %s in %s — %s (via %s)' % (variant, kind, fn, why, ev.chain_str()), ev.loc())
        # redispatch (C08.e)
        for ev in raw:
            if ev.kind == 'stop':
                t = ev.term
                vals = ex.absvals(ev.frame, t['args'][2]) if len(t['args']) > 2 else frozenset()
                same = bool(vals) and all(v[0] == 'top' and v[1] == 3 and not [s for s in v[2] if s[0] != 'o'] for v in vals)
                ck.ob('C08.e', short(ev.frame.body.id), 'redispatch:%s' % variant, same,
                      'arm %s re-enters the dispatcher with client = %s' % (variant, keydesc(ex, vals)), ev.loc())
    ck.floor('C08.a', n_arms, 37, 'dispatcher arms analysed')
    ck.floor('C08.a', n_eff, 60, 'sensitive effects judged')
    guard_predicates(ck, m, prefix)
    listing(ck, m, prefix)
    token_irremovable(ck, m)


def unwatch_removes_only_own(m, ev):
    """the watch-list rewrite in unwatch_key stores a list obtained by `retain(|x| !x.same_receiver(caller))`"""
    b = ev.frame.body
    # find a Vec::retain call whose closure negates same_receiver
    for bi, t in b.calls():
        if callee_decl(t) == 'std::vec::Vec::retain':
            for r in origins(b, t['args'][1]):
                if r[0] == 'closure':
                    cb = m.prog.bodies.get(r[1])
                    if cb is None:
                        continue
                    for cbi, ct in cb.calls():
                        if callee_decl(ct).endswith('mpsc::Sender::same_receiver'):
                            # return value must be the negation
                            d = ct['d']['l']
                            der = core.derived_bools(cb, d)
                            rets = [p for p in der if p == 0]
                            if 0 in der and der[0] is False:
                                return True, 'removes only senders that are same_receiver as the caller'
                            return False, 'retain predicate does not negate same_receiver'
    return False, 'no retain(!same_receiver) found in %s' % short(b.id)


# ------------------------------------------------------------------------------------------
def guard_predicates(ck, m, prefix):
    gb, spec = m.guard_of_kind('safe')
    fn = short(gb.id)
    # the call that hands the closure on (inner guard call or direct invocation)
    G = m.guards()
    inner = [bi for bi, t in gb.calls() if callee(t) in G or callee_decl(t) in ('std::ops::Fn::call',)]
    sw_calls = [(bi, t) for bi, t in gb.calls() if callee_decl(t) == 'std::str::starts_with']
    adm_calls = [(bi, t) for bi, t in gb.calls() if callee(t).endswith('bo::Client::is_admin_auth')]
    ok = False
    why = 'no starts_with / is_admin_auth test found'
    if inner and sw_calls and adm_calls:
        # key operand of starts_with must be the key parameter
        recv_ok = any(r[0] == 'param' and r[1] == spec['key_param'] for r in origins(gb, sw_calls[0][1]['args'][0]))
        cut = set()
        for bi, t in sw_calls:
            for (sbi, tt, ft) in bool_switches(gb, bi):
                cut.add((sbi, ft))       # starts_with == false -> allowed
        for bi, t in adm_calls:
            for (sbi, tt, ft) in bool_switches(gb, bi):
                cut.add((sbi, tt))       # is_admin == true -> allowed
        reach = reachable_without(gb, cut)
        leaked = [bi for bi in inner if bi in reach]
        ok = recv_ok and not leaked and bool(cut)
        why = 'closure handed on only if !starts_with(key,%r) or is_admin' % prefix if ok else \
            'closure reachable with a secure key and a non-admin client (receiver is key param: %s)' % recv_ok
    ck.ob('C08.b', fn, 'secure-prefix-test', ok, why, '%s:%s' % (gb.file, gb.line))
    # refusal precedes any database access: no lock acquisition dominates-free before the test
    first_lock = [bi for bi, t in gb.calls() if callee_decl(t) in ('std::sync::RwLock::read', 'std::sync::RwLock::write')]
    ck.ob('C08.b', fn, 'refusal-before-access', not first_lock,
          'the secure-key guard takes no lock itself before deciding' if not first_lock else 'guard locks before the prefix test',
          '%s:%s' % (gb.file, gb.line))
    # has_permission: found as the bool-returning callee of the dbname_perm guard taking PermissionKind
    pb, pspec = m.guard_of_kind('dbname_perm')
    hp = None
    for ub_ in [pb] + [b_ for b_ in m.prog.user_bodies() if b_.parent == pb.id]:
        for bi, t in ub_.calls():
            cb = m.prog.bodies.get(callee(t))
            if cb is not None and cb.locals[0] == 'bool' and any('PermissionKind' in x for x in cb.locals[1:cb.argc + 1]):
                hp = cb
    if hp is None:
        ck.undecided('C08.b', short(pb.id), 'permission-check', 'no bool permission check called by the permission guard')
        return
    okp = False
    whyp = 'no starts_with test'
    for bi, t in hp.calls():
        if callee_decl(t) == 'std::str::starts_with':
            c = [const_str(r) for r in origins(hp, t['args'][1])]
            sws = bool_switches(hp, bi)
            if sws and c == [prefix]:
                sbi, tt, ft = sws[0]
                # on the true branch the returned bool must come from is_admin_auth only
                region = {b for b in hp.reachable() if hp.dominates(tt, b)}
                rets = set()
                for (dbi, dsi, kind, pl) in hp.defs().get(0, []):
                    if dbi in region:
                        if kind == 'call':
                            rets.add(callee(pl))
                        else:
                            rets.add('assign')
                okp = bool(rets) and all(r.endswith('bo::Client::is_admin_auth') for r in rets)
                whyp = 'for %r keys the answer is is_admin_auth()' % prefix if okp else 'answer for secure keys comes from %s' % sorted(rets)
            else:
                whyp = 'prefix constant %r differs from the guard prefix %r' % (c, prefix)
    ck.ob('C08.b', short(hp.id), 'secure-keys-admin-only', okp, whyp, '%s:%s' % (hp.file, hp.line))


def scanner_filter_ok(m, lb, prefix):
    """does the body filter what it iterates with `flag || !starts_with(key, prefix)`, flag = its own bool parameter?"""
    bool_params = [i for i in range(1, lb.argc + 1) if lb.locals[i] == 'bool']
    if len(bool_params) != 1:
        return False
    fp = bool_params[0]
    # the filter may be a closure handed to an iterator adaptor, or sit in a loop of the scanner itself
    closures = [b for b in m.prog.user_bodies() if b.parent == lb.id] + [lb]
    found = False
    for cb in closures:
        for bi, t in cb.calls():
            cal = m.prog.bodies.get(callee(t))
            if cal is not None and cal.locals[0] == 'bool' and cal.argc == 2 and cal.locals[1] == 'bool':
                # filter_system_keys(flag, key): result = flag || !starts_with(prefix)
                sws = [(b2, t2) for b2, t2 in cal.calls() if callee_decl(t2) == 'std::str::starts_with']
                consts = set()
                for b2, t2 in cal.calls():
                    for a in t2['args']:
                        for r in origins(cal, a):
                            s = const_str(r)
                            if s is not None:
                                consts.add(s)
                flag_sw = bool_switches(cal, local=1)
                if sws and prefix in consts and flag_sw:
                    # when flag is false the result must be the negated starts_with
                    der = core.derived_bools(cal, sws[0][1]['d']['l'])
                    neg = [l for l, pol in der.items() if pol is False]
                    rets_from_neg = any(
                        (k == 'assign' and pl['k'] == 'use' and (pl['o'].get('c') or pl['o'].get('m') or {}).get('l') in neg)
                        or (k == 'assign' and pl['k'] == 'un' and pl['op'] == 'Not')
                        for (_, _, k, pl) in cal.defs().get(0, []))
                    # the flag argument passed by the closure must be the scanner's bool parameter (captured)
                    flag_from_param = False
                    for r in origins(cb, t['args'][0]):
                        if cb is lb and r[0] == 'param' and r[1] == fp:
                            flag_from_param = True
                        if r[0] == 'capture':
                            site = m.prog.closure_sites().get(cb.id)
                            if site:
                                for r2 in origins(site[0], site[3][r[1]]):
                                    if r2[0] == 'param' and r2[1] == fp:
                                        flag_from_param = True
                    found = found or (rets_from_neg and flag_from_param)
    return found


_SCANNERS = {}


def filtered_scanners(m, prefix):
    """Database methods that iterate the shared map behind the secure-key filter (list_keys and its siblings: counts, ...)"""
    if _SCANNERS.get('prog') is not m.prog:
        _SCANNERS.clear()
        _SCANNERS['prog'] = m.prog
        ids = set()
        for b in m.prog.user_bodies():
            if b.kind == 'method' and b.argc >= 2 and b.locals[1] == '&nundb::bo::Database' and any(ty == 'bool' for ty in b.locals[2:b.argc + 1]):
                if scanner_filter_ok(m, b, prefix):
                    ids.add(b.id)
        _SCANNERS['ids'] = ids
    return _SCANNERS['ids']


def scanner_flag_ok(m, ex, ev):
    """the flag the scanner was called with is the constant false or the session's administrator flag"""
    fr = ev.frame
    b = fr.body
    fp = [i for i in range(1, b.argc + 1) if b.locals[i] == 'bool']
    if len(fp) != 1:
        return False, 'no flag'
    flags = fr.env.get(fp[0], ())
    ok = bool(flags)
    for f in flags:
        if f[0] == 'const':
            import json
            if json.loads(f[1]).get('v') is False:
                continue
            ok = False
        elif is_admin_flag(ex, f):
            continue
        else:
            ok = False
    return ok, 'flag=%s' % sorted(ex.describe(x) for x in flags)


def listing(ck, m, prefix):
    lb = m.lister()
    fn = short(lb.id)
    found = scanner_filter_ok(m, lb, prefix)
    ck.ob('C08.c', fn, 'hides-secure-keys', found,
          'listing filter = flag || !starts_with(key, %r), flag = the lister\'s parameter' % prefix if found
          else 'listing filter does not combine its flag with a !starts_with(%r) test' % prefix,
          '%s:%s' % (lb.file, lb.line))
    # Keys arm: flag originates from is_admin_auth
    ex = m.explorer()
    effs, raw = m.arm_effects('Keys')
    n = 0
    for ev in raw:
        if ev.kind in ('local-call',) and ev.name == lb.id:
            n += 1
            flags = ex.absvals(ev.frame, ev.term['args'][2])
            ok = bool(flags) and all(is_admin_flag(ex, f) for f in flags)
            ck.ob('C08.c', 'dispatcher', 'Keys:flag-origin', ok,
                  'Keys arm lists with flag = %s' % keydesc(ex, flags), ev.loc())
    ck.floor('C08.c', n, 1, 'listing calls in the Keys arm')


def token_irremovable(ck, m):
    """the function that tombstones / drops entries (calls HashMap::remove on Database.map) refuses
    the token key before any effect"""
    cands = []
    for b in m.prog.user_bodies():
        if b.kind != 'method' or b.locals[0] != 'nundb::bo::Response':
            continue
        for bi, t in b.calls():
            if t['f'].get('dargs', '').startswith('std::collections::HashMap::<std::string::String, nundb::bo::Value>::remove'):
                cands.append(b)
                break
    if len(cands) != 1:
        ck.undecided('C08.d', 'remover', 'anchor', 'expected one Database method removing map entries, found %d' % len(cands))
        return
    b = cands[0]
    fn = short(b.id)
    # token constant
    tok_sw = []
    for bi, t in b.calls():
        if callee_decl(t) in ('std::cmp::PartialEq::eq',):
            cs = [const_str(r) for a in t['args'] for r in origins(b, a)]
            if any(c and c.startswith('$$') for c in cs if c):
                keyed = any(r[0] == 'param' and r[1] == 2 for a in t['args'] for r in origins(b, a))
                for (sbi, tt, ft) in bool_switches(b, bi):
                    tok_sw.append((sbi, tt, ft, [c for c in cs if c], keyed))
    if not tok_sw:
        ck.ob('C08.d', fn, 'token-refusal', False, 'no comparison of the key with a $$ constant found', '%s:%s' % (b.file, b.line))
        return
    # the refused constant must be the key the token validator reads (found as the whole-constant key of a
    # credential read in the UseDb arm)
    ex = m.explorer()
    tokens = set()
    effs, raw = m.arm_effects('UseDb')
    for ev, kind, info in effs:
        if kind == 'map-read' and ev.frame.body.locals[0] == 'bool':
            for v in info.get('key', ()):
                lit, whole = ex.literal_prefix(v)
                if whole and lit:
                    tokens.add(lit)
    tok_sw = [x for x in tok_sw if set(x[3]) & tokens] or [(x[0], x[1], x[2], x[3], False) for x in tok_sw[:1]]
    sbi, tt, ft, cs, keyed = tok_sw[0]
    if not (set(cs) & tokens):
        ck.ob('C08.d', fn, 'token-refusal', False,
              'remove refuses %s, but the database token is stored under %s: the token can be removed' % (cs, sorted(tokens)), b.loc(sbi))
        return
    # with the "not equal" edge cut, no effectful call is reachable and the return is an Error aggregate
    reach = reachable_without(b, {(sbi, ft)})
    bad = []
    for bi, t in b.calls():
        if bi in reach and not is_log(t):
            d = callee_decl(t)
            cal = m.prog.bodies.get(callee(t))
            if cal is not None or d in ('std::sync::RwLock::write', 'std::sync::RwLock::read') or 'HashMap' in d or 'try_send' in d:
                # calls before the test are fine only if they dominate the switch
                if not b.dominates(bi, sbi):
                    bad.append('%s@%s' % (d.split('::')[-1], b.loc(bi)))
    # effects before the test
    pre = []
    for bi, t in b.calls():
        if b.dominates(bi, sbi) and bi != sbi and not is_log(t):
            d = callee_decl(t)
            if d in ('std::sync::RwLock::write',) or 'HashMap' in d or 'try_send' in d or m.prog.bodies.get(callee(t)) is not None:
                pre.append('%s@%s' % (d.split('::')[-1], b.loc(bi)))
    ok = keyed and not bad and not pre
    ck.ob('C08.d', fn, 'token-refusal', ok,
          'key == %r is refused before any effect' % cs[0] if ok else
          'token refusal incomplete: key-param compared=%s effects on refusal path=%s effects before test=%s' % (keyed, bad, pre),
          b.loc(sbi))
