"""Shared facts about the replication path: replication-table emissions, forwarder calls, the
fan-out, receiver variants (through the parser schemas)."""
from nl import core, wire, locks
from nl.core import origins, callee, callee_decl, is_log, bool_switches, const_str
from nl.model import short
from props import C10

ROLE = 'nundb::bo::ClusterRole'


def schemas(m):
    prods, sch = C10.wire_facts(m)
    return sch


def receiver_variants(m, fmt):
    """variants the receiving node's parser builds for a template (by its first word; for `election`
    by the literal second token)"""
    sch = schemas(m)
    w = wire.first_word(fmt)
    if w not in sch:
        return None, w
    top, variants, reason = sch[w]
    if w == 'election':
        toks = wire.template_tokens(fmt)
        lit = ''.join(p[1] for p in toks[1] if p[0] == 'lit') if len(toks) > 1 else ''
        if lit == 'win':
            return ['ElectionWin'], w
        if lit == 'candidate':
            return ['Election'], w
        return ['ElectionActive'], w
    return variants, w


def forwarder(m):
    """send_message_to_primary: the body that walks the cluster members and sends only in the
    Primary arm of the member's role"""
    out = []
    for b in m.prog.user_bodies():
        if b.kind not in ('fn', 'method') or b.locals[0] != '()':
            continue
        if b.argc < 1 or not any(core.is_str_ty(ty) for ty in b.locals[1:b.argc + 1]):
            continue
        sw = role_switch(m, b)
        if not sw:
            continue
        sbi, tm = sw
        senders = sending_blocks(m, b)
        if not senders:
            continue
        arms = {v: {x for x in b.reachable() if b.dominates(tb, x)} for v, tb in tm.items()}
        in_primary = all(x in arms.get('Primary', ()) for x in senders)
        if in_primary:
            out.append(b)
    if len(out) != 1:
        raise core.AnchorError('forwarder (String, &Arc<Databases>) sending only to the Primary member: found %d' % len(out))
    return out[0]


def role_switch(m, b):
    """(switch block, {RoleVariant: target}) for a switch over discriminant(ClusterRole) in b"""
    for bi in sorted(b.reachable()):
        t = b.term(bi)
        if t['k'] != 'switch':
            continue
        for r in origins(b, t['o']):
            if r[0] == 'discr':
                rv = b.blocks[r[1]]['s'][r[2]]['r']
                if rv['adt'] == ROLE:
                    tm = {}
                    names = [v['name'] for v in m.prog.adts[ROLE]['variants']]
                    for v, tb in t['targets']:
                        tm[m.prog.variant_of_discr(ROLE, v)] = tb
                    for n in names:
                        tm.setdefault(n, t['else'])
                    return bi, tm
    # `if member.role == ClusterRole::X` / `!=`: the derived PartialEq compared with one constant variant
    names = [v['name'] for v in m.prog.adts[ROLE]['variants']]
    for bi, t in b.calls():
        d = core.callee_decl(t)
        if d not in ('std::cmp::PartialEq::eq', 'std::cmp::PartialEq::ne') or ROLE not in t['f'].get('dargs', ''):
            continue
        consts = set()
        for a in t['args']:
            vs = core.enum_variants_of(b, a)
            if vs and '?' not in vs and len(vs) == 1:
                consts |= set(vs)
        if len(consts) != 1:
            continue
        x = next(iter(consts))
        for (sw, tt, ft) in core.bool_switches(b, bi):
            if d.endswith('::ne'):
                tt, ft = ft, tt
            tm = {n: (tt if n == x else ft) for n in names}
            return sw, tm
    return None


_SENDS = {}


def sends_member(m, body_id, seen=None):
    """does the body (transitively) try_send on a cluster member's channel?"""
    if body_id in _SENDS and _SENDS.get('prog') is m.prog:
        return _SENDS[body_id]
    if _SENDS.get('prog') is not m.prog:
        _SENDS.clear()
        _SENDS['prog'] = m.prog
    seen = seen or set()
    if body_id in seen:
        return False
    seen.add(body_id)
    b = m.prog.bodies.get(body_id)
    res = False
    if b is not None:
        for bi, t in b.calls():
            if is_log(t):
                continue
            d = callee_decl(t)
            if d.endswith('mpsc::Sender::try_send'):
                kinds = wire.channel_kinds(m.prog, b, t['args'][0])
                if 'member' in kinds:
                    res = True
            cb = m.prog.bodies.get(callee(t))
            if cb is not None and not t['f'].get('ind') and sends_member(m, cb.id, seen):
                res = True
    _SENDS[body_id] = res
    return res


def sending_blocks(m, b):
    out = []
    for bi, t in b.calls():
        if is_log(t):
            continue
        d = callee_decl(t)
        if d.endswith('mpsc::Sender::try_send') and 'member' in wire.channel_kinds(m.prog, b, t['args'][0]):
            out.append(bi)
        else:
            cb = m.prog.bodies.get(callee(t))
            if cb is not None and not t['f'].get('ind') and sends_member(m, cb.id):
                out.append(bi)
    return out


def fanout_loop(m):
    """the replication loop: the coroutine that receives from the replication channel and switches
    on the node's role"""
    out = []
    for b in m.prog.user_bodies():
        if b.kind != 'coroutine':
            continue
        sw = role_switch(m, b)
        if sw and sending_blocks(m, b):
            out.append((b, sw))
    if len(out) != 1:
        raise core.AnchorError('replication fan-out loop (coroutine switching on ClusterRole and sending): found %d' % len(out))
    return out[0]


def not_primary_region(m, b):
    """blocks of b dominated by the false edge of every is_primary() test they depend on:
    returns the set of blocks that run only when Databases::is_primary() answered false"""
    region = None
    for bi, t in b.calls():
        if callee(t).endswith('bo::Databases::is_primary'):
            for (sbi, tt, ft) in bool_switches(b, bi):
                r = {x for x in b.reachable() if b.dominates(ft, x) and not b.dominates(tt, x)}
                region = r if region is None else (region | r)
    return region or set()


def primary_region(m, b):
    region = set()
    for bi, t in b.calls():
        if callee(t).endswith('bo::Databases::is_primary'):
            for (sbi, tt, ft) in bool_switches(b, bi):
                region |= {x for x in b.reachable() if b.dominates(tt, x) and not b.dominates(ft, x)}
    return region


def table_emissions(m):
    """variant -> list of Fmt (inner messages) the replication table emits for it"""
    rb, rsw = m.replication_table()
    out = {}
    for variant, tb in rsw[1].items():
        if tb == rsw[2]:
            continue
        region = m.arm_region(rb, rsw, variant)
        fm = []
        for bi in sorted(region):
            t = rb.term(bi)
            if t['k'] != 'call' or is_log(t):
                continue
            if not rb.postdominates(bi, tb):
                continue      # emitted only on some paths of the arm (a match guard, an if): not a guaranteed emission
            cb = m.prog.bodies.get(callee(t))
            # replicate_web(sender, message) / replicate_message_with_sender: message = the String argument
            if cb is not None and sends_repl(m, cb.id):
                for a in t['args']:
                    p = a.get('m') or a.get('c')
                    if p is None:
                        continue
                    if core.is_str_ty(rb.locals[p['l']]):
                        f2, o2 = wire.message_templates(m.prog, rb, a)
                        fm += f2
        out[variant] = fm
    return out


_SR = {}


def sends_repl(m, body_id, seen=None):
    if _SR.get('prog') is not m.prog:
        _SR.clear()
        _SR['prog'] = m.prog
    if body_id in _SR:
        return _SR[body_id]
    seen = seen or set()
    if body_id in seen:
        return False
    seen.add(body_id)
    b = m.prog.bodies.get(body_id)
    res = False
    if b is not None:
        for bi, t in b.calls():
            if is_log(t):
                continue
            if callee_decl(t).endswith('mpsc::Sender::try_send'):
                kinds = wire.channel_kinds(m.prog, b, t['args'][0])
                if 'repl' in kinds:
                    res = True
            cb = m.prog.bodies.get(callee(t))
            if cb is not None and not t['f'].get('ind') and sends_repl(m, cb.id, seen):
                res = True
    _SR[body_id] = res
    return res



def startup_unit(m):
    """(start body, block of the Databases construction, decision body, block of the flag read in it, block in the start
    body that calls the decision body or None when they are the same).  The decision may live in a helper the start body
    calls before it builds Databases."""
    P = m.prog
    out = []
    # a helper that inline.py spliced into its only caller stays in the program as a body of its own: it is judged where it was spliced in
    spliced = {r.get('tree') for r in (getattr(P, 'renamed', None) or []) if r.get('kind') == 'inlined-helper'}
    for sb in P.user_bodies():
        if sb.id in spliced:
            continue
        cb = [bi for bi, t in sb.calls() if callee(t).endswith('db_ops::create_init_dbs')]
        if not cb:
            continue
        v = [bi for bi, t in sb.calls() if callee(t).endswith('disk_ops::is_oplog_valid')]
        if v:
            out.append((sb, cb[0], sb, v[0], None))
            continue
        for bi, t in sb.calls():
            hb = P.bodies.get(callee(t))
            if hb is None or t['f'].get('ind'):
                continue
            hv = [x for x, t2 in hb.calls() if callee(t2).endswith('disk_ops::is_oplog_valid')]
            if hv and sb.dominates(bi, cb[0]):
                out.append((sb, cb[0], hb, hv[0], bi))
    if len(out) != 1:
        raise core.AnchorError('expected one start-up unit (flag read, then Databases built), found %d' % len(out))
    return out[0]
