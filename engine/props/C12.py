"""C12 — the operation-log query never misses an operation.

Decides the structure around the query: (a) the record writer and the record reader agree on the
field widths and order (time 8 · key 8 · db 8 · op 1), on which field is which (traced from the
replication loop's producers to the OpLogRecord constructor's consumers), and every OP_RECORD_SIZE
constant equals the written width; last_op_time reads the first field of the last whole record;
(b) ReplicateOpp::to_u8 and From<u8> are inverse on every variant; (c) the query reads the live file
and every rotated file, rotation renames (never deletes) the full file, and rotated files are removed
only by the declutter timer's clean-up; (d) records are scanned oldest file first and the live file
last, because every insert overrides the previous label of a (db,key).
Does NOT decide the hand-written binary search, "keeps 9 files", or whether rotation can drop a record
inside the configured size: arithmetic over run-time values.
"""
from nl import core, codec
from nl.core import origins, callee, callee_decl, is_log, const_val
from nl.model import short
from props import repl

RULES = {
    'C12.a': 'oplog record: writer widths/order = reader widths/order; field roles agree; OP_RECORD_SIZE constants = written width; '
             'last_op_time reads the time field of the last whole record',
    'C12.b': 'ReplicateOpp::to_u8 and From<u8> are inverse on every variant',
    'C12.c': 'the query reads the live file and every rotated file; rotation renames; only the declutter clean-up removes rotated files',
    'C12.f': 'the clean-up of rotated files removes the OLDEST ones: the part of the listing it removes (suffix / prefix) agrees with '
             'the order the listing function sorts in (newest first / oldest first), counting reversals',
    'C12.g': 'the catch-up hands the requester\'s timestamp to the query unchanged ("at or after"): the argument of the oplog query in '
             'every caller originates from the caller\'s own parameter without arithmetic',
    'C12.h': 'an acknowledged record is in the file: the record writer flushes its buffered stream (flush, or a seek / stream_position on '
             'the BufWriter, which flush first) after the last field was written; and the reader\'s insert of a record into the result is '
             'unconditional (a later record of a (db,key) always replaces the earlier label, equal timestamps included)',
    'C12.e': 'the appender answers Ok only from a successful append: an Ok result is built only where the Ok edge of a call to the '
             'record writer dominates (after a rotation the record is appended again to the fresh file, so the live file is never '
             'left empty on a non-empty log and last_op_time stays the newest timestamp)',
    'C12.d': 'scan order: rotated files oldest first, live file last (later inserts override earlier labels)',
    'C12.i': 'the name a full oplog file is renamed to has a fresh component (clock or counter), it is not computed from the log itself: rename replaces an existing file of the same name',
    'C12.j': 'no function that opens the live oplog file (or a helper handed its name) truncates it (File::create, set_len, truncate(true))',
    'C12.k': 'the per-file search is left only after the forward scan, on a failed probe read, at the end of the file (a short read), or on '
             'a condition that consults both the probed time against `since` and the size of the file: giving up on the width of the search '
             'window alone skips a file whose next record is at or after `since`',
}


def run(ck, m):
    _run(ck, m)
    cleanup_rule(ck, m)
    since_rule(ck, m)
    search_exits(ck, m)
    scan_reads_every_field_each_round(ck, m)
    last_op_time_is_a_record_time(ck, m)


def _run(ck, m):
    for k, v in RULES.items():
        ck.rule(k, v)
    P = m.prog
    # anchors: writer = fn(&mut BufWriter<File>, u64, u64, &ReplicateOpp, u64) -> Result<u64,String>
    writers = [b for b in P.user_bodies() if b.kind in ('fn', 'method') and b.argc == 5 and 'ReplicateOpp' in b.locals[4]
               and b.locals[2] == 'u64' and b.locals[3] == 'u64' and b.locals[5] == 'u64']
    readers = [b for b in P.user_bodies() if b.kind == 'fn' and b.argc == 3 and b.locals[1] == 'std::fs::File' and b.locals[2] == 'u64'
               and 'OpLogRecord' in b.locals[3]]
    if len(writers) != 1 or len(readers) != 1:
        ck.undecided('C12.a', 'oplog', 'anchors', 'record writer / reader: found %d / %d' % (len(writers), len(readers)))
        return
    wb, rb = writers[0], readers[0]
    wl = codec.write_layout(wb)
    rl = codec.read_layout(rb)
    ww = [w for w, s, bi in wl]
    # the reader's inner loop reads the next record's time at its end: the first four reads are one record
    rw = [w for w, s, bi, base in rl]
    ok = ww == [8, 8, 8, 1] or (len(ww) == 4 and all(isinstance(x, int) for x in ww))
    same = rw[:len(ww)] == ww
    ck.ob('C12.a', short(wb.id), 'widths', ok and same,
          'writer fields %s = reader fields %s' % (ww, rw[:len(ww)]) if ok and same else 'writer writes %s, reader reads %s' % (ww, rw), '%s:%s' % (wb.file, wb.line))
    visible_rule(ck, m, wb, rb)
    total = sum(x for x in ww if isinstance(x, int))
    consts = codec.const_items(P, 'OP_RECORD_SIZE')
    bad = {k: v for k, v in consts.items() if v != {str(total)}}
    node_consts = {k: v for k, v in consts.items()}
    ck.ob('C12.a', 'constants', 'record-size', not bad and len(node_consts) >= 2,
          'every OP_RECORD_SIZE (%s) equals the %d bytes written' % (sorted(k.split('::')[-2] for k in consts), total) if not bad else
          'OP_RECORD_SIZE differs from the %d bytes written: %s' % (total, bad), '')
    # roles: writer param index per field; reader: which OpLogRecord::new argument each buffer reaches
    wroles = []
    for w, s, bi in wl:
        t = wb.term(bi)
        idx = None
        for r in origins(wb, t['args'][1]):
            if r[0] == 'param':
                idx = r[1]
            elif r[0] == 'call':
                for a in wb.term(r[1])['args']:
                    for r2 in origins(wb, a):
                        if r2[0] == 'param':
                            idx = r2[1]
        wroles.append(idx)
    # role of each writer parameter from the producers in the replication loop
    tw = [b for b in P.user_bodies() if any(callee(t) == wb.id for _, t in b.calls()) and b.id != wb.id]
    role_of_param = {}
    if tw:
        tb = tw[0]
        # map try_write params -> write params
        pmap = {}
        for bi, t in tb.calls():
            if callee(t) == wb.id:
                for i, a in enumerate(t['args']):
                    for r in origins(tb, a):
                        if r[0] == 'param':
                            pmap[r[1]] = i + 1
        lb, lsw = repl.fanout_loop(m)
        callers = [(lb, bi) for bi, t in lb.calls() if callee(t) == tb.id]
        for cb in P.user_bodies():
            if cb.id.startswith(lb.id + '::{closure'):
                callers += [(cb, bi) for bi, t in cb.calls() if callee(t) == tb.id]
        for cb, bi in callers:
            t = cb.term(bi)
            for i, a in enumerate(t['args']):
                wp = pmap.get(i + 1)
                if wp is None:
                    continue
                for r in origins(cb, a, stop_at_calls=True):
                    if r[0] == 'call':
                        n = callee(cb.term(r[1])).split('::')[-1]
                        if n == 'get_db_id':
                            role_of_param.setdefault(wp, set()).add('db')
                        elif n == 'generate_key_id':
                            role_of_param.setdefault(wp, set()).add('key')
                    elif r[0] == 'const' and isinstance(const_val(r), int):
                        role_of_param.setdefault(wp, set()).add('key')   # fixed key ids of create-db / snapshot
                    elif r[0] == 'capture' or r[0] == 'param':
                        pass
        # the time is the id carried by the rp wrapper: the remaining u64 parameter
    writer_roles = []
    for idx in wroles:
        rs = role_of_param.get(idx, set())
        if rs == {'db'}:
            writer_roles.append('db')
        elif rs == {'key'}:
            writer_roles.append('key')
        elif idx is not None and wb.locals[idx] == 'u64':
            writer_roles.append('time')
        else:
            writer_roles.append('op')
    # reader roles: buffer -> from_le_bytes -> OpLogRecord::new argument -> field name
    ctor = [b for b in P.user_bodies() if b.id.endswith('bo::OpLogRecord::new')]
    fieldname = {}
    if ctor:
        cbod = ctor[0]
        for r in core.place_origins(cbod, {'l': 0}):
            if r[0] == 'agg':
                rv = cbod.blocks[r[1]]['s'][r[2]]['r']
                for fname, op in zip(rv.get('fields', []), rv['ops']):
                    for r2 in origins(cbod, op):
                        if r2[0] == 'param':
                            fieldname[r2[1] - 1] = fname
    reader_roles = []
    news = [(bi, t) for bi, t in rb.calls() if ctor and callee(t) == ctor[0].id]
    for w, s, bi, base in rl[:len(ww)]:
        role = '?'
        for nbi, nt in news:
            for ai, a in enumerate(nt['args']):
                calls, params = slice_calls(rb, a)
                for c in calls:
                    ct = rb.term(c)
                    if callee_decl(ct).endswith('::from_le_bytes') or callee(ct).endswith('ReplicateOpp as std::convert::From<u8>>::from'):
                        for a2 in ct['args']:
                            p = a2.get('m') or a2.get('c')
                            if p and (p['l'] == base or any(r[0] != 'x' and _reads_local(rb, a2, base) for r in [(0,)])):
                                role = {'db': 'db', 'key': 'key', 'timestamp': 'time', 'opp': 'op'}.get(fieldname.get(ai, '?'), fieldname.get(ai, '?'))
        reader_roles.append(role)
    okr = writer_roles == reader_roles and '?' not in reader_roles
    if not okr and len(writer_roles) == len(reader_roles) and reader_roles.count('?') == 1 and '?' not in writer_roles \
            and all(r == w for r, w in zip(reader_roles, writer_roles) if r != '?') and len(set(writer_roles)) == len(writer_roles):
        # one buffer could not be followed (it is lent to a helper by &mut): every other field sits where the writer puts it and each role
        # occurs once, so the remaining buffer can only be the remaining field
        okr = True
    ck.ob('C12.a', short(rb.id), 'field-roles', okr,
          'writer order %s = reader order %s' % (writer_roles, reader_roles) if okr else
          'field roles differ: the writer stores %s, the reader interprets %s' % (writer_roles, reader_roles), '%s:%s' % (rb.file, rb.line))
    # last_op_time
    lot = [b for b in P.user_bodies() if b.id.endswith('Oplog::last_op_time')]
    if lot:
        lb_ = lot[0]
        ll = codec.read_layout(lb_)
        seek_ok = False
        for bi, t in lb_.calls():
            if callee_decl(t) == 'std::io::Seek::seek':
                calls, params = slice_calls(lb_, t['args'][1])
                subs = [s for bl in lb_.blocks for s in bl['s'] if s['k'] == 'assign' and s['r']['k'] == 'bin' and s['r']['op'].startswith('Sub')]
                seek_ok = bool(subs)
        okl = [w for w, s, bi, base in ll] == [8] and seek_ok
        ck.ob('C12.a', short(lb_.id), 'reads-time-of-last-record', okl,
              'last_op_time seeks to size - record size and reads the 8 byte time field' if okl else 'last_op_time layout %s' % ll, '%s:%s' % (lb_.file, lb_.line))
        # ... of the file it reads: the size the position is computed from is the size of the very File the record is read from (its
        # metadata / a seek to its end), not a figure another function adds up over the rotated files as well — with one rotated file the
        # position lies past the end of the live file, the read returns nothing and the node reports 0 (= "send me everything") for ever
        own = False
        foreign = []
        for bi, t in lb_.calls():
            if callee_decl(t) == 'std::io::Seek::seek':
                sc_, _pp = slice_calls(lb_, t['args'][1])
                recv = {r[1] for r in origins(lb_, t['args'][0], stop_at_calls=True) if r[0] == 'call'}
                opening = slice_calls(lb_, t['args'][0])[0]      # what the File itself is made from (its name, the open call)
                for c_ in sc_:
                    tc_ = lb_.term(c_)
                    d_ = callee_decl(tc_)
                    if d_ in ('std::fs::File::metadata', 'std::io::Seek::stream_position', 'std::io::Seek::seek') and tc_['args']:
                        src_ = {r[1] for r in origins(lb_, tc_['args'][0], stop_at_calls=True) if r[0] == 'call'}
                        if src_ & recv:
                            own = True
                    elif P.bodies.get(callee(tc_)) is not None and c_ not in recv and c_ not in opening:
                        foreign.append(short(callee(tc_)))
        oko = own and not foreign
        ck.ob('C12.a', short(lb_.id), 'measures-the-file-it-reads', oko,
              'last_op_time computes the position of the last record from the size of the file it reads' if oko else
              'last_op_time computes the position of the last record from %s, not from the size of the file it then reads: once a rotated '
              'file exists the position is past the end of the live file, the time reads as 0 and every reconnect ends in a full synchronisation'
              % (sorted(set(foreign)) or 'something else than that file\'s metadata'), '%s:%s' % (lb_.file, lb_.line))
    # ---- the writer's "file is full" agrees with the rotation's -----------------------------------
    # The appender recovers from a refused record by asking for the append stream again, which rotates the live file only when ITS size test
    # says full.  Both tests must look at the plain size of the live file against the same limit: a writer that refuses `size + record > limit`
    # while the rotation waits for `size >= limit` refuses every record from then on (the limit is not a multiple of the record size by
    # default), the log stops and every later operation is missing from the catch-up
    lim_calls = lambda b_: [bi for bi, t in b_.calls() if callee(t).endswith('single_op_log_file_size')]
    full_tests = []
    for b_ in [wb] + [x for x in P.user_bodies() if x.id.endswith('get_log_file_append_mode')]:
        for bl_i, bl in enumerate(b_.blocks):
            if bl.get('cleanup'):
                continue
            for s_ in bl['s']:
                if s_['k'] == 'assign' and s_['r']['k'] == 'bin' and s_['r']['op'] in ('Gt', 'Ge', 'Lt', 'Le'):
                    sides = {}
                    for k_ in ('a', 'b'):
                        rs = origins(b_, s_['r'][k_], stop_at_calls=True)
                        if any(r[0] == 'call' and r[1] in lim_calls(b_) for r in rs):
                            sides['limit'] = k_
                        else:
                            sides['size'] = (k_, rs)
                    if 'limit' in sides and 'size' in sides:
                        plain = bool(sides['size'][1]) and all(r[0] == 'call' for r in sides['size'][1])
                        full_tests.append((short(b_.id), b_.loc(bl_i), plain))
    okf = len(full_tests) >= 2 and all(pl_ for _, _, pl_ in full_tests)
    ck.ob('C12.e', short(wb.id), 'writer-and-rotation-agree-on-full', okf,
          'the record writer and the rotation both compare the plain size of the live file with the limit' if okf else
          'the "file is full" tests of the record writer and of the rotation do not both compare the plain file size with the limit (%s): a '
          'record can be refused while the rotation does not consider the file full — the retry is refused too, the log stops growing and '
          'the operations are missing from every later catch-up' % [(f_, l_, 'plain size' if p_ else 'size with arithmetic') for f_, l_, p_ in full_tests],
          '%s:%s' % (wb.file, wb.line))
    # ---- (e) success only from a successful append --------------------------------------------
    for tb_ in tw:
        wcalls = [bi for bi, t_ in tb_.calls() if callee(t_) == wb.id]
        ok_edges = []
        for wbi in wcalls:
            for sbi, tm_, els, adt in core.enum_switches(tb_, wbi):
                if adt == 'std::result::Result' and '0' in tm_:
                    others = {x for k_, x in tm_.items() if k_ != '0'}
                    ok_edges.append((tm_['0'], others))
        # values returned directly from a writer call count as well
        THRU = ('std::result::Result::or_else', 'std::result::Result::or', 'std::result::Result::and_then', 'std::result::Result::map')
        ret_direct = [r for r in core.place_origins(tb_, {'l': 0}, THRU) if r[0] == 'call' and r[1] in wcalls]
        bad = []
        for r in core.place_origins(tb_, {'l': 0}):
            if r[0] == 'agg':
                rv = tb_.blocks[r[1]]['s'][r[2]]['r']
                if rv.get('variant') == 'Ok' and rv.get('adt') == 'std::result::Result':
                    if not any(tb_.dominates(e, r[1]) and not any(tb_.dominates(o, r[1]) for o in oth) for e, oth in ok_edges):
                        bad.append(tb_.loc(r[1]))
        oke = bool(wcalls) and not bad and (bool(ok_edges) or bool(ret_direct))
        ck.ob('C12.e', short(tb_.id), 'ok-only-after-successful-append', oke,
              'every Ok answer of the appender follows a successful call of the record writer' if oke else
              'the appender answers Ok at %s although no append succeeded on that path: after a rotation the fresh live file stays '
              'empty, last_op_time reads 0 on a non-empty log and the node asks for a full synchronisation' % bad,
              '%s:%s' % (tb_.file, tb_.line))
    ck.floor('C12.e', len(tw), 1, 'appender functions (callers of the record writer)')
    # the retry writes the SAME record: every call of the record writer made by the appender (its closures included) passes, position by
    # position, the same operands — db id, key id, operation and time are all u64 / small integers, the compiler accepts them in any order,
    # and a record whose db id and key id are swapped decodes to another database and key (or to none: the catch-up thread panics)
    def _src(b_, op_, depth=0):
        out_ = set()
        for r in origins(b_, op_):
            if r[0] == 'param':
                out_.add('%s.arg%d%s' % (short(b_.id), r[1], ''.join('.' + str(q[2]) for q in r[-1] if q[0] == 'f')))
            elif r[0] == 'capture' and depth < 3:
                site = P.closure_sites().get(b_.id)
                if site is not None and r[1] < len(site[3]):
                    out_ |= _src(site[0], site[3][r[1]], depth + 1)
                else:
                    out_.add('capture')
            elif r[0] == 'call':
                out_.add('call:' + callee_decl(b_.term(r[1])).split('::')[-1])
            else:
                out_.add(r[0])
        return frozenset(out_)
    fam = {}
    for tb_ in tw:
        root_ = tb_
        while root_.parent and root_.parent in P.bodies:
            root_ = P.bodies[root_.parent]
        for bi, t_ in tb_.calls():
            if callee(t_) == wb.id:
                fam.setdefault(root_.id, []).append((tb_, bi, [ _src(tb_, a_) for a_ in t_['args'][1:] ]))
    nsib = 0
    for rid, calls_ in sorted(fam.items()):
        if len(calls_) < 2:
            continue
        nsib += 1
        ref = calls_[0][2]
        diff = []
        for tb_, bi, srcs_ in calls_[1:]:
            for j, (a_, b__) in enumerate(zip(ref, srcs_)):
                if a_ != b__:
                    diff.append('argument %d at %s is %s, the first call passes %s' % (j + 2, tb_.loc(bi), sorted(b__), sorted(a_)))
        ck.ob('C12.a', short(rid), 'retry-writes-the-same-record', not diff,
              'every call of the record writer in the appender passes the same operands in the same positions' if not diff else
              'the calls of the record writer in %s do not pass the same record: %s — the first record of every new live file is stored with '
              'its fields mixed up and decodes to another database and key' % (short(rid), '; '.join(diff[:2])), calls_[0][0].loc(calls_[0][1]))
    ck.floor('C12.a', nsib, 1, 'appenders that call the record writer more than once (first attempt and retry)')
    # ---- (b) ---------------------------------------------------------------------------
    to_u8 = [b for b in P.user_bodies() if b.id.endswith('bo::ReplicateOpp::to_u8')]
    frm = [b for b in P.user_bodies() if 'ReplicateOpp as std::convert::From<u8>>::from' in b.id]
    if to_u8 and frm:
        enc = enum_to_int(P, to_u8[0], 'nundb::bo::ReplicateOpp')
        dec = int_to_enum(P, frm[0])
        okb = bool(enc) and all(dec.get(v) == k for k, v in enc.items()) and len(enc) == len(P.adts['nundb::bo::ReplicateOpp']['variants'])
        ck.ob('C12.b', 'ReplicateOpp', 'tables-inverse', okb,
              'to_u8 %s and From<u8> %s are inverse on all %d variants' % (enc, dec, len(enc)) if okb else 'to_u8 %s vs From<u8> %s' % (enc, dec), '')
    else:
        ck.undecided('C12.b', 'ReplicateOpp', 'anchors', 'to_u8 / From<u8> not found')
    # ---- (c) / (d) ---------------------------------------------------------------------
    q = [b for b in P.user_bodies() if b.kind == 'fn' and any(callee(t) == rb.id for _, t in b.calls())]
    if len(q) != 1:
        ck.undecided('C12.c', 'query', 'anchor', 'expected one caller of the record reader, found %d' % len(q))
        return
    qb = q[0]
    from props.C07 import natural_loops
    rc = [bi for bi, t in qb.calls() if callee(t) == rb.id]
    loops = natural_loops(qb)
    in_loop = [bi for bi in rc if any(bi in body for h, body in loops)]
    out_loop = [bi for bi in rc if bi not in in_loop]
    lists = [bi for bi, t in qb.calls() if 'entries_by_creation_date' in callee(t) or callee_decl(t) == 'std::fs::read_dir']
    # every listed file is visited: the loop iterates the listing itself (element-preserving adaptors only) and, inside an
    # iteration, the reader call is conditional only on the iterator's Some and on the ".op" suffix test
    PRESERVE = ('std::ops::Deref::deref', 'std::ops::DerefMut::deref_mut', 'std::slice::iter', 'std::iter::IntoIterator::into_iter',
                'std::iter::Iterator::map', 'std::iter::Iterator::rev', 'std::vec::Vec::iter', 'std::iter::Iterator::by_ref',
                'std::iter::Iterator::cloned', 'std::iter::Iterator::collect', 'std::iter::Iterator::next')

    def from_listing(bi, seen=None):
        seen = seen or set()
        if bi in seen:
            return False
        seen.add(bi)
        if bi in lists:
            return True
        tt = qb.term(bi)
        if callee_decl(tt) == 'std::iter::Iterator::filter' and len(tt['args']) > 1:
            # the suffix test moved into a filter: allowed when the predicate does nothing but test a `.xyz` suffix
            oks_ = False
            for r in origins(qb, tt['args'][1]):
                kb = P.bodies.get(r[1]) if r[0] == 'closure' else None
                if kb is not None:
                    oks_ = all(callee_decl(t2).split('::')[-1] in ('ends_with', 'deref', 'as_str', 'as_ref', 'borrow') for _, t2 in kb.calls()) and any(
                        callee_decl(t2) == 'std::str::ends_with' and any(isinstance(core.const_str(q_), str) and core.const_str(q_).startswith('.')
                                                                        for q_ in origins(kb, t2['args'][1])) for _, t2 in kb.calls())
            if not oks_:
                return False
        elif callee_decl(tt) not in PRESERVE or not tt['args']:
            return False
        return any(r[0] == 'call' and from_listing(r[1], seen) for r in origins(qb, tt['args'][0], stop_at_calls=True))
    whole = False
    extra_conditions = []
    for h, body in loops:
        nexts = [bi for bi in body if qb.term(bi)['k'] == 'call' and callee_decl(qb.term(bi)) == 'std::iter::Iterator::next']
        inside = [bi for bi in in_loop if bi in body]
        if not nexts or not inside:
            continue
        if any(from_listing(x) for x in nexts):
            whole = True
        for x in sorted(body):
            tx = qb.term(x)
            if tx['k'] != 'switch' or not any(qb.dominates(x, r_) for r_ in inside):
                continue
            succ = [tb for _, tb in tx['targets']] + [tx['else']]
            if all(any(r_ in qb.reach_from([s_], stop=lambda b_: b_ == h, include_start=True) for r_ in inside) for s_ in succ):
                continue
            okc_ = False
            for r in origins(qb, tx['o'], stop_at_calls=True):
                if r[0] == 'discr':
                    okc_ = qb.blocks[r[1]]['s'][r[2]]['r']['adt'] == 'std::option::Option'
                elif r[0] == 'call':
                    ct = qb.term(r[1])
                    okc_ = callee_decl(ct) == 'std::str::ends_with' and any(
                        isinstance(core.const_str(q), str) and core.const_str(q).startswith('.') for q in origins(qb, ct['args'][1]))
            if not okc_:
                extra_conditions.append(qb.loc(x))
    okc = len(in_loop) >= 1 and len(out_loop) >= 1 and bool(lists) and whole and not extra_conditions
    # the listing is not shortened between the directory read and the loop, and the query has no way out before the live file is read
    SHRINK = ('truncate', 'retain', 'drain', 'pop', 'remove', 'swap_remove', 'split_off', 'clear', 'dedup', 'dedup_by', 'dedup_by_key', 'retain_mut')
    shrunk = sorted({'%s@%s' % (callee_decl(t_).split('::')[-1], qb.loc(bi_)) for bi_, t_ in qb.calls()
                     if callee_decl(t_).startswith('std::vec::Vec::') and callee_decl(t_).split('::')[-1] in SHRINK
                     and any(r[0] == 'call' and r[1] in lists for a_ in t_['args'][:1] for r in origins(qb, a_))})
    ck.ob('C12.c', short(qb.id), 'listing-not-shortened', not shrunk,
          'the directory listing reaches the loop with every entry' if not shrunk else
          'the query shortens the listing of rotated files (%s) before it reads them: the files cut off still hold records within the '
          'configured log size (the clean-up runs only every few minutes), a catch-up whose `since` reaches into them misses their keys' % shrunk,
          '%s:%s' % (qb.file, qb.line))
    early = [qb.loc(x) for x in out_loop if not qb.postdominates(x, 0)]
    ck.ob('C12.c', short(qb.id), 'no-way-out-before-the-files-are-read', not early and bool(out_loop),
          'the read of the live file post-dominates the entry of the query' if not early else
          'the query can return before it reads the files (the live-file read at %s does not post-dominate the entry): an "already up to date" '
          'shortcut that consults the live file only answers nothing while the rotated files hold records at or after `since` (live file empty '
          'after an interrupted rotation or a restart on an exactly full file)' % early, '%s:%s' % (qb.file, qb.line))
    ck.ob('C12.c', short(qb.id), 'all-files-visited', okc,
          'the query reads the live file and, in a loop over the directory listing, every rotated file' if okc else
          'reader calls: %d outside a loop, %d inside; directory listing: %s; the loop iterates the whole listing: %s; conditions other '
          'than the file suffix that skip a listed file: %s — a rotated file that holds operations at or after `since` can be left unread'
          % (len(out_loop), len(in_loop), bool(lists), whole, extra_conditions), '%s:%s' % (qb.file, qb.line))
    # rotation: the function that renames the live oplog file must not remove it
    from nl.locks import backward_slice as _bs
    rot = [b for b in P.user_bodies() if b.id.endswith('Oplog::get_log_file_append_mode')]
    if not rot:
        # moved or inlined: the body that renames the live oplog file (source name built by the live-file-name function)
        rot = [b for b in P.user_bodies() if not b.id.startswith(('nundb::client::', 'nundb::command_line::'))
               and any(callee_decl(t) == 'std::fs::rename' and t['args'] and
                       any(callee(b.term(c)).endswith('get_op_log_file_name') for c in _bs(b, t['args'][0])[0])
                       for _, t in b.calls())]
    ck.floor('C12.c', len(rot), 1, 'functions that rotate the live oplog file')
    if rot:
        r_ = rot[0]
        ren = [bi for bi, t in r_.calls() if callee_decl(t) == 'std::fs::rename']
        rem = [bi for bi, t in r_.calls() if callee_decl(t) in ('std::fs::remove_file', 'std::fs::File::create')]
        ck.ob('C12.c', short(r_.id), 'rotation-renames', bool(ren) and not rem,
              'rotation renames the full file and removes nothing' if ren and not rem else 'rotation: rename=%s remove/truncate=%s' % (bool(ren), bool(rem)),
              '%s:%s' % (r_.file, r_.line))
        # the rotated file's name must be fresh: `rename` silently replaces an existing target, so a name computed from the
        # log's own content (the time of its newest record) collides when two consecutive files end on the same timestamp
        # — one multi-database snapshot message writes N records under one id
        from nl.locks import backward_slice
        FRESH = ('std::time::SystemTime::now', 'std::time::Instant::now')
        READS = ('std::fs::File::open', 'std::fs::OpenOptions::open', 'std::io::Read::read', 'std::io::Read::read_exact',
                 'std::fs::read_dir', 'std::fs::metadata', 'std::fs::File::metadata')

        def _reaches(fn_id, targets, seen=None, depth=0):
            seen = seen if seen is not None else set()
            if fn_id in seen or depth > 6:
                return False
            seen.add(fn_id)
            fb = P.bodies.get(fn_id)
            if fb is None:
                return False
            for _, t2 in fb.calls():
                d2 = callee_decl(t2)
                if d2 in targets or ('fetch_add' in d2 and 'fetch_add' in targets):
                    return True
                if _reaches(callee(t2), targets, seen, depth + 1):
                    return True
            return False
        for bi in ren:
            t = r_.term(bi)
            if len(t['args']) < 2:
                continue
            feeders = sorted(backward_slice(r_, t['args'][1])[0])
            fresh, stale = [], []
            for c in feeders:
                tc = r_.term(c)
                if callee_decl(tc) in FRESH or _reaches(callee(tc), FRESH + ('fetch_add',)):
                    fresh.append(short(callee(tc)))
                elif callee(tc) in P.bodies and _reaches(callee(tc), READS):
                    stale.append(short(callee(tc)))
            okn = bool(fresh)
            ck.ob('C12.i', short(r_.id), 'rotated-name-fresh', okn,
                  'the name of a rotated file takes a fresh component from %s' % sorted(set(fresh)) if okn else
                  'the name a full oplog file is renamed to has no fresh component (clock or counter)%s: `rename` replaces an existing '
                  'file of that name, so two files that end on the same record time — one multi-database snapshot writes N records under '
                  'one id — collapse into one and every record of the first is lost while still within the configured log size'
                  % ('; it is computed from the log itself by %s' % sorted(set(stale)) if stale else ''), r_.loc(bi))
    # nobody opens the live log with truncation: a reader that creates a missing file with File::create (the gap between
    # the rotation's rename and the appender's re-creation) empties what the appender wrote in between
    truncs, nlog, log_scope = [], 0, []
    for b in P.user_bodies():
        if b.id.startswith(('nundb::client::', 'nundb::command_line::')):
            continue
        if not any(callee(t).endswith('get_op_log_file_name') for _, t in b.calls()):
            continue
        nlog += 1
        scope = [b]
        # helpers that are handed the name (get_log_file_read_mode(&name))
        for bi, t in b.calls():
            hb = P.bodies.get(callee(t))
            if hb is not None and hb not in scope and any(
                    callee(b.term(c)).endswith('get_op_log_file_name') for a in t['args'] for c in _bs(b, a)[0]):
                scope.append(hb)
        log_scope.extend(x for x in scope if x not in log_scope)
    for b in log_scope:
        for bi, t in b.calls():
            d = callee_decl(t)
            if d in ('std::fs::File::create', 'std::fs::File::set_len'):
                truncs.append('%s@%s' % (short(b.id), b.loc(bi)))
            elif d == 'std::fs::OpenOptions::truncate':
                vals = [const_val(r) for r in origins(b, t['args'][1])] if len(t['args']) > 1 else [True]
                if vals != [False]:
                    truncs.append('%s@%s' % (short(b.id), b.loc(bi)))
    ck.ob('C12.j', 'oplog', 'live-log-never-truncated', not truncs,
          'none of the %d functions that open the live oplog file truncates it' % nlog if not truncs else
          'the live oplog file can be truncated at %s: records appended since the last rotation (the newest ones) disappear, '
          'the reported last-operation time falls back and the catch-up misses them' % truncs, '')
    ck.floor('C12.j', nlog, 3, 'functions that name the live oplog file')
    # who removes *.op files in the oplog directory
    removers = []
    for b in P.user_bodies():
        if b.id.startswith(('nundb::client::', 'nundb::command_line::')):
            continue
        for bi, t in b.calls():
            if callee_decl(t) == 'std::fs::remove_file':
                removers.append(b)
    oplog_removers = [b for b in removers if any('op_log' in callee(t) or 'oplog' in callee(t).lower() for _, t in b.calls()) or 'op_log' in b.id or 'old_db_files' in b.id]
    allowed = ('remove_old_db_files', 'clean_op_log_metadata_files', 'remove_op_log_file', 'remove_invalidate_oplog_file')
    bad = [short(b.id) for b in oplog_removers if not any(a in b.id for a in allowed)]
    # remove_old_db_files reached only from the declutter job
    rod = [b for b in P.user_bodies() if b.id.endswith('remove_old_db_files')]
    callers = [short(cb.id) for b in rod for cb, _ in P.callers().get(b.id, [])]
    okrm = not bad and callers == ['declutter']
    ck.ob('C12.c', 'removers', 'only-declutter-removes-rotated-files', okrm,
          'rotated oplog files are removed only by remove_old_db_files, called only from the declutter job; the start-up clean removes everything' if okrm else
          'unexpected removers %s, remove_old_db_files callers %s' % (bad, callers), '')
    # (d) order
    order_ok = False
    why = ''
    if in_loop and out_loop:
        live_first = any(qb.dominates(o, i) for o in out_loop for i in in_loop)
        # comparator orientation of the listing sort
        newest_first = listing_newest_first(P)
        flips = sum(1 for bi, t in qb.calls() if callee_decl(t) in ('std::slice::reverse', 'std::iter::Iterator::rev', 'std::iter::DoubleEndedIterator::rev'))
        if newest_first is not None and flips % 2 == 1:
            newest_first = not newest_first
        order_ok = (not live_first) and newest_first is False
        why = 'live file scanned %s; rotated files %s' % ('first' if live_first else 'last',
                                                          'newest first' if newest_first else ('oldest first' if newest_first is False else 'in unknown order'))
    ck.ob('C12.d', short(qb.id), 'oldest-first-live-last', order_ok,
          why if order_ok else why + ': every insert overrides the label of its (db,key), so the OLDEST record\'s kind wins '
          '(update in a rotated file + remove in the live file is reported as update)', '%s:%s' % (qb.file, qb.line))


def slice_calls(b, operand):
    from nl.locks import backward_slice
    return backward_slice(b, operand)


def _reads_local(b, operand, base):
    p = operand.get('m') or operand.get('c')
    if p is None:
        return False
    if p['l'] == base:
        return True
    for (bi, si, kind, pl) in b.defs().get(p['l'], []):
        if kind == 'assign' and pl['k'] in ('use', 'ref'):
            q = pl.get('p') or (pl['o'].get('m') or pl['o'].get('c') if 'o' in pl else None)
            if q and q['l'] == base:
                return True
    return False


def enum_to_int(P, b, adt):
    """{variant: int} for a `match self { V => k }` function"""
    out = {}
    for bi in sorted(b.reachable()):
        t = b.term(bi)
        if t['k'] != 'switch':
            continue
        for r in origins(b, t['o']):
            if r[0] == 'discr' and b.blocks[r[1]]['s'][r[2]]['r']['adt'] == adt:
                tm = {P.variant_of_discr(adt, v): tb for v, tb in t['targets']}
                names = [v['name'] for v in P.adts[adt]['variants']]
                for n in names:
                    tm.setdefault(n, t['else'])
                for name, tb in tm.items():
                    # constant assigned to _0 in the arm
                    for x in b.reachable():
                        if b.dominates(tb, x):
                            for s in b.blocks[x]['s']:
                                if s['k'] == 'assign' and not s['l'].get('p') and s['l']['l'] == 0 and s['r']['k'] == 'use' and 'k' in s['r']['o']:
                                    out[name] = s['r']['o']['k'].get('v')
    return out


def int_to_enum(P, b):
    out = {}
    for bi in sorted(b.reachable()):
        t = b.term(bi)
        if t['k'] != 'switch':
            continue
        o = t['o']
        p = o.get('c') or o.get('m')
        if not p or p['l'] != 1:
            continue
        for v, tb in t['targets']:
            for x in b.reachable():
                if b.dominates(tb, x):
                    for s in b.blocks[x]['s']:
                        if s['k'] == 'assign' and not s['l'].get('p') and s['l']['l'] == 0 and s['r']['k'] == 'agg':
                            out[int(v)] = s['r'].get('variant')
    return out



def listing_newest_first(P):
    """orientation of get_op_log_entries_by_creation_date's comparator: True when it sorts newest first (b.cmp(a)), False when
    oldest first, None when not recognised"""
    srt = [b for b in P.user_bodies() if 'entries_by_creation_date::{closure' in b.id]
    # the comparator may also be a named function handed to sort_by
    for lb_ in [b for b in P.user_bodies() if b.id.endswith('get_op_log_entries_by_creation_date')]:
        for bi, t in lb_.calls():
            if callee_decl(t).split('::')[-1] in ('sort_by', 'sort_unstable_by', 'sort_by_key', 'sort_by_cached_key'):
                for a in t['args'][1:]:
                    for r in origins(lb_, a):
                        if r[0] == 'const':
                            c = core.const_of(r)
                            fn_ = c.get('fn') or c.get('item')
                            if fn_ and P.bodies.get(core.norm(fn_)) is not None:
                                srt.append(P.bodies[core.norm(fn_)])
                            elif fn_:
                                srt += [b for b in P.user_bodies() if b.id == fn_ or b.id.endswith('::' + fn_.split('::')[-1]) and b.argc == 2]
    newest_first = None
    for sb in srt:
        for bi, t in sb.calls():
            if callee_decl(t) == 'std::cmp::Ord::cmp':
                calls, params = slice_calls(sb, t['args'][0])
                pa, pb = (2, 3) if sb.kind in ('closure', 'coroutine') else (1, 2)
                newest_first = pb in params and pa not in params
    return newest_first


def visible_rule(ck, m, wb, rb):
    P = m.prog
    writes = [bi for bi, t in wb.calls() if callee_decl(t) in ('std::io::Write::write', 'std::io::Write::write_all')]
    flushes = [bi for bi, t in wb.calls() if callee_decl(t) == 'std::io::Write::flush' or
               (callee_decl(t) in ('std::io::Seek::stream_position', 'std::io::Seek::seek', 'std::io::Seek::rewind')
                and 'BufWriter' in t['f'].get('dargs', ''))]
    ok = bool(writes) and any(all(wb.dominates(w, f) for w in writes) for f in flushes)
    ck.ob('C12.h', short(wb.id), 'record-flushed-before-ack', ok,
          'the record writer flushes its stream after the last field' if ok else
          'the record writer returns with the newest record still in the BufWriter (writes %d, flushes after them: none): until the next append '
          'last_op_time reports the previous record (0 for a one-record log) and the query misses the newest operation' % len(writes),
          '%s:%s' % (wb.file, wb.line))
    ctor = [b for b in P.user_bodies() if b.id.endswith('bo::OpLogRecord::new')]
    news = [bi for bi, t in rb.calls() if ctor and callee(t) == ctor[0].id]
    ins = [bi for bi, t in rb.calls() if callee_decl(t) == 'std::collections::HashMap::insert' and 'OpLogRecord' in t['f'].get('dargs', '')]
    oki = bool(news) and bool(ins) and all(any(rb.postdominates(i, n_) or
                                               (rb.dominates(n_, i) and not _conditional_between(rb, n_, i)) for i in ins) for n_ in news)
    ck.ob('C12.h', short(rb.id), 'insert-unconditional', oki,
          'every record read is inserted into the result (the later record of a (db,key) replaces the earlier one)' if oki else
          'the insert of a record into the result is conditional: with a comparison against the entry already there an earlier record can '
          'keep its label (update@T, remove@T is reported as update: the removed key is resurrected by the resync)', '%s:%s' % (rb.file, rb.line))


def _conditional_between(b, a, c):
    """is there a branch between call block a and call block c (a dominates c) one side of which avoids c before the next a?"""
    for x in b.reach_from([a], stop=lambda q: q == c, include_start=True):
        t = b.term(x)
        if t['k'] == 'switch' and b.dominates(a, x) and b.dominates(x, c):
            succ = [tb for _, tb in t['targets']] + [t['else']]
            if not all(c in b.reach_from([s_], stop=lambda q: q == a, include_start=True) for s_ in succ):
                # exits of the scan (end of file) do not count: only branches that come back to the next record without inserting
                if any(a in b.reach_from([s_], stop=lambda q: q == c, include_start=True) and c not in b.reach_from([s_], stop=lambda q: q == a, include_start=True) for s_ in succ):
                    return True
    return False


def since_rule(ck, m):
    P = m.prog
    q = [b for b in P.user_bodies() if b.id.endswith('disk_ops::read_operations_since')]
    if len(q) != 1:
        ck.undecided('C12.g', 'query', 'anchor', 'oplog query not found')
        return
    n = 0
    for cb, cbi in P.callers().get(q[0].id, []):
        if cb.id.startswith(('nundb::client::', 'nundb::command_line::')):
            continue
        n += 1
        roots = origins(cb, cb.term(cbi)['args'][0])
        plain = bool(roots) and all(r[0] in ('param', 'capture') for r in roots)
        ck.ob('C12.g', short(cb.id), 'since-handed-on-unchanged', plain,
              'the query is asked for the timestamp the requester reported' if plain else
              'the timestamp handed to the oplog query is computed (%s), not the one the requester reported: records AT the reported time that '
              'the requester does not have (same-timestamp records of one snapshot, the record repeated by a rotation) are never sent'
              % sorted({r[0] for r in roots}), cb.loc(cbi))
    ck.floor('C12.g', n, 1, 'callers of the oplog query')


def cleanup_rule(ck, m):
    P = m.prog
    rod = [b for b in P.user_bodies() if b.id.endswith('remove_old_db_files') and '{closure' not in b.id]
    if len(rod) != 1:
        ck.undecided('C12.f', 'clean-up', 'anchor', 'oplog clean-up function not found')
        return
    b = rod[0]
    nf = listing_newest_first(P)
    flips = sum(1 for bi, t in b.calls() if callee_decl(t) in ('std::slice::reverse', 'std::iter::Iterator::rev', 'std::iter::DoubleEndedIterator::rev'))
    if nf is not None and flips % 2 == 1:
        nf = not nf
    part = None
    unit_calls = [(bi, t) for bi, t in b.calls()] + [(bi, t) for hb_ in P.private_helpers(b) for bi, t in hb_.calls()]
    for bi, t in unit_calls:
        da = t['f'].get('dargs', '')
        if callee_decl(t) in ('std::ops::Index::index', 'std::ops::IndexMut::index_mut', 'std::slice::get'):
            if 'RangeFrom<' in da:
                part = 'suffix'
            elif 'RangeTo<' in da or 'RangeToInclusive<' in da:
                part = 'prefix'
        elif callee_decl(t) in ('std::iter::Iterator::skip', 'std::vec::Vec::split_off', 'std::vec::Vec::drain') and part is None:
            part = 'suffix' if callee_decl(t) != 'std::vec::Vec::drain' or 'RangeFrom<' in da else ('prefix' if 'RangeTo<' in da else None)
        elif callee_decl(t) == 'std::iter::Iterator::take' and part is None:
            part = 'prefix'
    ok = nf is not None and part is not None and ((part == 'suffix') == nf)
    ck.ob('C12.f', short(b.id), 'removes-the-oldest', ok,
          'the listing is %s and the clean-up removes its %s: the oldest rotated files go' % ('newest first' if nf else 'oldest first', part) if ok else
          'the listing is sorted %s but the clean-up removes its %s: the NEWEST rotated files are deleted, the operations in them are never '
          'sent by an incremental resync' % ({True: 'newest first', False: 'oldest first', None: 'in an unrecognised order'}[nf], part),
          '%s:%s' % (b.file, b.line))


def search_exits(ck, m):
    """C12.k — see RULES"""
    from props.C07 import natural_loops
    from nl.locks import backward_slice
    P = m.prog
    rb = [b for b in P.user_bodies() if b.kind == 'fn' and b.argc == 3 and b.locals[1] == 'std::fs::File' and b.locals[2] == 'u64'
          and 'HashMap' in b.locals[3]]
    if len(rb) != 1:
        ck.undecided('C12.k', 'reader', 'anchor', 'expected one (File, u64, &mut HashMap) reader, found %d' % len(rb))
        return
    b = rb[0]
    loops = natural_loops(b)
    ins = [bi for bi, t in b.calls() if callee_decl(t).endswith('HashMap::insert')]
    inner = [(h, body) for h, body in loops if any(i_ in body for i_ in ins)]
    # the search loop: it probes (reads) and the scan loop is reachable from it; the scan is followed by a break, so in the CFG the
    # scan loop lies OUTSIDE the natural loop of the search
    outer = [(h, body) for h, body in loops if not any(i_ in body for i_ in ins)
             and any(ih in b.reach_from(list(body), include_start=False) for ih, ib in inner)]
    if not inner or not outer:
        ck.undecided('C12.k', short(b.id), 'anchor', 'search loop / scan loop not found (loops: %d, inserts: %d)' % (len(loops), len(ins)))
        return
    h, body = max(outer, key=lambda x: len(x[1]))
    scan_heads = {ih for ih, ib in inner}
    scan = set().union(*[ib for ih, ib in inner])
    probes = [x for x in body if b.term(x)['k'] == 'call' and callee_decl(b.term(x)).startswith('std::io::Read::read')]
    meta = [x for x, t in b.calls() if callee_decl(t).endswith(('Metadata::len', 'File::metadata', 'fs::metadata'))]
    rets = set(b.return_blocks())
    bad = []
    nexit = 0
    for x in sorted(body):
        outs = [y for y in b.succ(x) if y not in body and not b.blocks[y].get('cleanup')]
        if not outs:
            continue
        for y in outs:
            nexit += 1
            # left towards the scan: the function cannot return from here without entering the scan loop
            if y in scan or not (rets & set(b.reach_from([y], stop=lambda q: q in scan_heads, include_start=True))):
                continue
            bad_here = True
            break
        else:
            continue
        # the deciding switch: x itself, or the nearest dominating switch inside the loop
        cands = [s_ for s_ in body if b.term(s_)['k'] == 'switch' and (s_ == x or b.dominates(s_, x))]
        if not cands:
            bad.append((b.loc(x), 'unconditional'))
            continue
        sw_ = max(cands, key=lambda s_: len(b.dom().get(s_, ())))
        op = b.term(sw_)['o']
        pl = op.get('c') or op.get('m')
        srcs = []
        for (dbi, dsi, kind, rv) in (b.defs().get(pl['l'], []) if pl else []):
            if kind == 'assign' and rv['k'] == 'discr':
                srcs += list(core.place_origins(b, rv['p'], stop_at_calls=True))
        if srcs and all(r[0] == 'call' and r[1] in probes for r in srcs):
            continue                # the probe read failed
        eof = False
        for (dbi, dsi, kind, rv) in (b.defs().get(pl['l'], []) if pl else []):
            if kind == 'assign' and rv['k'] == 'bin':
                sides = [list(origins(b, rv[k_], stop_at_calls=True)) for k_ in ('a', 'b')]
                for s1, s2 in ((sides[0], sides[1]), (sides[1], sides[0])):
                    if s1 and all(r[0] == 'call' and r[1] in probes for r in s1) and s2 and all(r[0] == 'const' for r in s2):
                        eof = True
        if eof:
            continue                # the count the probe read returned, compared with a constant: end of file
        calls, params = backward_slice(b, op)
        uses_since = 2 in params
        uses_size = bool(calls & set(meta)) or any('metadata' in callee_decl(b.term(c)) or callee_decl(b.term(c)).endswith('::len') for c in calls)
        if uses_since and uses_size:
            continue
        bad.append((b.loc(x), 'decided without %s' % ' and '.join(n_ for n_, u in (('the probed time against `since`', uses_since), ('the size of the file', uses_size)) if not u)))
    ck.ob('C12.k', short(b.id), 'search-left-only-after-the-scan', not bad,
          'the search loop is left after the scan, on a failed probe or at the end of the file (%d exits)' % nexit if not bad else
          'the per-file search can be left at %s without the forward scan: when the probe just looked at the record BELOW `since` (the window is '
          'down to one record) the next record is at or after `since` and is never read — for a `since` between two record times the file '
          'contributes nothing to the catch-up' % bad, bad[0][0] if bad else '')
    ck.floor('C12.k', nexit, 2, 'exits of the search loop')


def scan_reads_every_field_each_round(ck, m):
    """C12.l — see RULES"""
    from props.C07 import natural_loops
    P = m.prog
    ck.rule('C12.l', 'the record scan stays aligned: in every loop of the record reader each read of a record field lies on every way round the loop '
                     '(it dominates the jump back to the loop head) — a `continue` that skips the read of the timestamp of the next record makes the next '
                     'round decode the record one field off, and every later record of the file is dropped')
    rbs = [b for b in P.user_bodies() if b.id.endswith('disk_ops::read_operations_since_from_file')]
    if len(rbs) != 1:
        ck.undecided('C12.l', 'reader', 'anchor', 'record reader not found')
        return
    rb = rbs[0]
    n, bad = 0, []
    for h, body in natural_loops(rb):
        reads = [bi for bi in body if rb.term(bi)['k'] == 'call' and callee_decl(rb.term(bi)).startswith('std::io::Read::read')]
        if not reads:
            continue
        n += 1
        for u in [u for u in body if h in rb.succ(u)]:
            for r in reads:
                if not rb.dominates(r, u):
                    bad.append('the read at %s is skipped by the way back to the loop head from %s' % (rb.loc(r), rb.loc(u)))
    ck.ob('C12.l', short(rb.id), 'scan-reads-every-field-each-round', n > 0 and not bad,
          'in the %d loops of the record reader every field read lies on every way round' % n if n > 0 and not bad else
          '; '.join(sorted(set(bad))[:3]), '%s:%s' % (rb.file, rb.line))
    ck.floor('C12.l', n, 1, 'loops of the record reader that read fields')


def last_op_time_is_a_record_time(ck, m):
    """C12.m — see RULES"""
    P = m.prog
    ck.rule('C12.m', 'the last-operation time a node reports is the timestamp of a record: what Oplog::last_op_time returns is 0 or a number decoded '
                     '(from_le_bytes) from bytes read out of the log — never a number taken from somewhere else (a file name, a clock, file metadata): '
                     'the rename time of a rotated file is later than every record in it, a node that reports it is sent nothing of what it missed')
    lb = [b for b in P.user_bodies() if b.id.endswith('disk_ops::Oplog::last_op_time')]
    if len(lb) != 1:
        ck.undecided('C12.m', 'last_op_time', 'anchor', 'Oplog::last_op_time: found %d' % len(lb))
        return
    b = lb[0]
    bad, good = [], 0
    for r in core.place_origins(b, {'l': 0}, stop_at_calls=True):
        if r[0] == 'const':
            v = const_val(r)
            if v == 0:
                good += 1
            else:
                bad.append('the constant %s' % v)
        elif r[0] == 'call':
            d = callee_decl(b.term(r[1]))
            if d.endswith('from_le_bytes') or d.endswith('from_be_bytes'):
                good += 1
            else:
                bad.append('%s (%s)' % (d, b.loc(r[1])))
        elif r[0] in ('param', 'unknown', 'agg', 'capture'):
            bad.append('%s' % (r[0],))
    ck.ob('C12.m', short(b.id), 'last-op-time-is-a-record-time', good > 0 and not bad,
          'last_op_time returns 0 or a decoded record field' if good > 0 and not bad else
          'last_op_time can return a value that is not decoded from a record: %s' % sorted(set(bad))[:3], '%s:%s' % (b.file, b.line))
