"""Wire agreement (family W): message producers (format templates flowing to a channel /
socket / command list) and parser schemas derived from the parser functions in the tree."""
import json
from . import core
from .core import origins, callee, callee_decl, is_log, fmt_of_value, const_str
from .effects import SEND_FNS, last_named_field, short_adt

CHAN_FIELDS = {
    ('Client', 'sender'): 'client', ('ClusterMember', 'sender'): 'member',
    ('Databases', 'replication_sender'): 'repl', ('Databases', 'replication_supervisor_sender'): 'supervisor',
}


class Producer:
    def __init__(self, body, bi, chans, fmts, others, sink):
        self.body = body
        self.bi = bi
        self.chans = chans      # set of channel kinds
        self.fmts = fmts        # list of core.Fmt
        self.others = others    # non-template roots of the message
        self.sink = sink        # 'try_send' | 'write_fmt' | 'push'

    def loc(self):
        return self.body.loc(self.bi)

    def texts(self):
        return [f.text() for f in self.fmts]


def _chan_of_roots(body, operand):
    kinds = set()
    params = set()
    for r in origins(body, operand, extra_through=('std::iter::Iterator::next', 'std::iter::IntoIterator::into_iter',
                                                    'std::collections::HashMap::get', 'std::collections::HashMap::iter',
                                                    'std::collections::HashMap::values')):
        lf = last_named_field(r[-1])
        if lf and (short_adt(lf[0]), lf[1]) in CHAN_FIELDS:
            kinds.add(CHAN_FIELDS[(short_adt(lf[0]), lf[1])])
        elif r[0] == 'param':
            params.add(r[1])
        elif r[0] == 'capture':
            params.add(('cap', r[1]))
        elif r[0] == 'call':
            t = body.term(r[1])
            d = callee_decl(t)
            if d in ('std::sync::RwLock::read', 'std::sync::RwLock::write', 'std::sync::Mutex::lock') and t['args']:
                from .locks import lock_id_of
                for i in lock_id_of(body, t['args'][0]):
                    if i == 'Watchers.map':
                        kinds.add('watcher')
                    elif i == 'ClusterState.members':
                        kinds.add('member')
                    else:
                        kinds.add('lock:' + i)
            else:
                kinds.add('ret:' + d.split('::')[-1])
        else:
            kinds.add(r[0])
    return kinds, params


def channel_kinds(prog, body, operand, depth=0):
    """channel kinds a Sender operand may denote; parameters are resolved through the callers"""
    kinds, params = _chan_of_roots(body, operand)
    if depth >= 4:
        return kinds | {'param?'} if params else kinds
    for p in params:
        if isinstance(p, tuple):
            site = prog.closure_sites().get(body.id)
            if site:
                cb, cbi, csi, ops = site
                if p[1] < len(ops):
                    kinds |= channel_kinds(prog, cb, ops[p[1]], depth + 1)
            continue
        callers = prog.callers().get(body.id, [])
        if not callers:
            kinds.add('param%d' % p)
        for (cb, cbi) in callers:
            t = cb.term(cbi)
            if p - 1 < len(t['args']):
                kinds |= channel_kinds(prog, cb, t['args'][p - 1], depth + 1)
    return kinds


def message_templates(prog, body, operand, depth=0):
    """(fmts, others): format templates the String operand may carry; a parameter is resolved through
    the callers, a local helper's result through its return value"""
    fmts, others = fmt_of_value(body, operand)
    out_f, out_o = list(fmts), []
    for r in others:
        if r[0] == 'param' and depth < 4:
            callers = prog.callers().get(body.id, [])
            if not callers:
                out_o.append(('param', body.id, r[1]))
            for (cb, cbi) in callers:
                t = cb.term(cbi)
                if r[1] - 1 < len(t['args']):
                    f2, o2 = message_templates(prog, cb, t['args'][r[1] - 1], depth + 1)
                    out_f += f2
                    out_o += o2
        elif r[0] == 'call' and depth < 4:
            t = body.term(r[1])
            cb = prog.bodies.get(callee(t))
            if cb is not None and cb.kind in ('fn', 'method'):
                f2, o2 = message_templates(prog, cb, {'c': {'l': 0}}, depth + 1)
                # placeholders of a helper's template refer to the helper's parameters
                for f in f2:
                    f.call_site = (body, r[1])
                out_f += f2
                out_o += o2
            else:
                out_o.append(('call', callee_decl(t)))
        elif r[0] == 'const':
            s = const_str(r)
            if s is not None:
                out_f.append(core.Fmt(body, None, [('lit', s)], []))
            else:
                out_o.append(r)
        else:
            out_o.append(r)
    return out_f, out_o


def producers(prog, node_only=True):
    """every try_send in the crate with its channel kinds and message templates"""
    out = []
    for b in prog.user_bodies():
        if node_only and b.id.startswith(('nundb::client::', 'nundb::command_line::', '<nundb::client::')):
            continue
        for bi, t in b.calls():
            if is_log(t):
                continue
            d = callee_decl(t)
            if d in SEND_FNS and len(t['args']) > 1:
                chans = channel_kinds(prog, b, t['args'][0])
                fmts, others = message_templates(prog, b, t['args'][1])
                out.append(Producer(b, bi, chans, fmts, others, 'try_send'))
    return out


def template_tokens(fmt):
    """split a template into space separated tokens; each token is a list of pieces
    ('lit', text) | ('arg', operand, type, trait).  Trailing newline / space trimmed."""
    toks = [[]]
    pieces = list(fmt.pieces)
    # trim trailing whitespace of the last literal
    if pieces and pieces[-1][0] == 'lit':
        pieces[-1] = ('lit', pieces[-1][1].rstrip('\n').rstrip(' '))
    for p in pieces:
        if p[0] == 'lit':
            parts = p[1].split(' ')
            for i, part in enumerate(parts):
                if i > 0:
                    toks.append([])
                if part:
                    toks[-1].append(('lit', part))
        else:
            toks[-1].append(p)
    return toks


def shape(fmt):
    """template text with the placeholder types dropped: stable part of an obligation key"""
    return ''.join(p[1] if p[0] == 'lit' else '{}' for p in fmt.pieces).rstrip('\n')


def first_word(fmt):
    toks = template_tokens(fmt)
    if toks and toks[0] and all(p[0] == 'lit' for p in toks[0]):
        return ''.join(p[1] for p in toks[0])
    return None


# --------------------------------------------------------------------------------------
# parser schemas
# --------------------------------------------------------------------------------------

NUMERIC_PARSERS = {
    'std::num::from_str_radix': None,      # type from the callee's self type
    'std::str::parse': None,
}


class Slot:
    def __init__(self, bi, iterator):
        self.bi = bi
        self.iterator = iterator       # 'param' or block of the splitn call that made the iterator
        self.required = False
        self.kind = 'str'              # 'str' | 'num:<ty>' | 'container'
        self.num_fallible = None       # numeric parse failure: 'err' (returns Err) | 'default' | 'panic'
        self.literals = []             # [(literal, true_target_block)]
        self.children = []             # for containers
        self.splitn = None             # n of the splitn that produced the child iterator
        self.none_default = None
        self.content_refusal = False   # the parser answers Err for some contents of this token (e.g. empty)
        self.some_t = None
        self.none_t = None

    def __repr__(self):
        r = '%s%s%s' % (self.kind, '' if self.required else '?', '!' if self.content_refusal else '')
        if self.literals:
            r += '{%s}' % '|'.join(l for l, _ in self.literals)
        if self.children:
            r += '[%s]' % ' '.join(map(repr, self.children))
        return r


def parser_schema(prog, body):
    """-> (slots (top level, ordered), variants built, inconclusive reason or None)"""
    from .core import enum_switches, bool_switches
    nexts = []
    splitns = {}
    for bi, t in body.calls():
        d = callee_decl(t)
        if d == 'std::str::splitn':
            n = None
            for r in origins(body, t['args'][1]):
                v = core.const_val(r)
                if isinstance(v, int):
                    n = v
            splitns[bi] = n
    for bi, t in body.calls():
        d = callee_decl(t)
        if d != 'std::iter::Iterator::next':
            continue
        it = None
        for r in origins(body, t['args'][0], stop_at_calls=True):
            if r[0] == 'param' and r[1] == 1:
                it = 'param'
            elif r[0] == 'call' and r[1] in splitns:
                it = r[1]
            elif r[0] == 'call':
                # iterator stored through a match: `let mut rest = match x { Some(r) => r.splitn(..) }`
                it = it or ('call', r[1])
        if it is None:
            continue
        s = Slot(bi, it)
        nexts.append(s)
    if not nexts and not splitns:
        variants = built_variants(body)
        return [], variants, None
    reason = None
    for s in nexts:
        t = body.term(s.bi)
        sws = enum_switches(body, s.bi)
        dest = t['d']['l'] if not t['d'].get('p') else None
        if not sws:
            # `unwrap_or(default)` style: optional
            users = [callee_decl(body.term(b2)) for b2, t2 in body.calls()
                     if any((a.get('m') or a.get('c') or {}).get('l') == dest for a in t2['args'])]
            s.required = False
            if any(u in ('std::option::Option::unwrap', 'std::option::Option::expect') for u in users):
                s.required = True
                s.num_fallible = 'panic'
        else:
            sbi, tm, els, adt = sws[0]
            none_t = tm.get('0')
            some_t = tm.get('1', els)
            s.some_t, s.none_t = some_t, none_t
            if none_t is not None:
                region = {x for x in body.reachable() if body.dominates(none_t, x)}
                s.required = any(st['k'] == 'assign' and not st['l'].get('p') and st['l']['l'] == 0 and
                                 st['r']['k'] == 'agg' and st['r'].get('variant') == 'Err'
                                 for x in region for st in body.blocks[x]['s'])
        # payload uses
        pay = payload_locals(body, dest)
        for bi2, t2 in body.calls():
            d2 = callee_decl(t2)
            uses = [i for i, a in enumerate(t2['args']) if (a.get('m') or a.get('c') or {}).get('l') in pay]
            if not uses:
                continue
            if d2 == 'std::str::splitn' and 0 in uses:
                s.kind = 'container'
                s.splitn = splitns.get(bi2)
                s.child_iter = bi2
            elif d2 in ('std::num::from_str_radix', 'std::str::parse') :
                ty = t2['f'].get('dargs', '')
                if d2 == 'std::str::parse':
                    nt = ty.split('::<')[-1].rstrip('>')
                else:
                    nt = ty.split('::')[2] if ty.count('::') >= 2 else '?'
                    nt = ty.replace('std::num::<impl ', '').split('>')[0]
                s.kind = 'num:' + nt
                # what happens when the number does not parse
                res = t2['d']['l']
                esw = enum_switches(body, bi2)
                unw = [callee_decl(body.term(b3)) for b3, t3 in body.calls()
                       if any((a.get('m') or a.get('c') or {}).get('l') == res for a in t3['args'])]
                if any(u in ('std::result::Result::unwrap', 'std::result::Result::expect') for u in unw):
                    s.num_fallible = 'panic'
                elif esw:
                    sb2, tm2, els2, _ = esw[0]
                    err_t = tm2.get('1', els2)
                    reg = {x for x in body.reachable() if body.dominates(err_t, x)}
                    if any(st['k'] == 'assign' and not st['l'].get('p') and st['l']['l'] == 0 and st['r']['k'] == 'agg'
                           and st['r'].get('variant') == 'Err' for x in reg for st in body.blocks[x]['s']):
                        s.num_fallible = 'err'
                    else:
                        s.num_fallible = 'default'
            elif d2 in ('std::cmp::PartialEq::eq',):
                for a in t2['args']:
                    for r in origins(body, a):
                        lit = const_str(r)
                        if lit is not None:
                            for (sbi3, tt, ft) in bool_switches(body, bi2):
                                s.literals.append((lit, tt))
        # string patterns in `match` lower to `str::eq`-like comparisons through <str as PartialEq>::eq;
        # also handle `std::str::eq` spelled differently
    # numeric via replace(...): payload -> replace -> &String -> from_str_radix
    for s in nexts:
        if s.kind != 'str':
            continue
        t = body.term(s.bi)
        dest = t['d']['l'] if not t['d'].get('p') else None
        pay = payload_locals(body, dest, through_calls=True)
        for bi2, t2 in body.calls():
            d2 = callee_decl(t2)
            if d2 in ('std::num::from_str_radix', 'std::str::parse'):
                if any((a.get('m') or a.get('c') or {}).get('l') in pay for a in t2['args'][:1]):
                    ty = t2['f'].get('dargs', '')
                    if d2 == 'std::str::parse':
                        nt = ty.split('::<')[-1].rstrip('>')
                    else:
                        nt = ty.replace('std::num::<impl ', '').split('>')[0]
                    s.kind = 'num:' + nt
                    esw = enum_switches(body, bi2)
                    res = t2['d']['l']
                    unw = [callee_decl(body.term(b3)) for b3, t3 in body.calls()
                           if any((a.get('m') or a.get('c') or {}).get('l') == res for a in t3['args'])]
                    if any(u in ('std::result::Result::unwrap', 'std::result::Result::expect') for u in unw):
                        s.num_fallible = 'panic'
                    elif esw:
                        sb2, tm2, els2, _ = esw[0]
                        err_t = tm2.get('1', els2)
                        reg = {x for x in body.reachable() if body.dominates(err_t, x)}
                        if any(st['k'] == 'assign' and not st['l'].get('p') and st['l']['l'] == 0 and st['r']['k'] == 'agg'
                               and st['r'].get('variant') == 'Err' for x in reg for st in body.blocks[x]['s']):
                            s.num_fallible = 'err'
                        else:
                            s.num_fallible = 'default'
            elif d2 == 'std::str::splitn' and s.kind == 'str':
                if any((a.get('m') or a.get('c') or {}).get('l') in pay for a in t2['args'][:1]):
                    s.kind = 'container'
                    s.splitn = splitns.get(bi2)
                    s.child_iter = bi2
    # content-dependent refusals: Err results that are neither the None arm of a slot nor the Err arm of a
    # numeric parse; attributed to the latest slot whose Some arm dominates them
    err_blocks = [x for x in body.reachable() for st in body.blocks[x]['s']
                  if st['k'] == 'assign' and not st['l'].get('p') and st['l']['l'] == 0 and st['r']['k'] == 'agg' and st['r'].get('variant') == 'Err']
    numeric_err = set()
    for bi2, t2 in body.calls():
        if callee_decl(t2) in ('std::num::from_str_radix', 'std::str::parse'):
            for (sb2, tm2, els2, _) in enum_switches(body, bi2):
                err_t = tm2.get('1', els2)
                for e in err_blocks:
                    if body.dominates(err_t, e):
                        numeric_err.add(e)
    next_blocks = {o.bi for o in nexts}
    for s in nexts:
        if s.some_t is None:
            continue
        # blocks reachable from the Some arm before any other token is taken
        reach = body.reach_from([s.some_t], stop=lambda x: x in next_blocks and x != s.bi, include_start=True)
        for e in err_blocks:
            if e in reach and e not in numeric_err and e not in next_blocks:
                s.content_refusal = True

    # order and nest
    def order(slots):
        return sorted(slots, key=lambda s: (len(body.dom().get(s.bi, ())), s.bi))
    top = order([s for s in nexts if s.iterator == 'param'])
    by_iter = {}
    for s in nexts:
        if s.iterator != 'param':
            by_iter.setdefault(s.iterator, []).append(s)
    used = set()
    for s in nexts:
        if s.kind == 'container':
            kids = by_iter.get(s.child_iter, [])
            if not kids:
                # iterator reached through a match binding: any unattached group
                for k, v in by_iter.items():
                    if k not in used and isinstance(k, tuple):
                        kids = v
                        used.add(k)
                        break
            else:
                used.add(s.child_iter)
            s.children = order(kids)
    loose = [k for k in by_iter if k not in used]
    if loose:
        reason = 'iterator(s) %s not attached to a container slot' % loose
    return top, built_variants(body), reason


def _guard_fallthrough(body, s, e):
    """`Some(x) if cond => …, _ => Err`: the Err block is reached from inside the Some arm (guard false)
    although it is not dominated by it"""
    if s.some_t is None:
        return False
    some_region = {x for x in body.reachable() if body.dominates(s.some_t, x)}
    # an edge from the Some region into a block that leads to e without re-entering through the None target
    for x in some_region:
        for y in body.succ(x):
            if y not in some_region:
                r = body.reach_from([y], include_start=True)
                if e in r and y != s.none_t or (y == s.none_t and e in r):
                    return True
    return False


def payload_locals(body, dest, through_calls=False):
    """locals holding the Some payload of Option local `dest` (and values derived from it by
    moves/refs; with through_calls also through replace/to_string/from/as_str)"""
    if dest is None:
        return set()
    pay = set()
    changed = True
    base = {dest}
    THROUGH = ('std::str::replace', 'std::string::ToString::to_string', 'std::convert::From::from',
               'std::string::String::as_str', 'std::ops::Deref::deref', 'std::str::trim', 'std::borrow::ToOwned::to_owned',
               'std::clone::Clone::clone', 'std::convert::Into::into', 'std::convert::AsRef::as_ref')
    while changed:
        changed = False
        for b in body.blocks:
            if b['cleanup']:
                continue
            for st in b['s']:
                if st['k'] != 'assign' or st['l'].get('p'):
                    continue
                r = st['r']
                src = None
                if r['k'] in ('use', 'cast'):
                    o = r['o']
                    p = o.get('m') or o.get('c')
                    if p:
                        if p['l'] in base and any(e[0] == 'd' for e in p.get('p', ())):
                            src = 'pay'
                        elif p['l'] in pay:
                            src = 'pay'
                        elif p['l'] in base and not p.get('p'):
                            if st['l']['l'] not in base:
                                base.add(st['l']['l'])
                                changed = True
                elif r['k'] == 'ref':
                    if r['p']['l'] in pay:
                        src = 'pay'
                    elif r['p']['l'] in base and any(e[0] == 'd' for e in r['p'].get('p', ())):
                        src = 'pay'
                if src == 'pay' and st['l']['l'] not in pay:
                    pay.add(st['l']['l'])
                    changed = True
            t = b['t']
            if through_calls and t['k'] == 'call' and callee_decl(t) in THROUGH and t['args']:
                p = t['args'][0].get('m') or t['args'][0].get('c')
                if p and p['l'] in pay and not t['d'].get('p') and t['d']['l'] not in pay:
                    pay.add(t['d']['l'])
                    changed = True
    return pay


def built_variants(body):
    out = []
    for b in body.blocks:
        if b['cleanup']:
            continue
        for st in b['s']:
            if st['k'] == 'assign' and st['r']['k'] == 'agg' and st['r'].get('adt', '').endswith('bo::Request'):
                if st['r']['variant'] not in out:
                    out.append(st['r']['variant'])
    return out


# --------------------------------------------------------------------------------------
# template vs schema
# --------------------------------------------------------------------------------------

INT_TYPES = ('i8', 'i16', 'i32', 'i64', 'i128', 'isize', 'u8', 'u16', 'u32', 'u64', 'u128', 'usize')


def int_fits(src, dst):
    """every value of integer type src is a value of dst"""
    def rng(ty):
        bits = {'8': 8, '16': 16, '32': 32, '64': 64, '128': 128, 'size': 64}[ty[1:]]
        return (-(1 << (bits - 1)), (1 << (bits - 1)) - 1) if ty[0] == 'i' else (0, (1 << bits) - 1)
    (a, b), (c, d) = rng(src), rng(dst)
    return c <= a and b <= d


def num_type(kind):
    if not kind.startswith('num:'):
        return None
    k = kind[4:]
    for t in INT_TYPES:
        if k.endswith(t) or k.endswith('impl ' + t):
            return t
    return k


def placeholder_is_numeric(prog, fmt, piece, depth=0):
    """piece = ('arg', operand, type, trait).  True / False / None(unknown)"""
    ty = piece[2].replace('&', '')
    if ty in INT_TYPES or ty == 'bool' and False:
        return True
    if ty in ('std::string::String', 'str') and piece[1] is not None and depth < 4:
        body = fmt.body
        res = []
        for r in origins(body, piece[1], stop_at_calls=True):
            if r[0] == 'call':
                t = body.term(r[1])
                d = callee_decl(t)
                if d in ('std::string::ToString::to_string',) and t['f'].get('t0', '').replace('&', '') in INT_TYPES:
                    res.append(True)
                elif d in core.LOOK_THROUGH and t['args']:
                    # clone()/to_string() of another string: follow
                    sub = ('arg', t['args'][0], piece[2], piece[3])
                    res.append(placeholder_is_numeric(prog, fmt, sub, depth + 1))
                else:
                    res.append(False)
            elif r[0] == 'param':
                # a helper's parameter: every caller must pass a number-as-string
                callers = prog.callers().get(body.id, [])
                if not callers:
                    res.append(None)
                for (cb, cbi) in callers:
                    t = cb.term(cbi)
                    if r[1] - 1 < len(t['args']):
                        f2 = core.Fmt(cb, cbi, [], [])
                        res.append(placeholder_is_numeric(prog, f2, ('arg', t['args'][r[1] - 1], piece[2], piece[3]), depth + 1))
            else:
                res.append(False)
        if res and all(x is True for x in res):
            return True
        if any(x is False for x in res):
            return False
        return None
    return False


def placeholder_int_types(prog, fmt, piece, depth=0):
    """integer types whose decimal text can reach the placeholder (directly, or as `n.to_string()` through helper parameters)"""
    ty = piece[2].replace('&', '')
    if ty in INT_TYPES:
        return {ty}
    out = set()
    if ty in ('std::string::String', 'str') and piece[1] is not None and depth < 4:
        body = fmt.body
        for r in origins(body, piece[1], stop_at_calls=True):
            if r[0] == 'call':
                t = body.term(r[1])
                d = callee_decl(t)
                t0 = t['f'].get('t0', '').replace('&', '')
                if d in ('std::string::ToString::to_string',) and t0 in INT_TYPES:
                    out.add(t0)
                elif d in core.LOOK_THROUGH and t['args']:
                    out |= placeholder_int_types(prog, fmt, ('arg', t['args'][0], piece[2], piece[3]), depth + 1)
            elif r[0] == 'param':
                for (cb, cbi) in prog.callers().get(body.id, []):
                    t = cb.term(cbi)
                    if r[1] - 1 < len(t['args']):
                        out |= placeholder_int_types(prog, core.Fmt(cb, cbi, [], []), ('arg', t['args'][r[1] - 1], piece[2], piece[3]), depth + 1)
    return out


def check_template(prog, fmt, schema_top, alt_literal_ok=True):
    """compare one producer template with the parser schema of its command word.
    -> list of problems (strings); empty = agrees.  Also returns the mapping for reports."""
    toks = template_tokens(fmt)[1:]
    problems = []
    mapping = []

    def tok_text(tok):
        return ''.join(p[1] if p[0] == 'lit' else '{%s}' % p[2].split('::')[-1] for p in tok)

    def walk(slots, toks, is_last_group):
        i = 0
        for si, s in enumerate(slots):
            last_slot = si == len(slots) - 1
            if i >= len(toks):
                if s.required:
                    problems.append('required slot %d (%r) has no token' % (si + 1, s))
                mapping.append((repr(s), None))
                continue
            if s.kind == 'container':
                rest = toks[i:]
                mapping.append(('container', [tok_text(t) for t in rest]))
                walk(s.children, rest, True)
                i = len(toks)
                continue
            tok = toks[i]
            if last_slot and is_last_group and len(toks) - i > 1:
                # the remainder of the line goes into the last slot
                mapping.append((repr(s), ' '.join(tok_text(t) for t in toks[i:])))
                if s.kind.startswith('num:'):
                    problems.append('numeric slot %r receives several tokens %s' % (s, [tok_text(t) for t in toks[i:]]))
                i = len(toks)
                continue
            mapping.append((repr(s), tok_text(tok)))
            if s.content_refusal and not s.kind.startswith('num:'):
                nonempty = any(p[0] == 'lit' and p[1] for p in tok) or \
                    any(p[0] == 'arg' and p[2].replace('&', '') in INT_TYPES for p in tok)
                if not nonempty:
                    problems.append('slot %d (%r) is refused by the parser for some contents (e.g. an empty token) and the producer fills it '
                                    'with an unchecked %s' % (si + 1, s, tok_text(tok)))
            if s.kind.startswith('num:'):
                if len(tok) == 1 and tok[0][0] == 'arg':
                    isnum = placeholder_is_numeric(prog, fmt, tok[0])
                    sty = num_type(s.kind)
                    if isnum is True and sty in INT_TYPES:
                        wide = sorted(x for x in placeholder_int_types(prog, fmt, tok[0]) if not int_fits(x, sty))
                        if wide:
                            problems.append('numeric slot %s receives the text of a wider integer (%s): a value outside %s does not parse on the '
                                            'receiver, which then falls back to its default or refuses the message' % (sty, ', '.join(wide), sty))
                    if isnum is False:
                        problems.append('numeric slot %s receives the non-numeric placeholder %s' % (num_type(s.kind), tok_text(tok)))
                    elif isnum is None:
                        problems.append('numeric slot %s receives a placeholder of unknown origin %s' % (num_type(s.kind), tok_text(tok)))
                elif len(tok) == 1 and tok[0][0] == 'lit' and tok[0][1].lstrip('-').isdigit():
                    pass
                else:
                    problems.append('numeric slot %s receives %s' % (num_type(s.kind), tok_text(tok)))
            i += 1
        if i < len(toks) and not is_last_group:
            problems.append('tokens %s are never read by the parser' % [tok_text(t) for t in toks[i:]])
        elif i < len(toks):
            problems.append('tokens %s are never read by the parser' % [tok_text(t) for t in toks[i:]])
    walk(schema_top, toks, True)
    return problems, mapping
