"""Inlining of extracted helpers (facts level).

An "extract function" refactoring moves a piece of an anchored function into a new private function.  The rules are written against
the functions of the reference tree (engine/ref_symbols.json); a function that

  * does not exist in the reference tree (after the rename normalisation of symbols.py),
  * is a plain fn / method (no closure, no coroutine), not recursive, of bounded size, and
  * is called from at most MAX_SITES places (code that was duplicated and is now one helper is called from each place it was in),

is spliced into its call sites before any rule runs: parameters become assignments of the arguments, `return` becomes an assignment of
the return place to the call's destination followed by a jump to the call's successor.  The rules then see the code where it was before
the refactoring.  On a tree without such functions — the reference tree itself — nothing is changed.  File and line of every spliced
block stay those of the helper, so reports still point at the real source.  Inlined functions stay in the program as well (rules that
sweep every body still see them); the list of what was inlined is returned for the evidence."""
import copy

MAX_BLOCKS = 260
MAX_ROUNDS = 3
MAX_SITES = 6        # a helper extracted from duplicated code is called from each of the places the code was in


def _family(bid, bodies):
    b = bodies.get(bid)
    seen = 0
    while b is not None and b.get('parent') and b['parent'] in bodies and seen < 8:
        bid = b['parent']
        b = bodies[bid]
        seen += 1
    return bid


def _callee_of(t):
    f = t.get('f') or {}
    return f.get('res') or f.get('def')


def _shift(x, off_l, key=None):
    """deep copy of a statement / terminator with every local shifted by off_l"""
    if isinstance(x, dict):
        if key == 'k' or key == 'f':
            return x                      # constants and callee descriptions carry no places
        out = {}
        is_place_like = isinstance(x.get('l'), int)
        for k, v in x.items():
            if k == 'l' and is_place_like:
                out[k] = v + off_l
            elif k == 'p' and is_place_like and isinstance(v, list):
                out[k] = [([e[0], e[1] + off_l] + list(e[2:])) if (e and e[0] == 'i' and len(e) > 1 and isinstance(e[1], int)) else e for e in v]
            else:
                out[k] = _shift(v, off_l, k)
        return out
    if isinstance(x, list):
        return [_shift(v, off_l, None) for v in x]
    return x


def _retarget(t, off_b, cont, unwind):
    """terminator of a spliced block: block numbers shifted; `return` is handled by the caller"""
    t = dict(t)
    k = t['k']
    if k == 'goto':
        t['t'] = t['t'] + off_b
    elif k == 'switch':
        t['targets'] = [[v, tb + off_b] for v, tb in t['targets']]
        t['else'] = t['else'] + off_b
    elif k in ('call', 'drop', 'assert'):
        if t.get('t') is not None:
            t['t'] = t['t'] + off_b
        if t.get('u') is not None:
            t['u'] = t['u'] + off_b
    elif k == 'resume':
        if unwind is not None:
            t = {'k': 'goto', 't': unwind}
    return t


def _splice(caller, bi, callee):
    call = caller['blocks'][bi]['t']
    off_l = len(caller['locals'])
    off_b = len(caller['blocks'])
    caller['locals'] = list(caller['locals']) + list(callee['locals'])
    for v in callee.get('vars', []):
        p = v.get('p') or {}
        if isinstance(p.get('l'), int):
            caller['vars'] = list(caller['vars']) + [dict(v, p=_shift(p, off_l))]
    cont = call.get('t')
    unwind = call.get('u')
    line = call.get('line')
    # arguments -> parameters
    pre = []
    for j, a in enumerate(call['args']):
        if j + 1 <= callee['argc']:
            pre.append({'k': 'assign', 'l': {'l': off_l + 1 + j}, 'r': {'k': 'use', 'o': a}, 'line': line, 'inl': callee['id']})
    blk = caller['blocks'][bi]
    blk['s'] = list(blk['s']) + pre
    blk['t'] = {'k': 'goto', 't': off_b}
    for cb in callee['blocks']:
        nb = {'cleanup': cb.get('cleanup', False), 's': [_shift(s, off_l) for s in cb['s']]}
        t = cb['t']
        if t['k'] == 'return':
            nb['s'].append({'k': 'assign', 'l': call['d'], 'r': {'k': 'use', 'o': {'m': {'l': off_l}}}, 'line': line, 'inl': callee['id']})
            nb['t'] = {'k': 'goto', 't': cont} if cont is not None else {'k': 'unreachable'}
        else:
            nb['t'] = _retarget(_shift(t, off_l), off_b, cont, unwind)
        nb['inl'] = callee['id']
        caller['blocks'].append(nb)


def inline_new_helpers(parsed, ref):
    """parsed: list of crate facts (dicts with 'bodies'); ref: reference symbol table (dict keyed by function path) or None.
    Returns the list of {'helper':…, 'into':…, 'sites':…} that were inlined."""
    if not ref:
        return []
    log = []
    # a tree that has commands the reference tree does not have (new variants of the Request enum) has grown a FEATURE: the public
    # functions its handler arms call are new API (a counting sibling of the key listing, an info method), not code extracted from an
    # existing function — they are judged as functions of their own, where the rules for listing-like scans recognise them
    new_cmds = False
    try:
        import json as _json, os as _os
        ref_adts = _json.load(open(_os.path.join(_os.path.dirname(_os.path.dirname(_os.path.abspath(__file__))), 'ref_adts.json')))
        refv = {v['name'] for v in ref_adts.get('nundb::bo::Request', {}).get('variants', [])}
        for d in parsed:
            a = d.get('adts', {}).get('nundb::bo::Request')
            if a and refv and {v['name'] for v in a.get('variants', [])} - refv:
                new_cmds = True
    except (OSError, ValueError, KeyError):
        pass
    while len(log) < 24:
        bodies = {}
        for d in parsed:
            for b in d['bodies']:
                bodies[b['id']] = b
        # call sites per callee
        sites = {}
        for b in bodies.values():
            for bi, bl in enumerate(b['blocks']):
                t = bl['t']
                if t['k'] == 'call' and not (t.get('f') or {}).get('ind'):
                    c = _callee_of(t)
                    if c in bodies:
                        sites.setdefault(c, []).append((b['id'], bi))
        done = False
        for hid, ss in sorted(sites.items()):
            h = bodies[hid]
            if hid in ref or h['kind'] not in ('fn', 'method') or h.get('promoted') or h.get('public') and False:
                continue
            if '{closure' in hid or len(h['blocks']) > MAX_BLOCKS:
                continue
            if any(bl['t']['k'] in ('yield', 'coroutinedrop') for bl in h['blocks']):
                continue
            fams = {_family(c, bodies) for c, _ in ss}
            if len(ss) > MAX_SITES or _family(hid, bodies) in fams:
                continue          # many users (a real shared function), or recursion
            def _locks_directly(body_):
                for bl_ in body_['blocks']:
                    t_ = bl_['t']
                    if t_['k'] != 'call':
                        continue
                    f_ = t_.get('f') or {}
                    nm_ = str(f_.get('decl') or f_.get('def') or f_.get('res') or '')
                    if nm_.split('::')[-1] in ('read', 'write', 'lock') and any(x in nm_ for x in ('RwLock', 'Mutex')):
                        return True
                return False
            if len(ss) > 1 and _locks_directly(h) and any(_locks_directly(bodies[c]) for c, _ in ss):
                continue          # a shared helper with a critical section of its own, called from a function that locks too, is a unit of
                                  # locking: spliced, its section and the caller's would read as one function taking the lock twice
            if new_cmds and h.get('public'):
                continue          # API of a new command (see above)
            # the helper must not call itself
            if any(_callee_of(bl['t']) == hid for bl in h['blocks'] if bl['t']['k'] == 'call'):
                continue
            # callers that are test code are not the node
            for cid, bi in sorted(ss, key=lambda x: (x[0], -x[1])):
                _splice(bodies[cid], bi, h)
            # closures created inside the helper now belong to the caller's family
            for b in bodies.values():
                if b.get('parent') == hid:
                    b['parent'] = ss[0][0]
            log.append({'helper': hid, 'into': sorted({c for c, _ in ss}), 'sites': len(ss)})
            done = True
            break                 # recompute the call sites (block numbers changed)
        if not done:
            break
    return log
