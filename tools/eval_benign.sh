#!/bin/sh
# usage: eval_benign.sh  — every behaviour-preserving refactoring stored under /verif/benign/ is applied to /repo in turn,
# all 20 quick checks are run, the tree is restored.  Expected output: no "FIRES" line (a check that fires on one of these is a
# false alarm to be corrected in the machinery).
cd /verif || exit 2
rc=0
for p in benign/*.diff; do
  out=$(tools/eval_seed.sh "$PWD/$p")
  if [ -n "$out" ]; then echo "== $p"; echo "$out"; rc=1; fi
done
[ $rc -eq 0 ] && echo "all benign variants silent"
exit $rc
